#!/bin/bash
# usage: tools/seedbatch.sh C01 C02 ...   validates all incoming seeds of those properties sequentially
cd /verif
mkdir -p seeded/_results
for p in "$@"; do
  for d in seeded/_incoming/${p}-*; do
    [ -d "$d" ] || continue
    id=$(basename $d)
    if [ -s seeded/_results/$id.json ] && [ -z "$FORCE" ]; then continue; fi
    /venv/bin/python tools/seedcheck.py $d $id 2>/dev/null | grep -v '^WARNING' > seeded/_results/$id.json.tmp
    mv seeded/_results/$id.json.tmp seeded/_results/$id.json
  done
done
