#!/venv/bin/python
"""Validate one seeded change and run the checks against it.

usage: tools/seedcheck.py <srcdir with patch.diff demo.py meta.json> <seed-id> [--checks C01,C02] [--tier quick] [--keep]

Steps (all in a fresh scratch worktree under /tmp, removed afterwards):
  1. demo on pristine tree must exit 0
  2. patch applies; the pinned baseline command's 92 stable tests still pass on the patched tree
  3. demo on patched tree must exit non-zero
  4. each named check (default: the property in meta.json) is run with VERIF_REPO=<patched tree>;
     'caught' = exit 1 with a VIOLATION line
If 1–3 hold, the change is stored as /verif/seeded/<seed-id>/ (patch.diff, demo.py, meta.json with what was run).
"""
import json, os, shutil, subprocess, sys, time, tempfile

PY = "/venv/bin/python"
TESTS = ["test/core/mat/mat_util_test.py", "test/core/random/prng_test.py", "test/core/util/haplo_test.py"]


def sh(cmd, cwd=None, env=None, timeout=3600):
    p = subprocess.run(cmd, cwd=cwd, env=env, capture_output=True, text=True, timeout=timeout)
    return p.returncode, p.stdout + p.stderr


def main():
    src, sid = sys.argv[1], sys.argv[2]
    args = sys.argv[3:]
    tier = "quick"
    checks = None
    if "--tier" in args:
        tier = args[args.index("--tier") + 1]
    if "--checks" in args:
        checks = args[args.index("--checks") + 1].split(",")
    meta = json.load(open(os.path.join(src, "meta.json")))
    pid = meta["property"]
    checks = checks or [pid]
    wt = tempfile.mkdtemp(prefix=f"sc_{sid}_", dir="/tmp")
    os.rmdir(wt)
    res = {"seed_id": sid, "property": pid, "steps": {}}
    try:
        rc, out = sh(["git", "-C", "/repo", "worktree", "add", "--detach", wt])
        assert rc == 0, out
        demo = os.path.join(src, "demo.py")
        rc, out = sh([PY, demo, wt], timeout=900)
        res["steps"]["demo_pristine_exit"] = rc
        rc, out = sh(["git", "-C", wt, "apply", os.path.abspath(os.path.join(src, "patch.diff"))])
        if rc != 0:   # the tree has moved on (fix: commits) since the patch was written: try a 3-way merge
            rc, out2 = sh(["git", "-C", wt, "apply", "--3way", os.path.abspath(os.path.join(src, "patch.diff"))])
            res["steps"]["applied_3way"] = (rc == 0)
            out += out2
            if rc == 0:
                sh(["git", "-C", wt, "reset", "-q"])
                _, newdiff = sh(["git", "-C", wt, "diff"])
                res["steps"]["rebased_patch"] = newdiff
        res["steps"]["patch_applies"] = (rc == 0)
        if rc != 0:
            res["steps"]["patch_err"] = out[-500:]
        env = dict(os.environ)
        env.pop("PYBROPS_VERIF", None)
        jx = wt + ".junit.xml"
        rc, out = sh([PY, "-m", "pytest", "-ra", "-q", "-p", "no:cacheprovider", "--timeout=900",
                      "--continue-on-collection-errors", f"--junitxml={jx}"], cwd=wt, env=env, timeout=1800)
        tail = out.strip().splitlines()[-1] if out.strip() else ""
        res["steps"]["tests_patched"] = tail
        import xml.etree.ElementTree as ET
        okset = set()
        try:
            for tc in ET.parse(jx).iter("testcase"):
                if not list(tc):
                    okset.add(tc.get("classname") + "::" + tc.get("name"))
        finally:
            if os.path.exists(jx):
                os.remove(jx)
        base = set(json.load(open("/root/.vp/BASELINE.json"))["stable_pass"])
        res["steps"]["baseline_missing"] = sorted(base - okset)
        res["steps"]["tests_pass"] = base <= okset
        rc, out = sh([PY, demo, wt], timeout=900)
        res["steps"]["demo_patched_exit"] = rc
        res["steps"]["demo_patched_out"] = out[-400:]
        valid = (res["steps"]["demo_pristine_exit"] == 0 and res["steps"]["patch_applies"]
                 and res["steps"]["tests_pass"] and res["steps"]["demo_patched_exit"] != 0)
        res["valid"] = valid
        res["checks"] = {}
        if valid or "--force" in args:
            for c in checks:
                env = dict(os.environ, VERIF_REPO=wt, VERIF_TIER=tier)
                t0 = time.time()
                rc, out = sh([PY, "-m", "mc.run", c, "--tier", tier], cwd="/verif", env=env, timeout=7200)
                vl = [l for l in out.splitlines() if l.startswith("VIOLATION")]
                sigs = [l.strip() for l in out.splitlines() if l.strip().startswith("sig=")]
                res["checks"][c] = {"exit": rc, "caught": rc == 1 and bool(vl), "n_violation_lines": len(vl),
                                    "sigs": sigs[:8], "wall_s": round(time.time() - t0, 1),
                                    "harness_error": out[-1500:] if rc not in (0, 1) else None}
        if valid:
            dst = os.path.join("/verif/seeded", sid)
            os.makedirs(dst, exist_ok=True)
            if res["steps"].get("rebased_patch"):
                open(os.path.join(dst, "patch.diff"), "w").write(res["steps"]["rebased_patch"])
                shutil.copy(os.path.join(src, "patch.diff"), os.path.join(dst, "patch.orig-base.diff"))
            else:
                shutil.copy(os.path.join(src, "patch.diff"), dst)
            shutil.copy(demo, dst)
            meta2 = dict(meta)
            meta2["seed_id"] = sid
            meta2["validated"] = {k: v for k, v in res["steps"].items() if k not in ("demo_patched_out", "rebased_patch")}
            meta2["validated"]["repo_head"] = sh(["git", "-C", "/repo", "rev-parse", "--short", "HEAD"])[1].strip()
            meta2["ran"] = ("fresh worktree of /repo: demo.py on pristine (exit 0); git apply patch.diff; pinned 92 tests "
                            "(all pass); demo.py on patched (exit !=0); checks with VERIF_REPO=<patched worktree>")
            meta2["detected_by"] = {c: {"caught": r["caught"], "sigs": r["sigs"], "tier": tier} for c, r in res["checks"].items()}
            json.dump(meta2, open(os.path.join(dst, "meta.json"), "w"), indent=1)
    finally:
        sh(["git", "-C", "/repo", "worktree", "remove", "--force", wt])
        shutil.rmtree(wt, ignore_errors=True)
    res["steps"].pop("rebased_patch", None)
    print(json.dumps(res, indent=1))


if __name__ == "__main__":
    main()
