#!/venv/bin/python
"""After `fix:` commits landed in /repo: mark the known-finding entries whose signatures are no longer reported
as *fixed* (status "fixed" suppresses nothing: if the violation returns it is reported as VIOLATION).

usage: tools/reconcile_known.py [--apply]
Reads evidence/<id>.json (known_findings_reported of the LAST run of each check — run all checks first) and
known_findings.d/*.json.  For an entry that matched nothing, the fixing commit is looked up among /repo's `fix:`
commits by the file names mentioned in the entry.
"""
import glob, json, os, re, subprocess, sys

V = "/verif"
apply = "--apply" in sys.argv
base = open("/root/.vp/repo_root_sha").read().strip()
log = subprocess.run(["git", "-C", "/repo", "log", "--format=%h\t%s", f"{base}..HEAD"], capture_output=True, text=True).stdout.strip().splitlines()
commits = []
for l in log:
    h, s = l.split("\t", 1)
    if not s.startswith("fix:"):
        continue
    files = subprocess.run(["git", "-C", "/repo", "show", "--name-only", "--format=", h], capture_output=True, text=True).stdout.split()
    commits.append((h, s, [os.path.basename(f) for f in files]))

out_fixed = []
for f in sorted(glob.glob(f"{V}/known_findings.d/C*.json")):
    pid = os.path.basename(f)[:3]
    d = json.load(open(f))
    evp = f"{V}/evidence/{pid}.json"
    rep = json.load(open(evp))["coverage"].get("known_findings_reported", []) if os.path.exists(evp) else []
    changed = False
    for e in d["findings"]:
        if e.get("status") != "known":
            continue
        hit = [s for s in rep if e.get("sig") == s or ("sig_re" in e and re.fullmatch(e["sig_re"], s))]
        if hit:
            continue
        text = (e.get("what", "") + " " + str(e.get("suggested_fix", "")))
        # candidate commits: those touching a file named in the entry, best = most word overlap with subject
        words = set(re.findall(r"[A-Za-z_]{5,}", text))
        cands = []
        for h, s, files in commits:
            fhit = [x for x in files if x in text]
            if fhit:
                score = len(words & set(re.findall(r"[A-Za-z_]{5,}", s)))
                cands.append((score, h, s))
        cands.sort(reverse=True)
        e["status"] = "fixed"
        e["fixed_by"] = [f"{h} {s}" for _, h, s in cands[:2]] or ["(no matching fix commit found — signature no longer produced)"]
        e["fixed_line"] = f"fixed: property={pid} {cands[0][1] if cands else '-'} {e.get('what','')[:160]}"
        out_fixed.append(e["fixed_line"])
        changed = True
    if changed and apply:
        json.dump(d, open(f, "w"), indent=1, ensure_ascii=False)
print("\n".join(out_fixed))
print(f"\n{len(out_fixed)} entries {'marked' if apply else 'would be marked'} fixed")
