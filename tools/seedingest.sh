#!/bin/bash
# usage: tools/seedingest.sh <tag> <pid>   copies /tmp/seed_<pid>_<tag>_out/<k>/ to seeded/_incoming/<pid>-<tag><k>, validates, runs the property's quick check
cd /verif
tag=$1; p=$2
mkdir -p seeded/_incoming seeded/_results
for k in 1 2 3; do
  s=/tmp/seed_${p}_${tag}_out/$k
  [ -f $s/patch.diff ] && [ -f $s/demo.py ] && [ -f $s/meta.json ] || continue
  id=${p}-${tag}$k
  rm -rf seeded/_incoming/$id; cp -r $s seeded/_incoming/$id
  VERIF_JOBS=${VERIF_JOBS:-6} /venv/bin/python tools/seedcheck.py seeded/_incoming/$id $id 2>/dev/null | grep -v '^WARNING' > seeded/_results/$id.json.tmp
  mv seeded/_results/$id.json.tmp seeded/_results/$id.json
done
