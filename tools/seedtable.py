#!/venv/bin/python
"""Print a markdown table of all validated seeded changes and which checks catch them
(from seeded/<id>/meta.json; falls back on seeded/_results/<id>.json)."""
import json, os, glob

rows = []
for d in sorted(glob.glob("/verif/seeded/C*-*")):
    mp = os.path.join(d, "meta.json")
    if not os.path.exists(mp):
        continue
    m = json.load(open(mp))
    det = m.get("detected_by", {})
    caught = [c for c, r in det.items() if r.get("caught")]
    obsolete = m.get("obsolete")
    sigs = []
    for c in caught:
        sigs += [s.replace("sig=", "").split(" cases=")[0] for s in det[c].get("sigs", [])[:2]]
    rows.append((m.get("seed_id", os.path.basename(d)), m["property"], m.get("summary", "")[:110].replace("|", "/"),
                 m.get("needs", "")[:120].replace("|", "/"), ("obsolete after a fix: commit (" + ", ".join(caught or ["caught before the fix"]) + ")") if obsolete else (", ".join(caught) if caught else "**missed**"),
                 "; ".join(sigs)[:160].replace("|", "/")))
print("| seed | property | change | needs | caught by (quick) | first signatures |")
print("|---|---|---|---|---|---|")
for r in rows:
    print("| " + " | ".join(r) + " |")
n = len(rows)
c = sum(1 for r in rows if not r[4].startswith("**") and not r[4].startswith("obsolete"))
o = sum(1 for r in rows if r[4].startswith("obsolete"))
print(f"\n{c} of {n - o} seeded changes that apply to the current /repo are caught by the quick tier of at least one check; "
      f"{o} became obsolete when the genuine defect they relied on was repaired (they were caught before that).")
