#!/bin/bash
# usage: tools/seedall.sh <parallel> <jobs per check> [ids...]   re-validates seeds against the current /repo with the current checks
cd /verif
P=$1; J=$2; shift; shift
mkdir -p seeded/_results2
ids="$@"; [ -z "$ids" ] && ids=$(ls seeded/_incoming)
printf "%s\n" $ids | xargs -P $P -I{} bash -c 'VERIF_JOBS='$J' /venv/bin/python tools/seedcheck.py seeded/_incoming/{} {} 2>/dev/null | grep -v "^WARNING" > seeded/_results2/{}.json.tmp; mv seeded/_results2/{}.json.tmp seeded/_results2/{}.json'
