#!/venv/bin/python
"""Writes /verif/known_findings.txt: one line per recorded finding, from known_findings.json + known_findings.d/*.json.
  known: property=<id> sig=<signature or regex> <what fails>
  fixed: property=<id> <commit> <what failed>          (suppresses nothing)"""
import glob, json
lines = []
for f in ["/verif/known_findings.json"] + sorted(glob.glob("/verif/known_findings.d/C*.json")):
    for e in json.load(open(f)).get("findings", []):
        what = " ".join(e.get("what", "").split())[:220]
        if e.get("status") == "fixed":
            c = (e.get("fixed_by") or ["-"])[0].split(" ")[0]
            lines.append(f"fixed: property={e['property']} {c} {what}")
        else:
            lines.append(f"known: property={e['property']} sig={e.get('sig') or e.get('sig_re')} {what}")
open("/verif/known_findings.txt", "w").write("\n".join(lines) + "\n")
print(len(lines), "lines;", sum(l.startswith("known") for l in lines), "known,", sum(l.startswith("fixed") for l in lines), "fixed")
