#!/venv/bin/python
import json,glob,os,sys
d = sys.argv[1] if len(sys.argv)>1 else "/verif/seeded/_results2"
ok=miss=inv=0
for f in sorted(glob.glob(d+"/*.json")):
    try: r=json.load(open(f))
    except Exception as e: print(os.path.basename(f),"unreadable"); continue
    st=r["steps"]
    if not r.get("valid"):
        inv+=1; print(r["seed_id"],"INVALID",{k:st.get(k) for k in ("demo_pristine_exit","patch_applies","applied_3way","tests_pass","demo_patched_exit")}); continue
    for c,v in r["checks"].items():
        if v["caught"]: ok+=1
        else:
            miss+=1; print(r["seed_id"],"MISSED by",c,"exit",v["exit"], (v.get("harness_error") or "")[-200:].replace("\n"," "))
print(f"caught={ok} missed={miss} invalid={inv}")
