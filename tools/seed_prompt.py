"""Prints the prompt for an independent 'seeded change' sub-agent for one property.
The agent gets ONLY the property text (+ environment facts), never anything from /verif."""
import json, sys
pid, tag = sys.argv[1], sys.argv[2]
p = next(json.loads(l) for l in open('/verif/properties.jsonl') if json.loads(l)['id'] == pid)
wt = f"/tmp/seed_{pid}_{tag}"
print(f"""You are helping to evaluate a verification effort by playing the adversary. You work ONLY inside the scratch git worktree {wt} (a checkout of the Python library rzshrote/pybrops — a plant-breeding simulation library). Do NOT read or write anything under /verif, and do NOT modify /repo (it is the pristine checkout; other people are using it). Write your results under {wt}_out/ .

The property under study (this is all you get):

  Title: {p['title']}
  Statement: {p['statement']}
  Quantified over: {p['quantifier']['text']}
  Code it is anchored in: {', '.join(p['anchors']['files'])}

Your task: produce THREE different, independent, realistic changes to the library source (each a small patch a careless or mistaken maintainer could plausibly commit: an off-by-one, a swapped argument, a wrong comparison, a stale variable, a dropped copy, a cached value, a mis-ordered step, two sites that each look fine alone, ...) such that EACH change, applied alone to the pristine tree:
  (1) BREAKS the property above (for some input/configuration/history the statement no longer holds),
  (2) still imports/compiles, and the existing pinned test suite gives the same result as on the pristine tree: run
      cd {wt} && /venv/bin/python -m pytest -ra -q -p no:cacheprovider --timeout=900 --continue-on-collection-errors 2>&1 | tail -1
      (the pristine tree gives exactly "1 failed, 92 passed, 305 errors" in ~30 s — the errors are numpy-2 import failures of test modules that
      cannot be collected in this environment and are not your concern; your patched tree must still give 92 passed),
  (3) needs something SPECIFIC to manifest — a particular multi-step sequence of operations, an unusual-but-valid input (e.g. a particular size, a tie, a zero, a repeated parent, an absent optional array, a per-cross array argument, a particular class among many), a particular generator state, or two cooperating sites — i.e. NOT something any ordinary single call would expose at once. Prefer three changes in different files/classes/mechanisms from one another. Subtle is better than blatant, but it must be a real violation of the statement, not a matter of taste.

Environment facts you need: use /venv/bin/python (3.12). `import pybrops` fails under the installed numpy 2.x unless removed names are restored first, so every demo program must begin with:

    import sys, numpy
    sys.path.insert(0, "<tree root>")          # the tree under test (take it from sys.argv[1])
    sys.dont_write_bytecode = True
    if not hasattr(numpy, "float_"): numpy.float_ = numpy.float64
    if not hasattr(numpy, "in1d"): numpy.in1d = lambda a, b, **k: numpy.isin(numpy.asarray(a).ravel(), b, **k)
    import warnings; warnings.filterwarnings("ignore")

There is no network. pandas 3, scipy, h5py, pymoo 0.6.2, cyvcf2 are installed.

For each change k in {{1,2,3}} write into {wt}_out/{'{k}'}/ :
  - patch.diff : output of `git -C {wt} diff` for that change alone (make the change, save the diff, then `git -C {wt} checkout -- .` before the next one; never commit)
  - demo.py    : a small self-contained program, run as `/venv/bin/python demo.py <tree root>`, that exits 0 (prints OK) on the pristine tree and exits 1 (prints what went wrong) on the patched tree, deterministically (fix seeds). It demonstrates the property violation at the level of the library's public API.
  - meta.json  : {{"property": "{pid}", "summary": "<one line>", "files": [...], "needs": "<what specific input/sequence/state is needed for it to manifest>", "why_tests_pass": "<one line>"}}
Verify all of it yourself: demo passes on pristine ({wt} after checkout, or /repo), fails on patched; the 92 tests pass on patched. Leave {wt} clean (git checkout -- .) when you finish. Final message: a 5-line summary per change.""")
