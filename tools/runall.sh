#!/bin/bash
# usage: tools/runall.sh quick|thorough [ids...]   logs to scratch/run_<tier>_<id>.log ; summary to stdout
cd /verif
tier=$1; shift
ids="$@"; [ -z "$ids" ] && ids="C01 C02 C03 C04 C05 C06 C07 C08 C09 C10 C11 C12 C13 C14 C15 C16 C17 C18 C19 C20"
for p in $ids; do
  s=$(date +%s)
  VERIF_TIER=$tier /venv/bin/python -m mc.run $p --tier $tier > scratch/run_${tier}_$p.log 2>&1
  rc=$?
  e=$(date +%s)
  echo "$p exit=$rc wall=$((e-s))s known=$(grep -c '^KNOWN-FINDING' scratch/run_${tier}_$p.log) viol=$(grep -c '^VIOLATION' scratch/run_${tier}_$p.log)"
done
