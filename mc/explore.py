"""Stateless exhaustive exploration of environment answers (prefix replay DFS,
optional deviation bound) and explicit-state BFS helpers."""
from __future__ import annotations
from fractions import Fraction
import collections


class ReplayDivergence(Exception):
    """The execution asked for a different menu while replaying a recorded prefix:
    some nondeterminism is not owned by the harness.  Always a hard error."""


class Chooser:
    def __init__(self, prefix=(), expect_ns=()):
        self.prefix = list(prefix)
        self.expect_ns = list(expect_ns)
        self.ns = []
        self.taken = []
        self.tags = []
        self.weight = Fraction(1)

    def choose(self, n, tag=None):
        i = len(self.taken)
        if n <= 0:
            raise ValueError("empty menu")
        if i < len(self.prefix):
            c = self.prefix[i]
            if c >= n or (i < len(self.expect_ns) and self.expect_ns[i] != n):
                raise ReplayDivergence(f"choice point {i}: menu size {n}, recorded {self.expect_ns[i] if i < len(self.expect_ns) else '?'} / choice {c}")
        else:
            c = 0
        self.ns.append(n)
        self.taken.append(c)
        self.tags.append(tag)
        return c

    @property
    def deviations(self):
        return sum(1 for c in self.taken if c)


def explore(run, bound=None, max_exec=None, first_full=0, root_filter=None, yield_root=True):
    """Yield (chooser, result) for every execution of run(chooser).

    bound       max number of non-default answers per execution (None = all)
    first_full  the first `first_full` choice points are exempt from the bound
                (explored fully), later ones count against it
    max_exec    safety cap; if hit, generator sets explore.capped = True
    root_filter only first deviations at choice points i with root_filter(i) are expanded
                (splits one DFS over several worker processes); yield_root=False
                suppresses the all-default execution in all but one of the parts
    """
    stack = [((), ())]
    n_exec = 0
    capped = False
    while stack:
        prefix, ens = stack.pop()
        ch = Chooser(prefix, ens)
        res = run(ch)
        if len(ch.taken) < len(prefix):
            raise ReplayDivergence(f"execution ended after {len(ch.taken)} choice points, prefix has {len(prefix)}")
        n_exec += 1
        if prefix or yield_root:
            yield ch, res
        if max_exec is not None and n_exec >= max_exec:
            capped = bool(stack) or any(n > 1 for n in ch.ns[len(prefix):])
            break
        devs = sum(1 for k, c in enumerate(ch.taken[:len(prefix)]) if c and k >= first_full)
        # push in reverse so that simplest alternatives are explored first
        for i in range(len(ch.taken) - 1, len(prefix) - 1, -1):
            if bound is not None and i >= first_full and devs + 1 > bound:
                continue
            if not prefix and root_filter is not None and not root_filter(i):
                continue
            for alt in range(ch.ns[i] - 1, 0, -1):
                stack.append((tuple(ch.taken[:i]) + (alt,), tuple(ch.ns[:i + 1])))
    explore.capped = capped


explore.capped = False


def bfs(initial, successors, key, max_depth, on_state=None):
    """Generic explicit-state BFS.
    initial     iterable of (history, state)
    successors  fn(history, state) -> iterable of (event, new_state)   (invariants are checked inside)
    key         fn(state) -> hashable canonical digest
    Returns (n_states, n_transitions, max_depth_reached)."""
    seen = set()
    frontier = collections.deque()
    for h, s in initial:
        k = key(s)
        if k not in seen:
            seen.add(k)
            frontier.append((h, s, 0))
            if on_state:
                on_state(h, s)
    ntr = 0
    maxd = 0
    while frontier:
        h, s, d = frontier.popleft()
        maxd = max(maxd, d)
        if d >= max_depth:
            continue
        for ev, ns in successors(h, s):
            ntr += 1
            if ns is None:
                continue
            k = key(ns)
            if k not in seen:
                seen.add(k)
                nh = h + (ev,)
                frontier.append((nh, ns, d + 1))
                if on_state:
                    on_state(nh, ns)
    return len(seen), ntr, maxd
