"""CLI:  python -m mc.run C03 [--tier quick|thorough] [--replay FILE] [--jobs N]

exit 0  property held on everything explored (KNOWN-FINDING lines may be printed)
exit 1  at least one violation not listed in known_findings.json
        (one line `VIOLATION property=<id> replay=<path>` per distinct signature)
exit 2  the harness itself failed (never a verdict about the library)
"""
from __future__ import annotations
import argparse, hashlib, importlib, json, os, sys, time, traceback

os.environ.setdefault("PYTHONHASHSEED", "0")
if os.environ.get("PYTHONHASHSEED") != "0" and not os.environ.get("_MC_REEXEC"):
    os.environ["PYTHONHASHSEED"] = "0"
    os.environ["_MC_REEXEC"] = "1"
    os.execv(sys.executable, [sys.executable, "-m", "mc.run"] + sys.argv[1:])

from . import compat  # noqa: F401  (first: numpy aliases, sys.path -> /repo)
from . import core

import multiprocessing as mp

_MOD = None


def _init(modname):
    global _MOD
    _MOD = importlib.import_module(modname)


def _work(args):
    pid, tier, seed, spec = args
    ctx = core.Ctx(pid, tier, seed)
    t0 = time.time()
    try:
        _MOD.run_shard(spec, ctx)
        err = None
    except Exception:
        err = traceback.format_exc()
    d = ctx.dump()
    d["_err"] = err
    d["_spec"] = repr(spec)[:200]
    d["_wall"] = time.time() - t0
    return d


def main(argv=None):
    ap = argparse.ArgumentParser()
    ap.add_argument("pid")
    ap.add_argument("--tier", default=os.environ.get("VERIF_TIER", "quick"), choices=["quick", "thorough"])
    ap.add_argument("--replay")
    ap.add_argument("--jobs", type=int, default=int(os.environ.get("VERIF_JOBS", "16")))
    ap.add_argument("--shard", type=int, help="debug: run only this shard index, in-process")
    a = ap.parse_args(argv)
    pid = a.pid.upper()
    seed = int(os.environ.get("VERIF_SEED", "0") or 0)
    modname = f"mc.checks.{pid.lower()}"
    mod = importlib.import_module(modname)
    t0 = time.time()

    if a.replay:
        with open(a.replay) as f:
            art = json.load(f)
        ctx = core.Ctx(pid, a.tier, seed)
        mod.replay(art["case"], ctx)
        if ctx.violations:
            for sig, v in sorted(ctx.violations.items()):
                print(f"REPLAY reproduces: property={pid} sig={sig}\n  {v['detail']}")
            return 1
        print(f"REPLAY: property={pid} no violation on this tree for {a.replay}")
        return 0

    specs = list(mod.shards(a.tier, seed))
    ctx = core.Ctx(pid, a.tier, seed)
    errs = []
    walls = []
    if a.shard is not None:
        _init(modname)
        results = [_work((pid, a.tier, seed, specs[a.shard]))]
    elif a.jobs <= 1 or len(specs) <= 1:
        _init(modname)
        results = (_work((pid, a.tier, seed, s)) for s in specs)
    else:
        # ProcessPoolExecutor (not multiprocessing.Pool): a worker that dies (e.g. killed for memory while running a
        # broken library build) raises BrokenProcessPool instead of hanging the run for ever
        import concurrent.futures as cf
        pool = cf.ProcessPoolExecutor(min(a.jobs, len(specs)), mp_context=mp.get_context("fork"),
                                      initializer=_init, initargs=(modname,))
        futs = [pool.submit(_work, (pid, a.tier, seed, s)) for s in specs]

        def _gather():
            for sp, f in zip(specs, futs):
                try:
                    yield f.result()
                except Exception as e:   # BrokenProcessPool and friends
                    c = core.Ctx(pid, a.tier, seed)
                    d = c.dump()
                    d.update(_err=f"worker process failed: {type(e).__name__}: {e}", _spec=repr(sp)[:200], _wall=0.0)
                    yield d
        results = _gather()
    for d in results:
        if d["_err"]:
            errs.append((d["_spec"], d["_err"]))
        walls.append(d["_wall"])
        ctx.merge(d)
    if a.jobs > 1 and len(specs) > 1 and a.shard is None:
        pool.shutdown(wait=False, cancel_futures=True)

    if hasattr(mod, "finalize"):
        try:
            mod.finalize(ctx, a.tier, seed)
        except core.Violation as v:
            ctx.violation(v.sig, v.detail, v.case)
        except AssertionError as e:
            vac = f"vacuity guard failed: {e}\n{traceback.format_exc()}"
            errs.append(("finalize", vac))
        except Exception:
            errs.append(("finalize", traceback.format_exc()))

    # confirm every violation by replaying its artefact twice (determinism) --------
    known = core.load_known()
    os.makedirs(os.path.join(core.VERIF, "replays"), exist_ok=True)
    new, listed = [], []
    for sig in sorted(ctx.violations):
        v = ctx.violations[sig]
        h = hashlib.blake2b(sig.encode(), digest_size=6).hexdigest()
        path = os.path.join(core.VERIF, "replays", f"{pid}-{h}.json")
        art = {"property": pid, "sig": sig, "detail": v["detail"], "case": v["case"], "count": v["count"],
               "how": f"cd /verif && /venv/bin/python -m mc.run {pid} --replay {path}"}
        k = core.match_known(pid, sig, known)
        if hasattr(mod, "replay") and v["case"] is not None and not k:
            obs = []
            for _ in range(2):
                c2 = core.Ctx(pid, a.tier, seed)
                try:
                    mod.replay(v["case"], c2)
                    obs.append(sorted(c2.violations))
                except Exception:
                    obs.append(["<replay raised> " + traceback.format_exc()[-300:]])
            art["replay_observations"] = obs
            if obs[0] != obs[1] or sig not in obs[0]:
                errs.append((sig, f"violation did not reproduce deterministically on replay: {obs}"))
        with open(path, "w") as f:
            json.dump(art, f, indent=1, sort_keys=True, default=str)
        (listed if k else new).append((sig, v, path, k))

    wall = time.time() - t0
    cov = {
        "states": len(ctx.states),
        "transitions": ctx.transitions,
        "traces_validated_against_impl": ctx.traces,
        "evaluations": ctx.evaluations,
        "distinct_nontrivial": len(ctx.nontrivial),
        "distinct_outcomes": len(ctx.outcomes),
        "rule": getattr(mod, "RULE", ""),
        "samples": ctx.samples[: core.Ctx.MAX_SAMPLES],
        "exhaustive": not ctx.capped and not errs,
        "caps_hit": ctx.capped,
        "bounds": ctx.bounds,
        "counters": dict(sorted(ctx.counters.items())),
        "flags": sorted(ctx.flags),
        "shards": len(specs),
        "shard_wall_max_s": round(max(walls), 2) if walls else 0,
        "known_findings_reported": [s for s, *_ in listed],
        "new_violation_signatures": [s for s, *_ in new],
        "technique": getattr(mod, "TECHNIQUE", "bounded exhaustive enumeration on the real code"),
    }
    ev = {
        "property_id": pid, "tier": a.tier, "seed": seed, "level": "model_checking",
        "coverage": cov, "assumptions": list(getattr(mod, "ASSUME", [])),
        "wall_s": round(wall, 2), "violations": len(new),
    }
    os.makedirs(os.path.join(core.VERIF, "evidence"), exist_ok=True)
    evp = os.path.join(core.VERIF, "evidence", f"{pid}.json")
    if os.path.realpath(compat.REPO) != os.path.realpath("/repo"):
        # runs against another checkout (seeded-change experiments) never touch the evidence of /repo
        os.makedirs(os.path.join(core.VERIF, "evidence", "_alt"), exist_ok=True)
        evp = os.path.join(core.VERIF, "evidence", "_alt", f"{pid}.json")
    if a.shard is None:      # a single-shard debugging run never overwrites the evidence of a full run
        tmp = f"{evp}.{os.getpid()}.tmp"
        with open(tmp, "w") as f:
            json.dump(ev, f, indent=1, sort_keys=True, default=str)
        os.replace(tmp, evp)

    print(f"[{pid}] tier={a.tier} seed={seed} shards={len(specs)} states={cov['states']} transitions={cov['transitions']} "
          f"executions={cov['evaluations']} traces={cov['traces_validated_against_impl']} outcomes={cov['distinct_outcomes']} "
          f"nontrivial={cov['distinct_nontrivial']} wall={wall:.1f}s")
    for k_, v_ in sorted(ctx.counters.items()):
        print(f"    {k_} = {v_}")
    for sig, v, path, k in listed:
        print(f"KNOWN-FINDING: property={pid} {k.get('what', sig)} [sig={sig} cases={v['count']}]")
    for sig, v, path, k in new:
        print(f"VIOLATION property={pid} replay={path}")
        print(f"    sig={sig} cases={v['count']}\n    {v['detail'][:600]}")
    if new:
        # a confirmed (twice-replayed) violation is the verdict; a vacuity guard that fails only because the
        # violating cases aborted before setting their coverage flags must not turn it into a harness error
        errs = [(s, e) for s, e in errs if s != "finalize"]
    if errs:
        for s, e in errs:
            print(f"HARNESS-ERROR {pid} shard={s}\n{e}", file=sys.stderr)
        if not new:
            return 2
    return 1 if new else 0


if __name__ == "__main__":
    sys.exit(main())
