"""Small fixtures shared by the checks (provenance-coded matrices etc.)."""
from __future__ import annotations
import numpy
from . import compat  # noqa: F401


def id_coding(seed):
    """A bijection on provenance ids -> int8 allele codes (rotated by VERIF_SEED):
    uses negative codes and arbitrary order so nothing may depend on {0,1,2}."""
    variants = [
        lambda i: i,                       # plain ids 0..
        lambda i: (i * 37 + 11) % 127 - 63,   # scrambled incl. negatives (37 invertible mod 127)
        lambda i: 126 - i - 64,            # descending, negatives
    ]
    return variants[seed % len(variants)]


def prov_pgmat(n, chrom_sizes, xoprob, seed=0, taxa=None, taxa_grp=None, group=True, vperm=None, drop=()):
    """Phased matrix (2,n,m) whose cell value encodes (phase, taxon, marker) uniquely.
    Returns (pgmat, decode) with decode[value] = (phase, taxon, marker)."""
    from pybrops.popgen.gmat.DensePhasedGenotypeMatrix import DensePhasedGenotypeMatrix
    m = sum(chrom_sizes)
    assert 2 * n * m <= 127
    f = id_coding(seed)
    mat = numpy.empty((2, n, m), dtype="int8")
    decode = {}
    for p in range(2):
        for t in range(n):
            for j in range(m):
                v = f((p * n + t) * m + j)
                assert -128 <= v <= 127 and v not in decode
                mat[p, t, j] = v
                decode[int(v)] = (p, t, j)
    chrgrp = numpy.repeat(numpy.arange(1, len(chrom_sizes) + 1), chrom_sizes).astype("int64")
    phypos = numpy.concatenate([numpy.arange(1, c + 1) * 10 for c in chrom_sizes]).astype("int64")
    genpos = numpy.concatenate([numpy.arange(c) * 0.25 for c in chrom_sizes]).astype("float64")
    fields = dict(
        taxa=numpy.array([f"P{t}" for t in range(n)], dtype=object) if taxa is None else taxa,
        taxa_grp=numpy.arange(n, dtype="int64")[::-1].copy() if taxa_grp is None else taxa_grp,
        vrnt_chrgrp=chrgrp,
        vrnt_phypos=phypos,
        vrnt_name=numpy.array([f"m{j}" for j in range(m)], dtype=object),
        vrnt_genpos=genpos,
        vrnt_xoprob=numpy.array(xoprob, dtype="float64"),
        vrnt_hapgrp=numpy.arange(m, dtype="int64"),
        vrnt_mask=numpy.array([j % 2 == 0 for j in range(m)], dtype=bool),
    )
    if vperm is not None:
        # store the variant columns in a non-sorted order (labels move with their data; xoprob stays
        # positional: entry j is the crossover probability in front of stored column j)
        vperm = list(vperm)
        mat = numpy.ascontiguousarray(mat[:, :, vperm])
        decode = {int(mat[p, t, j]): (p, t, j) for p in range(2) for t in range(n) for j in range(m)}
        for k in ("vrnt_chrgrp", "vrnt_phypos", "vrnt_name", "vrnt_genpos", "vrnt_hapgrp", "vrnt_mask"):
            fields[k] = fields[k][vperm].copy()
    for k in drop:
        fields[k] = None
    pg = DensePhasedGenotypeMatrix(mat=mat, **fields)
    if group:
        pg.group_vrnt()
        decode = {int(pg.mat[p, t, j]): (p, t, j) for p in range(2) for t in range(n) for j in range(m)}
    return pg, decode


LABEL_FIELDS_TAXA = ("taxa", "taxa_grp")
LABEL_FIELDS_VRNT = ("vrnt_chrgrp", "vrnt_phypos", "vrnt_name", "vrnt_genpos", "vrnt_xoprob",
                     "vrnt_hapgrp", "vrnt_hapalt", "vrnt_hapref", "vrnt_mask")
GROUP_FIELDS_TAXA = ("taxa_grp_name", "taxa_grp_stix", "taxa_grp_spix", "taxa_grp_len")
GROUP_FIELDS_VRNT = ("vrnt_chrgrp_name", "vrnt_chrgrp_stix", "vrnt_chrgrp_spix", "vrnt_chrgrp_len")


def snapshot(obj, fields=None):
    """Observable state of a labelled matrix as a dict of copies."""
    out = {}
    names = fields or (("mat",) + LABEL_FIELDS_TAXA + LABEL_FIELDS_VRNT + GROUP_FIELDS_TAXA
                       + GROUP_FIELDS_VRNT + ("trait",))
    for f in names:
        if hasattr(obj, f):
            try:
                v = getattr(obj, f)
            except Exception as e:  # property that raises
                v = f"<raises {type(e).__name__}>"
            out[f] = None if v is None else (v.copy() if isinstance(v, numpy.ndarray) else v)
    return out


def snap_equal(a, b):
    from .core import same
    if a.keys() != b.keys():
        return False, "fields"
    for k in a:
        x, y = a[k], b[k]
        if isinstance(x, numpy.ndarray) or isinstance(y, numpy.ndarray):
            if not same(x, y) or (x is not None and y is not None and numpy.asarray(x).dtype != numpy.asarray(y).dtype):
                return False, k
        elif x != y:
            return False, k
    return True, None


def partition_ok(labels, name, stix, spix, ln):
    """True iff (name, stix, spix, len) describe the contiguous runs of `labels`."""
    labels = list(numpy.asarray(labels).tolist())
    runs = []
    for i, v in enumerate(labels):
        if not runs or runs[-1][0] != v:
            runs.append([v, i, i + 1])
        else:
            runs[-1][2] = i + 1
    if len({r[0] for r in runs}) != len(runs):
        return False  # same label in two runs: not grouped
    try:
        return (list(numpy.asarray(name).tolist()) == [r[0] for r in runs]
                and list(numpy.asarray(stix).tolist()) == [r[1] for r in runs]
                and list(numpy.asarray(spix).tolist()) == [r[2] for r in runs]
                and list(numpy.asarray(ln).tolist()) == [r[2] - r[1] for r in runs])
    except Exception:
        return False
