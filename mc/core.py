"""Shared bookkeeping for all checks: counters, canonical hashing, violation
records, known-finding matching, evidence writing, 16-way sharding.

A check module (mc/checks/cNN.py) defines

    ID        = "C01"
    RULE      = "..."            how cases are enumerated / what is non-trivial
    ASSUME    = ["...", ...]
    def shards(tier, seed) -> list          picklable shard specs
    def run_shard(spec, ctx) -> None         does the exploration, records in ctx
    def finalize(ctx, tier, seed) -> None    optional: vacuity guards on merged ctx
    def replay(artefact, ctx) -> None        re-runs one recorded case

Everything a shard records goes through `Ctx`; `Ctx.merge` is associative so the
parent can fold shard results in any order (results are sorted before use so the
output does not depend on scheduling).
"""
from __future__ import annotations
import hashlib, json, os, sys, time, traceback, re, math
from fractions import Fraction

import numpy

VERIF = os.path.dirname(os.path.dirname(os.path.abspath(__file__)))


# ----------------------------------------------------------------------------
# canonical forms
def canon(x):
    """Canonical, hashable, NaN-safe form of nested python / numpy data."""
    if x is None or isinstance(x, (bool, int, str, bytes)):
        return x
    if isinstance(x, float):
        return ("f", x.hex()) if not math.isnan(x) else ("f", "nan")
    if isinstance(x, Fraction):
        return ("Q", x.numerator, x.denominator)
    if isinstance(x, numpy.ndarray):
        if x.dtype == object:
            return ("ao", x.shape, tuple(canon(v) for v in x.ravel().tolist()))
        a = numpy.ascontiguousarray(x)
        if a.dtype.kind == "f":
            a = a.copy()
            a[numpy.isnan(a)] = numpy.nan  # one NaN payload
            a = a + 0.0                    # -0.0 and +0.0 are one state
        return ("a", a.dtype.str, a.shape, a.tobytes())
    if isinstance(x, numpy.generic):
        return canon(x.item())
    if isinstance(x, (list, tuple)):
        return tuple(canon(v) for v in x)
    if isinstance(x, dict):
        return tuple(sorted((str(k), canon(v)) for k, v in x.items()))
    if isinstance(x, (set, frozenset)):
        return tuple(sorted(canon(v) for v in x))
    return ("r", repr(x))


def digest(x) -> bytes:
    return hashlib.blake2b(repr(canon(x)).encode("utf8", "surrogatepass"), digest_size=8).digest()


def jsonable(x, depth=0):
    """Best-effort conversion for samples / replay artefacts."""
    if x is None or isinstance(x, (bool, int, str)):
        return x
    if isinstance(x, float):
        return x if math.isfinite(x) else repr(x)
    if isinstance(x, Fraction):
        return str(x)
    if isinstance(x, bytes):
        return x.hex()
    if isinstance(x, numpy.ndarray):
        return jsonable(x.tolist(), depth + 1)
    if isinstance(x, numpy.generic):
        return jsonable(x.item(), depth + 1)
    if isinstance(x, (list, tuple, set, frozenset)):
        return [jsonable(v, depth + 1) for v in x]
    if isinstance(x, dict):
        return {str(k): jsonable(v, depth + 1) for k, v in x.items()}
    return repr(x)


# ----------------------------------------------------------------------------
class Violation(Exception):
    """Raised by oracles; carries a signature (stable, specific: class / call
    site / failure kind — used for known-finding matching and de-duplication)."""

    def __init__(self, sig, detail, case=None):
        super().__init__(f"{sig}: {detail}")
        self.sig, self.detail, self.case = sig, detail, case


class Ctx:
    MAX_SAMPLES = 6
    MAX_PER_SIG = 1

    def __init__(self, pid, tier, seed):
        self.pid, self.tier, self.seed = pid, tier, seed
        self.evaluations = 0            # executions / cases
        self.transitions = 0            # real operation applications
        self.traces = 0                 # complete reference-model behaviours replayed on impl
        self.states = set()             # digests of canonical states / configurations
        self.outcomes = set()           # digests of observed outcomes
        self.nontrivial = set()         # digests of distinct non-trivial cases
        self.violations = {}            # sig -> dict(detail, case, count)
        self.samples = []
        self.counters = {}              # free-form named counters (summed on merge)
        self.flags = set()              # free-form coverage flags (union on merge)
        self.capped = []                # descriptions of caps that were hit
        self.bounds = {}

    # -- recording -----------------------------------------------------------
    def count(self, name, n=1):
        self.counters[name] = self.counters.get(name, 0) + n

    def flag(self, name):
        self.flags.add(name)

    def state(self, x):
        d = x if isinstance(x, bytes) else digest(x)
        self.states.add(d)
        return d

    def outcome(self, x):
        self.outcomes.add(x if isinstance(x, bytes) else digest(x))

    def nontriv(self, x):
        self.nontrivial.add(x if isinstance(x, bytes) else digest(x))

    def sample(self, s):
        if len(self.samples) < self.MAX_SAMPLES:
            self.samples.append(jsonable(s))

    def violation(self, sig, detail, case=None):
        v = self.violations.get(sig)
        if v is None:
            self.violations[sig] = {"sig": sig, "detail": str(detail)[:2000],
                                    "case": jsonable(case), "count": 1}
        else:
            v["count"] += 1

    def guard(self, fn, case=None, sig_prefix=""):
        """Run an oracle callable; convert Violation / unexpected exceptions."""
        try:
            fn()
            return True
        except Violation as v:
            self.violation(v.sig, v.detail, v.case if v.case is not None else case)
        except Exception as e:  # library exception on a model-valid case
            tb = traceback.extract_tb(e.__traceback__)
            site = next((f"{os.path.basename(f.filename)}:{f.name}" for f in reversed(tb)
                         if "/pybrops/" in f.filename), "harness")
            self.violation(f"{sig_prefix}exception:{type(e).__name__}@{site}",
                           f"{type(e).__name__}: {e}", case)
        return False

    # -- merging -------------------------------------------------------------
    def dump(self):
        return dict(evaluations=self.evaluations, transitions=self.transitions, traces=self.traces,
                    states=self.states, outcomes=self.outcomes, nontrivial=self.nontrivial,
                    violations=self.violations, samples=self.samples, counters=self.counters,
                    flags=self.flags, capped=self.capped, bounds=self.bounds)

    def merge(self, d):
        self.evaluations += d["evaluations"]
        self.transitions += d["transitions"]
        self.traces += d["traces"]
        self.states |= d["states"]
        self.outcomes |= d["outcomes"]
        self.nontrivial |= d["nontrivial"]
        for sig, v in d["violations"].items():
            if sig in self.violations:
                self.violations[sig]["count"] += v["count"]
                # keep the lexicographically smallest case for determinism
                if json.dumps(v["case"], sort_keys=True, default=str) < json.dumps(self.violations[sig]["case"], sort_keys=True, default=str):
                    self.violations[sig].update(detail=v["detail"], case=v["case"])
            else:
                self.violations[sig] = dict(v)
        for s in d["samples"]:
            if len(self.samples) < self.MAX_SAMPLES:
                self.samples.append(s)
        for k, n in d["counters"].items():
            self.counters[k] = self.counters.get(k, 0) + n
        self.flags |= d["flags"]
        self.capped += d["capped"]
        self.bounds.update(d["bounds"])


# ----------------------------------------------------------------------------
def close(a, b, rel=1e-9, abs_=1e-12):
    """NaN-aware closeness of scalars/arrays (NaN matches NaN, inf matches same inf)."""
    a = numpy.asarray(a, dtype=float)
    b = numpy.asarray(b, dtype=float)
    if a.shape != b.shape:
        return False
    return bool(numpy.all(numpy.isclose(a, b, rtol=rel, atol=abs_, equal_nan=True)))


def same(a, b):
    """Exact observable equality of two arrays / None (dtype kind, shape, bytes; NaN==NaN)."""
    if a is None or b is None:
        return a is None and b is None
    a = numpy.asarray(a)
    b = numpy.asarray(b)
    if a.shape != b.shape:
        return False
    if a.dtype == object or b.dtype == object:
        return a.tolist() == b.tolist()
    return bool(numpy.array_equal(a, b, equal_nan=(a.dtype.kind in "fc" and b.dtype.kind in "fc")))


def require(cond, sig, detail="", case=None):
    if not cond:
        raise Violation(sig, detail() if callable(detail) else detail, case)


# ----------------------------------------------------------------------------
def load_known():
    """known_findings.json plus per-property fragments known_findings.d/*.json (all committed,
    never written at run time)."""
    out = []
    paths = [os.path.join(VERIF, "known_findings.json")]
    d = os.path.join(VERIF, "known_findings.d")
    if os.path.isdir(d):
        paths += [os.path.join(d, f) for f in sorted(os.listdir(d)) if f.endswith(".json")]
    for p in paths:
        if os.path.exists(p):
            with open(p) as f:
                out += json.load(f).get("findings", [])
    return out


def match_known(pid, sig, known):
    for k in known:
        if k.get("property") != pid or k.get("status") != "known":
            continue
        if k.get("sig") == sig or ("sig_re" in k and re.fullmatch(k["sig_re"], sig)):
            return k
    return None
