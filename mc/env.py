"""The random generator as an *environment whose every answer is enumerated*.

`ScriptedGenerator` subclasses numpy.random.Generator (so the library's
isinstance checks accept it) but none of its draws come from a bit stream: each
draw is delegated to a *handler* that turns it into one or more choice points
of a `Chooser` (mc.explore).  A draw no handler covers raises UnscriptedDraw —
hidden randomness is a hard error, never silently sampled.
"""
from __future__ import annotations
from fractions import Fraction
import itertools
import math
import numpy

TWO53 = 2 ** 53


class UnscriptedDraw(Exception):
    pass


class ScriptedGenerator(numpy.random.Generator):
    """Handler protocol: handler.<method>(gen, *args, **kw) -> value."""

    def __new__(cls, *a, **k):
        return super().__new__(cls, numpy.random.PCG64(0))

    def __init__(self, handler):
        # (Generator.__init__ is Cython; already initialised via __new__ args on numpy>=1.17)
        try:
            super().__init__(numpy.random.PCG64(0))
        except Exception:
            pass
        self.handler = handler
        self.calls = []

    def _do(self, name, *a, **k):
        fn = getattr(self.handler, name, None)
        if fn is None:
            raise UnscriptedDraw(f"{name}{a}{k}")
        out = fn(self, *a, **k)
        self.calls.append((name, a, k))
        return out

    def uniform(self, low=0.0, high=1.0, size=None):
        return self._do("uniform", low, high, size)

    def random(self, size=None, dtype=numpy.float64, out=None):
        return self._do("random", size)

    def choice(self, a, size=None, replace=True, p=None, axis=0, shuffle=True):
        return self._do("choice", a, size, replace, p)

    def shuffle(self, x, axis=0):
        return self._do("shuffle", x)

    def permutation(self, x, axis=0):
        return self._do("permutation", x)

    def normal(self, loc=0.0, scale=1.0, size=None):
        return self._do("normal", loc, scale, size)

    def standard_normal(self, size=None, dtype=numpy.float64, out=None):
        return self._do("normal", 0.0, 1.0, size)

    def multivariate_normal(self, mean, cov, size=None, check_valid="warn", tol=1e-8, *, method="svd"):
        return self._do("multivariate_normal", mean, cov, size)

    def integers(self, low, high=None, size=None, dtype=numpy.int64, endpoint=False):
        return self._do("integers", low, high, size, endpoint)

    def binomial(self, n, p, size=None):
        return self._do("binomial", n, p, size)

    def __getattribute__(self, name):
        # any other *drawing* method of Generator must not fall through to PCG64(0)
        if name in _FORBIDDEN:
            raise UnscriptedDraw(name)
        return object.__getattribute__(self, name)


_FORBIDDEN = frozenset(
    n for n in dir(numpy.random.Generator)
    if not n.startswith("_") and n not in {
        "uniform", "random", "choice", "shuffle", "permutation", "normal", "standard_normal",
        "multivariate_normal", "integers", "binomial", "bit_generator", "spawn"})


class ScriptedRandomState(numpy.random.RandomState):
    """Same idea for code that insists on / defaults to a RandomState."""

    def __init__(self, handler):
        super().__init__(0)
        self.handler = handler
        self.calls = []

    _do = ScriptedGenerator._do

    def uniform(self, low=0.0, high=1.0, size=None):
        return self._do("uniform", low, high, size)

    def random(self, size=None):
        return self._do("random", size)
    random_sample = random

    def rand(self, *shape):
        return self._do("random", shape if shape else None)

    def choice(self, a, size=None, replace=True, p=None):
        return self._do("choice", a, size, replace, p)

    def shuffle(self, x):
        return self._do("shuffle", x)

    def permutation(self, x):
        return self._do("permutation", x)

    def normal(self, loc=0.0, scale=1.0, size=None):
        return self._do("normal", loc, scale, size)

    def multivariate_normal(self, mean, cov, size=None, check_valid="warn", tol=1e-8):
        return self._do("multivariate_normal", mean, cov, size)

    def randint(self, low, high=None, size=None, dtype=int):
        return self._do("integers", low, high, size, False)


# ----------------------------------------------------------------------------
# building blocks for handlers (each consumes choice points of `ch`)

def choose_permutation(ch, n, tag="perm"):
    """All n! permutations via the factorial number system; choice 0 everywhere =
    identity, so a deviation bound counts displaced picks."""
    pool = list(range(n))
    out = []
    for i in range(n - 1):
        c = ch.choose(len(pool), tag=tag)
        out.append(pool.pop(c))
    out.extend(pool)
    return out


def choose_subset_ordered(ch, n, k, tag="choice"):
    """All ordered k-samples without replacement from range(n)."""
    pool = list(range(n))
    out = []
    for i in range(k):
        c = ch.choose(len(pool), tag=tag) if len(pool) > 1 else 0
        out.append(pool.pop(c))
    return out


def choose_with_replacement(ch, n, k, tag="choice_r"):
    return [ch.choose(n, tag=tag) if n > 1 else 0 for _ in range(k)]


def shape_of(size):
    if size is None:
        return ()
    if isinstance(size, (int, numpy.integer)):
        return (int(size),)
    return tuple(int(s) for s in size)


def threshold_menu(p):
    """Answers to `uniform(0,1) < p` worth distinguishing, default (index 0) first:
    returns list of (value, weight:Fraction, crossover?:bool).  Values are reachable
    outputs of numpy's uniform(0,1) (multiples of 2^-53 in [0,1)); weights are the
    continuous-uniform probabilities of the classes (boundary class has measure 0)."""
    p = float(p)
    P = Fraction(p)
    menu = []
    if p <= 0.0:
        # never a crossover; boundary value 0.0 == p must not cross (strict <)
        menu.append((0.75, Fraction(1), False))
        menu.append((0.0, Fraction(0), False))
    elif p >= 1.0:
        # always a crossover, also for the largest reachable value
        menu.append((0.25, Fraction(1), True))
        menu.append(((TWO53 - 1) / TWO53, Fraction(0), True))
        menu.append((0.0, Fraction(0), True))
    else:
        # snap to the grid of values numpy's uniform(0,1) can return (multiples of 2^-53)
        above = math.ceil((1.0 + p) / 2.0 * TWO53) / TWO53
        below = math.floor(p / 2.0 * TWO53) / TWO53
        assert below < p <= above < 1.0
        menu.append((above, 1 - P, False))
        menu.append((below, P, True))
        if Fraction(p) * TWO53 == int(Fraction(p) * TWO53):  # p itself is reachable
            menu.append((p, Fraction(0), False))
        menu.append((0.0, Fraction(0), True))
    return menu


def sharp_class_menu(p):
    """The positive-weight classes of `uniform(0,1) < p` only, each represented by the reachable value *nearest the
    threshold* on its side (largest grid value < p; smallest grid value >= p).  Same classes and weights as
    threshold_menu's positive-weight entries, but any shift of the threshold used by the code (a cap, a floor, a
    rounded or stale probability) puts one of the two representatives on the wrong side."""
    p = float(p)
    P = Fraction(p)
    if p <= 0.0:
        return [(0.0, Fraction(1), False)]
    if p >= 1.0:
        return [((TWO53 - 1) / TWO53, Fraction(1), True)]
    k = Fraction(p) * TWO53
    lo = (math.ceil(k) - 1) / TWO53          # largest multiple of 2^-53 strictly below p
    hi = math.ceil(k) / TWO53                # smallest multiple of 2^-53 at or above p
    assert 0.0 <= lo < p <= hi < 1.0 or (hi == 1.0)
    if hi >= 1.0:
        hi = (TWO53 - 1) / TWO53
        assert not (hi < p)
    return [(hi, 1 - P, False), (lo, P, True)]


class Handler:
    """Base: holds the chooser."""

    def __init__(self, ch):
        self.ch = ch


class MeiosisHandler(Handler):
    """uniform(0,1,(g,m)) compared column-wise against thresholds (vrnt_xoprob).
    mode 'full': every cell gets the whole threshold_menu.
    mode 'classes': only classes with positive weight (for exact distributions)."""

    def __init__(self, ch, thresholds, mode="full"):
        super().__init__(ch)
        self.thr = [float(t) for t in thresholds]
        self.menus = [threshold_menu(t) for t in self.thr]
        if mode == "classes":
            self.menus = [sharp_class_menu(t) for t in self.thr]
        self.draws = []   # per call: (shape, values, crossover flags)

    def uniform(self, gen, low, high, size):
        shp = shape_of(size)
        if not (low == 0 and high == 1 and len(shp) == 2 and shp[1] == len(self.thr)):
            raise UnscriptedDraw(f"uniform({low},{high},{size}) is not a meiosis draw for {len(self.thr)} markers")
        out = numpy.empty(shp, dtype=float)
        xo = numpy.zeros(shp, dtype=bool)
        for i in range(shp[0]):
            for j in range(shp[1]):
                m = self.menus[j]
                c = self.ch.choose(len(m), tag="xo") if len(m) > 1 else 0
                v, w, x = m[c]
                self.ch.weight *= w
                out[i, j] = v
                xo[i, j] = x
        self.draws.append((shp, out.copy(), xo))
        return out
