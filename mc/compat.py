"""Trusted base: make ``import pybrops`` work from /repo's *working tree* under the
installed numpy 2.x (restores removed *names* only), and pin the process
environment so that runs are deterministic.  Import this before pybrops."""
import os, sys, warnings

REPO = os.environ.get("VERIF_REPO", "/repo")
if REPO in sys.path:
    sys.path.remove(REPO)
sys.path.insert(0, REPO)
sys.dont_write_bytecode = True
os.environ.setdefault("PYTHONDONTWRITEBYTECODE", "1")
for _v in ("OMP_NUM_THREADS", "OPENBLAS_NUM_THREADS", "MKL_NUM_THREADS"):
    os.environ.setdefault(_v, "1")
# guard for any verification hooks in /repo (none are needed at present)
os.environ.setdefault("PYBROPS_VERIF", "1")

import numpy

if not hasattr(numpy, "float_"):
    numpy.float_ = numpy.float64
if not hasattr(numpy, "in1d"):
    def _in1d(ar1, ar2, assume_unique=False, invert=False):
        return numpy.isin(numpy.asarray(ar1).ravel(), ar2,
                          assume_unique=assume_unique, invert=invert)
    numpy.in1d = _in1d
for _n, _v in (("int_", "int64"), ("bool8", "bool_"), ("object0", "object_"),
               ("product", "prod"), ("cumproduct", "cumprod"), ("alltrue", "all"),
               ("sometrue", "any"), ("row_stack", "vstack"), ("trapz", "trapezoid")):
    if not hasattr(numpy, _n) and hasattr(numpy, _v):
        setattr(numpy, _n, getattr(numpy, _v))

warnings.filterwarnings("ignore")
numpy.seterr(all="ignore")

import pybrops  # noqa: E402  (must resolve to REPO)
assert os.path.realpath(os.path.dirname(pybrops.__file__)).startswith(os.path.realpath(REPO)), pybrops.__file__
