"""C14 — phenotyping and breeding-value estimation preserve truth and alignment.

Bounded exhaustive enumeration of trial configurations x tagged generator answers on the
real G_E_Phenotyping / TruePhenotyping / MeanPhenotypicBreedingValue / TrueBreedingValue
against the list-and-loop reference model in mc/ref/pheno.py.

Layers
  P1  G_E_Phenotyping.phenotype: population x model x (nenv, nrep) x variance vector x tag variant
      (P1 cases with calls=2 are 2-step histories on one protocol object)
  P2  the same trials with every variance 0 on *real* numpy generators (Generator, RandomState,
      the library's global stream) + TruePhenotyping
  P3  set_h2 / set_H2 for every population x model x target, followed by a tagged trial
  B1  MeanPhenotypicBreedingValue.estimate on hand-built tables: row permutations x genotype
      taxon lists (permutations, subsets, unphenotyped taxa) x column variants
  B2  phenotype() -> estimate() pipeline with permuted genotype taxa; TrueBreedingValue
  H   histories on ONE protocol object (G_E_Phenotyping and TruePhenotyping): phenotype(pgmat); then state changes
      (model replaced through the setter / edited in place, genotype matrix relabelled / edited in place, variances,
      nenv, nrep, rng changed through setters); phenotype(pgmat) again with the very same objects -> must be the
      trial of the CURRENT data
  B1/B2 tables carry every kind of row index (RangeIndex, permuted original labels, filtered subset, string labels,
      duplicated labels): the estimate may depend on row content only
"""
from __future__ import annotations
import itertools
import math
import numpy

from .. import compat  # noqa: F401
import pandas
from ..core import Violation, require, digest, close, same
from ..env import ScriptedGenerator, ScriptedRandomState
from ..ref import pheno as R

ID = "C14"
TECHNIQUE = ("stateless exhaustive enumeration of trial configurations x tagged generator answers "
             "(every normal draw a distinct power of two, so each table cell decomposes into truth + its draws) "
             "and of phenotype tables x all row orders x genotype taxon lists, against a list-and-loop reference model")
RULE = ("one execution = one call sequence on the real code: (population n<=4 with label variant, genomic model, nenv, nrep "
        "scalar/array, per-trait variances over {0,1,4}^3t, argument forms, generator class, tag variant) -> phenotype(); "
        "(population, model, h2|H2, target) -> set_h2/H2 + phenotype(); (count pattern, row order, genotype taxon list, "
        "group-column variant, trait-column variant, value alphabet, ROW-INDEX variant: RangeIndex / permuted labels / filtered "
        "subset / string / duplicated labels) -> estimate(); (protocol class, population, model, layout, variances, 1-2 state "
        "changes of model / genotype matrix / protocol between two calls) -> phenotype(); ops; phenotype() on the same objects.  "
        "State = configuration without the "
        "tag variant / row order; outcome = digest of the returned table / matrix; non-trivial = a trial with at least one "
        "positive variance and >1 record, or an estimate whose genotype order differs from the group-by order or contains an "
        "unphenotyped taxon, or a non-identity row order")
ASSUME = [
    "numpy's multivariate_normal/normal draw from the distribution named by their arguments: the check decides the "
    "convergence clause by verifying that every draw is requested with mean 0 and exactly the requested (diagonal) "
    "variance of its role and enters the table once with coefficient 1; the sampler itself is trusted base",
    "scripted answers are reachable: N(m, v>0) may return any finite value (here m +- 2^e), N(m, 0) returns m",
    "genetic variance in set_h2/set_H2 is the population variance (divisor n) of the breeding / genotypic values of the "
    "population handed in, per trait (the library's documented var_A / var_G); populations with zero genetic variance are "
    "outside the clause (ratio 0/0) and are skipped and counted",
    "taxa names are unique and a taxon has one group id; table cells are finite floats",
    "table columns are named as the library names them (taxa, taxa_grp, env, rep, trait names of the model); "
    "env / rep labels are only required to sort in environment / replicate order",
    "mc/compat.py restores removed numpy names only; pandas 3.0 string-dtype inference is in force",
]

PT = "G_E_Phenotyping.phenotype:"
BV = "MeanPhenotypicBreedingValue.estimate:"
TAGVARS = (("asc", 1, 1), ("desc", -1, -1), ("asc", 1, -1))


# ----------------------------------------------------------------------------
# shards
def shards(tier, seed):
    T = tier == "thorough"
    out = []
    for n in (1, 2, 3, 4):
        for lv in R.LABVARS:
            for mi, (kind, t, named) in enumerate(R.MODELS):
                if t == 1:
                    out.append(("P1", n, lv, mi, None))
                elif T:
                    for nenv in (1, 2, 3):
                        out.append(("P1", n, lv, mi, nenv))
                else:
                    out.append(("P1", n, lv, mi, None))
    for n in (1, 2, 3, 4):
        out.append(("P2", n))
    for n in (1, 2, 3, 4):
        for method in ("h2", "H2"):
            out.append(("P3", n, method))
    for n in (1, 2, 3, 4):
        for proto in ("GE", "TP"):
            if T and proto == "GE":
                for lv in R.LABVARS:
                    out.append(("H", n, proto, lv))
            else:
                out.append(("H", n, proto, None))
    pats = R.count_patterns(6)
    for ci, c in enumerate(pats):
        Rw = sum(c)
        if Rw == 6:
            for part in range(6 if T else 2):
                out.append(("B1", c, part, 6 if T else 2))
        elif Rw == 5:
            for part in range(3 if T else 1):
                out.append(("B1", c, part, 3 if T else 1))
        else:
            out.append(("B1", c, 0, 1))
    for c in ((2, 2, 2, 1), (2, 2, 2, 2), (3, 3, 1), (1, 1, 1, 1)):
        out.append(("B1", c, 0, 1))
    for n in (1, 2, 3, 4):
        for lv in ("uns-grpdup", "uns-grpuniq", "uns-nogrp", "sorted-grpdup"):
            if T and n >= 3:
                for mi in range(4):
                    out.append(("B2", n, lv, mi))
            else:
                out.append(("B2", n, lv, None))
    return out


def _bounds(ctx):
    ctx.bounds.update({
        "n_taxa_max": 4, "n_markers": R.NMARK, "ploidy": "2 everywhere; 1, 2, 4 in the zero-noise, heritability and TruePhenotyping layers",
        "protocol_copies": list(R.COPY_VARIANTS), "traits": [1, 2], "nenv": [1, 2, 3], "nrep_max_per_env": 3,
        "variance_levels": list(R.VAR_LEVELS), "heritability_targets": [0.2, 0.5, 1.0],
        "table_rows_all_orders_max": 6, "table_rows_max": 8, "genotype_taxa_max": 5,
        "table_row_index_variants": list(R.INDEX_VARIANTS),
        "history_ops": list(R.OPS_COMMON) + list(R.OPS_GE), "history_ops_between_calls_max": 2,
        "models": ["additive (AL)", "additive+dominance (ADL)"],
        "t2_variance_vectors": "all 729 per structural configuration (thorough) / 27 per configuration, rotating so that "
                               "all 729 occur across configurations (quick)",
    })


def run_shard(spec, ctx):
    _bounds(ctx)
    layer = spec[0]
    if layer == "P1":
        _shard_p1(ctx, *spec[1:])
    elif layer == "P2":
        _shard_p2(ctx, spec[1])
    elif layer == "P3":
        _shard_p3(ctx, spec[1], spec[2])
    elif layer == "B1":
        _shard_b1(ctx, spec[1], spec[2], spec[3])
    elif layer == "B2":
        _shard_b2(ctx, spec[1], spec[2], spec[3])
    elif layer == "H":
        _shard_h(ctx, spec[1], spec[2], spec[3])


# ----------------------------------------------------------------------------
# P1 / P2 / P3: trials
def _shard_p1(ctx, n, lv, mi, nenv_only):
    T = ctx.tier == "thorough"
    kind, t, named = R.MODELS[mi]
    combos = list(itertools.product(R.VAR_LEVELS, repeat=3 * t))
    sidx = (n * 7 + R.LABVARS.index(lv) * 3 + mi) % 27
    idx = 0
    for nenv in ((1, 2, 3) if nenv_only is None else (nenv_only,)):
        for ei, (nrep, nrep_list) in enumerate(R.envrep_menu(nenv, T)):
            D = R.ndraws(n, nrep_list)
            for ci, combo in enumerate(combos):
                if t == 2 and not T and (ci + sidx + ei * 5 + nenv * 11) % 27 != 0:
                    continue
                var = [list(combo[0:t]), list(combo[t:2 * t]), list(combo[2 * t:3 * t])]
                if t == 1 and T:
                    tvs = (0, 1, 2)
                else:
                    tvs = ((ci + ei) % 3,)
                for tv in tvs:
                    idx += 1
                    two = (D <= 20 and idx % (5 if T else 9) == 0 and any(x > 0 for x in combo))
                    case = dict(layer="P1", n=n, labvar=lv, model=[kind, t, named], nenv=nenv, nrep=nrep, var=var,
                                form=idx % 4, tag=tv, rng="rs" if idx % 3 == 0 else "gen", calls=2 if two else 1,
                                seed=ctx.seed)
                    run_trial(ctx, case)
                    # the same trial on each kind of protocol copy, for layouts whose nrep differs from nenv
                    if any(r != nenv for r in nrep_list) and (ci + ei + nenv) % (3 if T else 9) == 0:
                        for how in (R.COPY_VARIANTS if (T or t == 1) else (R.COPY_VARIANTS[idx % 4], R.COPY_VARIANTS[(idx + 1) % 4])):
                            run_trial(ctx, dict(case, copy=how))


def _shard_p2(ctx, n):
    T = ctx.tier == "thorough"
    idx = 0
    for lv in R.LABVARS:
        for mi, (kind, t, named) in enumerate(R.MODELS):
            for nenv in (1, 2, 3):
                for nrep, nrep_list in R.envrep_menu(nenv, T):
                    for rng in ("np-gen", "np-rs", "global"):
                        for form in ((0, 1, 2, 3) if T else (idx % 4,)):
                            idx += 1
                            case = dict(layer="P2", n=n, labvar=lv, model=[kind, t, named], nenv=nenv, nrep=nrep,
                                        var=[[0.0] * t] * 3, form=form, tag=0, rng=rng, calls=1, ploidy=(2, 1, 4)[idx % 3],
                                        seed=ctx.seed)
                            run_trial(ctx, case)
            for ploidy in (2, 1, 4):
                case = dict(layer="TP", n=n, labvar=lv, model=[kind, t, named], ploidy=ploidy, seed=ctx.seed)
                run_truepheno(ctx, case)
                for how in R.COPY_VARIANTS:
                    run_truepheno(ctx, dict(case, copy=how))


def _targets(t, seed):
    extra = [0.35, 0.9, 0.0625][seed % 3]
    sc = [0.2, 0.5, 1.0, 1, extra]
    if t == 1:
        return sc + [[0.2], [1.0]]
    return sc + [[a, b] for a in (0.2, 0.5, 1.0) for b in (0.2, 0.5, 1.0)]


def _shard_p3(ctx, n, method):
    T = ctx.tier == "thorough"
    idx = 0
    for lv in R.LABVARS:
      for ploidy in (2, 1, 4):
        for mi, (kind, t, named) in enumerate(R.MODELS):
            for target in _targets(t, ctx.seed):
                if ploidy != 2 and not T and target not in (0.2, 0.5, 1.0, [0.2, 0.5], [0.2], [1.0, 0.2]):
                    continue
                for prior in ((None, 4.0) if (T and ploidy == 2) else (None,)):
                    lay = [(2, [1, 2]), (1, 2), (3, [2, 1, 1]), (2, 1)]
                    vmenu = [(1.0, 4.0), (0.0, 0.0), (4.0, 0.0), (0.0, 1.0)]
                    for k in (range(4) if T else (idx % 4,)):
                        idx += 1
                        nenv, nrep = lay[k]
                        ve, vr = vmenu[(k + idx) % 4]
                        case = dict(layer="P3", n=n, labvar=lv, model=[kind, t, named], method=method, target=target,
                                    prior=prior, nenv=nenv, nrep=nrep, var=[[ve] * t, [vr] * t, None], form=idx % 4,
                                    tag=idx % 3, rng="gen" if idx % 2 else "rs", calls=1, ploidy=ploidy, seed=ctx.seed)
                        run_trial(ctx, case)
                        if idx % 7 == 0:      # heritability set on the original, trial run on a copy
                            run_trial(ctx, dict(case, copy=R.COPY_VARIANTS[(idx // 7) % 4]))


def _mk_rng(kind, handler, seed):
    if kind == "gen":
        return ScriptedGenerator(handler)
    if kind == "rs":
        return ScriptedRandomState(handler)
    if kind == "np-gen":
        return numpy.random.default_rng(1234 + seed)
    if kind == "np-rs":
        return numpy.random.RandomState(4321 + seed)
    return None       # the library's default: numpy's global stream


def run_trial(ctx, case):
    """One trial configuration (+ optional heritability step, + optional second call)."""
    from pybrops.breed.prot.pt.G_E_Phenotyping import G_E_Phenotyping
    seed = case["seed"]
    kind, t, named = case["model"]
    pop = R.Pop(case["n"], case["labvar"], seed, case.get("ploidy", 2))
    model = R.Model(kind, t, named, seed)
    nrep = case["nrep"]
    nenv = case["nenv"]
    nrep_list = [nrep] * nenv if isinstance(nrep, int) else list(nrep)
    layer = case["layer"]
    G = [[float(x) for x in row] for row in model.genotypic(pop)]
    var = [None if v is None else list(v) for v in case["var"]]
    order, s0, s1 = TAGVARS[case["tag"]]
    signs = [s0, s1][:t]
    D = R.ndraws(pop.n, nrep_list)
    scripted = case["rng"] in ("gen", "rs")
    handler = R.TagHandler(t, order=order, signs=signs, expected=D * case["calls"]) if scripted else None
    ctx.evaluations += 1
    box = {}

    def body():
        pg = R.build_pgmat(pop)
        gm = model.build()
        form = case["form"]
        kw = dict(gpmod=gm, nenv=numpy.int64(nenv) if form == 3 else nenv, nrep=R.nrep_argument(nrep, form),
                  var_env=R.var_argument(var[0], form), var_rep=R.var_argument(var[1], form + 1),
                  rng=_mk_rng(case["rng"], handler, seed))
        if layer == "P3":
            kw["var_err"] = case["prior"]
        else:
            kw["var_err"] = R.var_argument(var[2], form + 2)
        for k in ("var_env", "var_rep", "var_err"):
            ctx.flag("varform:" + R.var_form_name(kw[k]))
        ctx.flag("nrepform:" + type(kw["nrep"]).__name__ + (":" + str(kw["nrep"].dtype) if isinstance(kw["nrep"], numpy.ndarray) else ""))
        pt = G_E_Phenotyping(**kw)
        ctx.transitions += 1
        if layer == "P3":
            oracle_heritability(ctx, case, pt, pg, pop, model, var)
        if var[2] is None:
            return            # heritability undefined for this population (skipped, counted)
        if case.get("copy"):
            # the trial is run on a COPY of the configured protocol (the copy shares the generator by design)
            orig = pt
            pt = R.make_copy(orig, case["copy"])
            ctx.transitions += 1
            require(pt is not orig and type(pt) is type(orig), PT + "copy:type", f"{case['copy']} returned {type(pt).__name__}")
        for call in range(case["calls"]):
            if handler is not None:
                handler.phase = call
            df = pt.phenotype(pg, miscout={}) if case["form"] == 2 else pt.phenotype(pg)
            ctx.transitions += 1
            box["df"] = df
            try:
                oracle_trial(ctx, df, pop, model, G, nrep_list, var, handler, call)
                oracle_untouched(pg, pt, pop, nrep_list, var)
            except Violation as v:
                if not case.get("copy"):
                    raise
                raise Violation(PT + "on-copy:" + v.sig.split(":")[-1], f"protocol obtained by {case['copy']}: {v.detail}", v.case)

    ok = ctx.guard(body, case=case, sig_prefix="G_E_Phenotyping:")
    # bookkeeping
    cfg = digest((layer, case["n"], case["labvar"], case["model"], nenv, nrep, case["var"], case.get("method"),
                  case.get("target"), case.get("ploidy", 2), case.get("copy")))
    ctx.state(cfg)
    if "df" in box:
        try:
            ctx.outcome(digest(box["df"].to_numpy(dtype=object).tolist()))
        except Exception:
            pass
    anyvar = var[2] is not None and any(x > 0 for v in var for x in v)
    if anyvar and pop.n * sum(nrep_list) > 1:
        ctx.nontriv(digest((cfg, case["tag"])))
    if ok:
        ctx.traces += 1
    ctx.count(f"exec:{layer}")
    ctx.flag(f"labvar:{case['labvar']}")
    ctx.flag(f"model:{kind}{t}{'' if named else '-unnamed'}")
    ctx.flag(f"nenv:{nenv}")
    ctx.flag("nrep:scalar" if isinstance(nrep, int) else ("nrep:array-unequal" if len(set(nrep)) > 1 else "nrep:array"))
    ctx.flag(f"rng:{case['rng']}")
    ctx.flag(f"n:{case['n']}")
    ctx.flag(f"ploidy:{layer}:{case.get('ploidy', 2)}")
    if case.get("copy"):
        ctx.flag(f"copy:GE:{case['copy']}")
        ctx.count("exec:copy")
        if any(r != nenv for r in nrep_list):
            ctx.flag("copy:GE:nrep-differs-from-nenv")
    if scripted:
        ctx.flag(f"tag:{case['tag']}")
    if var[2] is not None:
        for kname, v in zip(("env", "rep", "err"), var):
            for x in v:
                if x in R.VAR_LEVELS:
                    ctx.flag(f"var_{kname}:{x:g}")
        if not anyvar:
            ctx.flag("all-variances-zero")
        if t == 2 and any(v[0] != v[1] for v in var):
            ctx.flag("per-trait-variances-differ")
    if case["calls"] == 2:
        ctx.flag("two-call-history")
        ctx.count("exec:two-call")
    if handler is not None:
        ctx.count("draws-answered", len(handler.draws))
    if var[2] is not None and any(all(v[j] > 0 for v in var) for j in range(t)):
        ctx.flag("record-with-env+rep+err-parts")
    if "df" in box and _sample_trial(ctx, case):
        ctx.sample(dict(case=case, true_values=G, table=box["df"].to_dict(orient="list")))


def _sample_trial(ctx, case):
    """A handful of informative executions for the evidence file: the first fully noisy trial of two fixed
    configurations, one heritability case."""
    if case["layer"] == "P1":
        key = (case["n"], case["labvar"], case["model"][0], case["model"][1], case["nenv"])
        hit = key in ((3, "uns-grpdup", "AL", 2, 2), (4, "uns-nogrp", "ADL", 1, 3)) and not isinstance(case["nrep"], int) \
            and len(set(case["nrep"])) > 1 and all(x > 0 for v in case["var"] for x in v)
    elif case["layer"] == "P3":
        key = (case["n"], case["labvar"], case["model"][0], case["model"][1], case["method"])
        hit = key == (3, "uns-grpuniq", "ADL", 1, "h2") and case["target"] == 0.5
    else:
        return False
    name = "sampled:" + repr(key)
    if not hit or name in ctx.flags:
        return False
    ctx.flag(name)
    return True


def oracle_untouched(pg, pt, pop, nrep_list, var):
    require(pg.mat.tolist() == pop.ph and
            (None if pg.taxa is None else pg.taxa.tolist()) == pop.taxa and
            (None if pg.taxa_grp is None else pg.taxa_grp.tolist()) == pop.grp,
            PT + "input-mutated", "phenotype() changed the genotype matrix handed in")
    same = list(pt.nrep.tolist()) == list(nrep_list)
    for a, v in zip(("var_env", "var_rep", "var_err"), var):
        got = getattr(pt, a).tolist()
        same = same and (got == v or close(got, v))
    require(same, PT + "protocol-state-changed", "phenotype() changed nrep / var_env / var_rep / var_err of the protocol")


def _isnull(x):
    return x is None or x is pandas.NA or (isinstance(x, float) and math.isnan(x))


def oracle_trial(ctx, df, pop, model, G, nrep_list, var, handler, phase):
    require(isinstance(df, pandas.DataFrame), PT + "type", f"phenotype() returned {type(df).__name__}")
    cols = [str(c) for c in df.columns]
    for c in ("taxa", "env", "rep"):
        require(cols.count(c) == 1, PT + "columns", f"column {c!r} missing/duplicated in {cols}")
    t = model.t
    if model.trait is not None:
        tcols = list(model.trait)
        for c in tcols:
            require(cols.count(c) == 1, PT + "columns", f"trait column {c!r} missing/duplicated in {cols}")
    else:
        tcols = [c for c in df.columns if str(c) not in ("taxa", "taxa_grp", "env", "rep")]
        require(len(tcols) == t, PT + "columns", f"{len(tcols)} value columns for {t} unnamed traits: {cols}")
    nrow = len(df)
    nexp = pop.n * sum(nrep_list)
    require(nrow == nexp, PT + "record-count", f"{nrow} records, expected n*sum(nrep) = {nexp}")
    names = df["taxa"].tolist()
    envs = df["env"].tolist()
    reps = df["rep"].tolist()
    vals = [df[c].tolist() for c in tcols]
    grps = df["taxa_grp"].tolist() if "taxa_grp" in cols else None
    # -- record identity ---------------------------------------------------------------
    env_rank = {v: k for k, v in enumerate(sorted(set(envs)))}
    require(len(env_rank) == len(nrep_list), PT + "record-set",
            f"{len(env_rank)} distinct environment labels for nenv={len(nrep_list)}")
    rep_rank = {}
    for e_lab, e in env_rank.items():
        labs = sorted({r for r, ev in zip(reps, envs) if ev == e_lab})
        require(len(labs) == nrep_list[e], PT + "record-set",
                f"environment #{e + 1} has {len(labs)} distinct replicate labels, nrep there is {nrep_list[e]}")
        for k, lab in enumerate(labs):
            rep_rank[(e, lab)] = k
    if pop.taxa is not None:
        maps = [{nm: i for i, nm in enumerate(pop.taxa)}]
        for nm in names:
            require(nm in maps[0], PT + "alien-taxon", f"record labelled {nm!r}; the population is {pop.taxa}")
    else:
        dn = sorted(set(names))
        require(len(dn) == pop.n, PT + "record-set", f"{len(dn)} distinct generated taxon names for {pop.n} taxa")
        maps = [{nm: i for nm, i in zip(dn, perm)} for perm in itertools.permutations(range(pop.n))]
    first = None
    for mp in maps:      # (unnamed taxa: any consistent naming is accepted)
        try:
            _trial_values(ctx, pop, G, nrep_list, var, handler, phase, names, envs, reps, vals, grps, env_rank, rep_rank, mp, t)
            return
        except Violation as v:
            first = first or v
    raise first


def _trial_values(ctx, pop, G, nrep_list, var, handler, phase, names, envs, reps, vals, grps, env_rank, rep_rank, mp, t):
    rows = {}
    for k in range(len(names)):
        e = env_rank[envs[k]]
        key = (mp[names[k]], e, rep_rank[(e, reps[k])])
        require(key not in rows, PT + "record-set",
                f"two records for taxon {names[k]!r} in environment {envs[k]} replicate {reps[k]}")
        rows[key] = k
    exp = R.records(pop.n, nrep_list)
    require(set(rows) == set(exp), PT + "record-set", f"records {sorted(rows)} expected {exp}")
    # -- labels ------------------------------------------------------------------------
    if pop.grp is not None:
        require(grps is not None, PT + "labels", "population has group ids but the table has no taxa_grp column")
        for (i, e, p), k in rows.items():
            require((not _isnull(grps[k])) and grps[k] == pop.grp[i], PT + "labels",
                    f"record of taxon {names[k]!r} carries group {grps[k]!r}, the taxon's group is {pop.grp[i]}")
    else:
        require(grps is None or all(_isnull(g) for g in grps), PT + "labels",
                f"population has no group ids but the table carries {grps}")
    # -- the requests made to the generator ----------------------------------------------
    draws = [] if handler is None else handler.draws
    for d in draws:
        require(all(m == 0 for m in d["mean"]), PT + "generator-mean",
                f"draw {d['id']} requested with mean {d['mean']} (effects must be centred at 0)")
        require(not d["offdiag"], PT + "generator-cov-offdiag",
                f"draw {d['id']} requested with a non-diagonal covariance (traits are documented as independent)")
    by_e = {d["e"]: d for d in draws if d["e"] is not None}
    overflow = handler is not None and handler.overflow
    allzero = not any(x > 0 for v in var for x in v)
    Gmax = max(abs(x) for row in G for x in row)
    # -- values --------------------------------------------------------------------------
    for j in range(t):
        sgn = 1 if handler is None else handler.signs[j]
        used = {}
        for (i, e, p), k in sorted(rows.items()):
            v = vals[j][k]
            require(isinstance(v, float) and math.isfinite(v), PT + "value-not-finite", f"cell {v!r} for taxon {names[k]!r}")
            tol = 1e-9 * (1.0 + Gmax) + 8 * R.spacing(v)
            ex = R.decode(sgn * (v - G[i][j]), tol)
            if allzero or handler is None:
                require(ex == [], PT + "zero-variance-not-truth",
                        f"all variances 0: record (taxon {names[k]!r}, env {e + 1}, rep {p + 1}) trait {j} is {v!r}, true value {G[i][j]!r}")
            require(ex is not None, PT + "value-not-truth-plus-draws",
                    f"record (taxon {names[k]!r}, env {e + 1}, rep {p + 1}) trait {j} = {v!r}: minus the taxon's true value "
                    f"{G[i][j]!r} leaves {sgn * (v - G[i][j])!r}, not a sum of draws each taken once")
            for x in ex:
                d = by_e.get(x)
                require(d is not None and d["var"][j] > 0, PT + "value-not-truth-plus-draws",
                        f"record (taxon {names[k]!r}, env {e + 1}, rep {p + 1}) trait {j} contains 2^{x}, which no draw "
                        f"with positive variance in this trait returned")
                require(d["phase"] == phase, PT + "second-call-reuses-draws",
                        f"table of call #{phase + 1} contains draw {d['id']} made during call #{d['phase'] + 1}")
                used.setdefault(d["id"], []).append((i, e, p))
        if overflow:
            continue
        obs = sorted((tuple(sorted(recs)), draws[did]["var"][j]) for did, recs in used.items())
        expf = sorted((tuple(sorted(recs)), vv) for recs, vv in R.expected_family(pop.n, nrep_list, var[0][j], var[1][j], var[2][j]))
        if [o[0] for o in obs] != [x[0] for x in expf]:
            raise Violation(PT + "draw-sharing",
                            f"trait {j}: the draws cover record sets {_fam(obs)}; independent effects need one draw per "
                            f"environment, per (env, rep) and per record: {_fam(expf)}")
        # same record sets: compare the requested variances set by set (order inside equal sets is free)
        for key, grp_o in itertools.groupby(obs, key=lambda o: o[0]):
            vo = sorted(x[1] for x in grp_o)
            ve = sorted(x[1] for x in expf if x[0] == key)
            require(close(vo, ve), PT + "generator-variance",
                    f"trait {j}: draws covering records {list(key)} were requested with variances {vo}, requested "
                    f"by the protocol settings: {ve}")
        if handler is not None:
            unused = [d["id"] for d in draws if d["phase"] == phase and d["var"][j] > 0 and d["id"] not in used]
            if unused:
                ctx.count("draws-requested-but-unused", len(unused))
    if overflow:
        ctx.count("tag-overflow-executions")
        if "tag-overflow" not in ctx.flags:
            ctx.flag("tag-overflow")
            ctx.capped.append("an execution requested more normal draws than distinct tags fit a double "
                              f"({R.TagHandler.MAX_EXP + 1}); its draw structure was not decided")


def _fam(f):
    return [[list(r) for r in recs] for recs, _ in f][:12]


def oracle_heritability(ctx, case, pt, pg, pop, model, var):
    method, target = case["method"], case["target"]
    t = model.t
    vals = model.breeding(pop) if method == "h2" else model.genotypic(pop)
    V = [R.pvar([vals[i][j] for i in range(pop.n)]) for j in range(t)]
    if any(v == 0 for v in V):
        ctx.count("heritability-skipped-zero-genetic-variance")
        ctx.flag("herit-skip")
        var[2] = None
        return
    tg = target if not isinstance(target, list) else numpy.array(target, dtype=float)
    tl = [float(x) for x in target] if isinstance(target, list) else [float(target)] * t
    ctx.flag(f"herit:{method}:{'array' if isinstance(target, list) else type(target).__name__}")
    for x in tl:
        ctx.flag(f"herit-target:{x:g}")
    if model.kind == "ADL":
        ctx.flag(f"herit:{method}:dominance-model")
        ctx.flag(f"herit:{method}:dominance-model:ploidy{pop.ploidy}")
    ctx.count(f"heritability-cases:{method}")
    getattr(pt, "set_" + method)(tg, pg)
    ctx.transitions += 1
    ve = numpy.asarray(pt.var_err, dtype=float)
    sig = f"G_E_Phenotyping.set_{method}:"
    require(ve.shape == (t,) and bool(numpy.all(numpy.isfinite(ve))) and bool(numpy.all(ve >= 0)), sig + "var_err-shape",
            f"var_err after set_{method}({target}) is {ve!r}")
    for j in range(t):
        vg = float(V[j])
        ratio = vg / (vg + float(ve[j]))
        require(abs(ratio - tl[j]) <= 1e-12, sig + "ratio",
                f"trait {j}: genetic variance {vg!r}, var_err {float(ve[j])!r}: ratio {ratio!r}, target {tl[j]!r}")
    # the trial that follows must request exactly this error variance
    var[2] = [float((1 - Fraction_(tl[j])) / Fraction_(tl[j]) * V[j]) for j in range(t)]
    ctx.count(f"heritability-ratio-ok:{method}")


def Fraction_(x):
    from fractions import Fraction
    return Fraction(x)


TPS = "TruePhenotyping.phenotype:"


def oracle_truepheno(df, pop, model, G, tp, P=TPS):
    t = model.t
    cols = [str(c) for c in df.columns]
    require(cols.count("taxa") == 1, P + "columns", f"columns {cols}")
    tcols = list(model.trait) if model.trait is not None else [c for c in df.columns if str(c) not in ("taxa", "taxa_grp")]
    require(len(tcols) == t and all(c in df.columns for c in tcols), P + "columns", f"columns {cols} for traits {model.trait}")
    require(len(df) == pop.n, P + "record-count", f"{len(df)} records for {pop.n} taxa")
    names = df["taxa"].tolist()
    if pop.taxa is not None:
        require(sorted(names) == sorted(pop.taxa), P + "record-set", f"taxa {names} for population {pop.taxa}")
        idx = [pop.taxa.index(nm) for nm in names]
    else:
        require(len(set(names)) == pop.n, P + "record-set", f"generated names {names}")
        idx = None          # generated names: any naming is accepted, rows are matched by value below
    if pop.grp is not None:
        require("taxa_grp" in cols and df["taxa_grp"].tolist() == [pop.grp[i] for i in idx], P + "labels",
                f"group labels {df['taxa_grp'].tolist() if 'taxa_grp' in cols else None} for taxa {names}, "
                f"the taxa's groups are {[pop.grp[i] for i in idx]}")
    else:
        require("taxa_grp" not in cols or all(_isnull(g) for g in df["taxa_grp"].tolist()), P + "labels", "group labels invented")
    got = [[df[c].tolist()[k] for c in tcols] for k in range(pop.n)]
    if idx is None:
        require(any(all(close(got[k], G[i]) for k, i in enumerate(perm)) for perm in itertools.permutations(range(pop.n))),
                P + "not-truth", f"records {got} are not the true values {G} under any naming")
    else:
        for k, i in enumerate(idx):
            require(close(got[k], G[i]), P + "not-truth", f"taxon {names[k]!r}: {got[k]!r}, true values {G[i]!r}")
    require(close(tp.var_err, [0.0] * t), P + "var_err", f"var_err {tp.var_err!r}")


def run_truepheno(ctx, case):
    from pybrops.breed.prot.pt.TruePhenotyping import TruePhenotyping
    seed = case["seed"]
    kind, t, named = case["model"]
    pop = R.Pop(case["n"], case["labvar"], seed, case.get("ploidy", 2))
    model = R.Model(kind, t, named, seed)
    G = [[float(x) for x in row] for row in model.genotypic(pop)]
    ctx.evaluations += 1
    box = {}

    def body():
        pg = R.build_pgmat(pop)
        tp = TruePhenotyping(model.build())
        if case.get("copy"):
            tp = R.make_copy(tp, case["copy"])
            ctx.transitions += 1
        df = tp.phenotype(pg)
        ctx.transitions += 1
        box["df"] = df
        oracle_truepheno(df, pop, model, G, tp, P=TPS + ("on-copy:" if case.get("copy") else ""))

    ok = ctx.guard(body, case=case, sig_prefix="TruePhenotyping:")
    ctx.state(digest(("TP", case["n"], case["labvar"], case["model"], case.get("ploidy", 2), case.get("copy"))))
    ctx.flag(f"ploidy:TP:{case.get('ploidy', 2)}")
    if case.get("copy"):
        ctx.flag(f"copy:TP:{case['copy']}")
    if "df" in box:
        ctx.outcome(digest(box["df"].to_numpy(dtype=object).tolist()))
    if ok:
        ctx.traces += 1
    ctx.count("exec:TP")


# ----------------------------------------------------------------------------
# H: histories on one protocol object
def _shard_h(ctx, n, proto, lv_only):
    T = ctx.tier == "thorough"
    ops = list(R.OPS_COMMON) + (list(R.OPS_GE) if proto == "GE" else [])
    seqs = [[o] for o in ops]
    if T:
        seqs += [[a, b] for a in ops for b in ops if a != b and "none" not in (a, b)
                 and not (a.split("-")[0] == b.split("-")[0] and a.split("-")[0] in ("taxa", "grp", "gpmod"))]
    else:
        seqs += [["gpmod-set", "taxa-set"], ["mat-inplace", "gpmod-edit-u"], ["taxa-inplace", "grp-set"]]
    lays = ((1, 1), (2, [1, 2]), (1, 2))
    vmenu = {1: ([[1.0], [4.0], [1.0]], [[0.0], [0.0], [0.0]], [[4.0], [0.0], [1.0]]),
             2: ([[1.0, 4.0], [4.0, 1.0], [1.0, 1.0]], [[0.0, 0.0], [0.0, 0.0], [0.0, 0.0]], [[0.0, 4.0], [1.0, 0.0], [4.0, 0.0]])}
    idx = 0
    for lv in (R.LABVARS if lv_only is None else (lv_only,)):
        for mi, (kind, t, named) in enumerate(R.MODELS):
            for si, seq in enumerate(seqs):
                if not all(R.op_applicable(o, R.Pop(n, lv, ctx.seed), None, proto) for o in seq):
                    ctx.count("history-op-not-applicable")
                    continue
                if proto == "TP":
                    idx += 1
                    run_history(ctx, dict(layer="H", proto="TP", n=n, labvar=lv, model=[kind, t, named], ops=seq, seed=ctx.seed))
                    continue
                if T and len(seq) == 2:
                    sel = [((si + mi) % 3, (si + mi + 1) % 3)]
                elif T:
                    sel = [(li, vi) for li in range(3) for vi in range(3)]
                else:
                    sel = [((si + mi) % 3, (si + mi + idx) % 3), ((si + mi + 1) % 3, 0)]
                for li, vi in sel:
                    idx += 1
                    nenv, nrep = lays[li]
                    run_history(ctx, dict(layer="H", proto="GE", n=n, labvar=lv, model=[kind, t, named], ops=seq, nenv=nenv,
                                          nrep=nrep, var=vmenu[t][vi], form=idx % 4, tag=idx % 3,
                                          rng="rs" if idx % 3 == 0 else "gen", seed=ctx.seed))


def run_history(ctx, case):
    """phenotype(pg); ops on the very same objects; phenotype(pg) again -> the trial of the current data."""
    from pybrops.breed.prot.pt.G_E_Phenotyping import G_E_Phenotyping
    from pybrops.breed.prot.pt.TruePhenotyping import TruePhenotyping
    seed = case["seed"]
    kind, t, named = case["model"]
    proto = case["proto"]
    pop = R.pop_copy(R.Pop(case["n"], case["labvar"], seed))
    model = R.Model(kind, t, named, seed)
    ctx.evaluations += 1
    box = {}
    st = dict(pop=pop, model=model)
    handler = None
    if proto == "GE":
        order, s0, s1 = TAGVARS[case["tag"]]
        handler = R.TagHandler(t, order=order, signs=[s0, s1][:t], expected=44)
        nenv, nrep = case["nenv"], case["nrep"]
        st.update(nenv=nenv, nrep_list=[nrep] * nenv if isinstance(nrep, int) else list(nrep), var=[list(v) for v in case["var"]],
                  mkrng=lambda: _mk_rng(case["rng"], handler, seed))
    sigp = "G_E_Phenotyping.phenotype:after-history:" if proto == "GE" else "TruePhenotyping.phenotype:after-history:"

    def trial(phase):
        df = st["pt"].phenotype(st["pg"])
        ctx.transitions += 1
        box["df"] = df
        G = [[float(x) for x in row] for row in st["model"].genotypic(st["pop"])]
        try:
            if proto == "GE":
                oracle_trial(ctx, df, st["pop"], st["model"], G, st["nrep_list"], st["var"], handler, phase)
                oracle_untouched(st["pg"], st["pt"], st["pop"], st["nrep_list"], st["var"])
            else:
                oracle_truepheno(df, st["pop"], st["model"], G, st["pt"])
        except Violation as v:
            if phase == 0:
                raise
            # the same oracle, but the failure is specific to the history: name the call site accordingly
            raise Violation(sigp + v.sig.split(":")[-1], f"after {case['ops']}: {v.detail}", v.case)

    def body():
        st["pg"] = R.build_pgmat(pop)
        st["gm"] = model.build()
        if proto == "GE":
            form = case["form"]
            st["pt"] = G_E_Phenotyping(gpmod=st["gm"], nenv=st["nenv"], nrep=R.nrep_argument(case["nrep"], form),
                                       var_env=R.var_argument(st["var"][0], form), var_rep=R.var_argument(st["var"][1], form + 1),
                                       var_err=R.var_argument(st["var"][2], form + 2), rng=st["mkrng"]())
            handler.phase = 0
        else:
            st["pt"] = TruePhenotyping(st["gm"])
        ctx.transitions += 1
        trial(0)
        for op in case["ops"]:
            R.apply_op(op, st, seed)
            ctx.transitions += 1
        if proto == "GE":
            handler.phase = 1
        trial(1)

    ok = ctx.guard(body, case=case, sig_prefix=("G_E_Phenotyping:" if proto == "GE" else "TruePhenotyping:") + "history:")
    ctx.state(digest(("H", proto, case["n"], case["labvar"], case["model"], case["ops"], case.get("nenv"), case.get("nrep"),
                      case.get("var"))))
    if "df" in box:
        ctx.outcome(digest(box["df"].to_numpy(dtype=object).tolist()))
    if case["ops"] != ["none"]:
        ctx.nontriv(digest(("H", case)))
    if ok:
        ctx.traces += 1
    ctx.count(f"exec:H:{proto}")
    for op in case["ops"]:
        ctx.flag(f"history:{proto}:{op}")
    if len(case["ops"]) == 2:
        ctx.flag(f"history:{proto}:two-ops")
    if proto == "GE" and case["n"] == 3 and case["labvar"] == "uns-grpdup" and case["ops"] == ["gpmod-set", "taxa-set"] \
            and "df" in box and "sampled:H" not in ctx.flags:
        ctx.flag("sampled:H")
        ctx.sample(dict(case=case, second_table=box["df"].to_dict(orient="list")))


# ----------------------------------------------------------------------------
# B1: estimate() on hand-built tables
GRPCOLS = ("none", "col", "ignored", "renamed", "null")
TRAITVARS = (0, 1, 2, 3)


def _shard_b1(ctx, counts, part, nparts):
    T = ctx.tier == "thorough"
    seed = ctx.seed
    s = seed % 3
    k = len(counts)
    Rw = sum(counts)
    P = R.NAMES[s][:k]
    U = R.UNPHENO[s]
    orders, full = R.row_orders(Rw, 6)
    few = R.few_orders(Rw)
    core = R.gt_lists_core(P, U)
    allg = R.gt_lists_all(P, U, 4 if T else 3)
    idx = 0
    # (a) every row order x core genotype lists (+ no genotype matrix) x column variants.
    #     thorough: full product up to 4 rows; 5 rows: all orders x all lists x all group-column variants x 2 of 4
    #     trait variants; 6 rows: all orders x all lists x 3 of 5 group-column variants x 1 trait variant (rotating);
    #     quick: full product up to 3 rows, then the row orders stay complete and the other axes rotate.
    gts = core + [None]
    for oi, order in enumerate(orders):
        if oi % nparts != part:
            continue
        if T or Rw <= 3:
            gsel = list(range(len(gts)))
        elif Rw == 4:
            gsel = [(oi + j * 3) % len(gts) for j in range(5)]
        elif Rw == 5:
            gsel = [(oi + j * 5) % len(gts) for j in range(2)]
        else:
            gsel = [oi % len(gts)]
        for gi in gsel:
            gt = gts[gi]
            if T and Rw <= 5 or Rw <= 4:
                gcs = GRPCOLS
            elif T or Rw == 5:
                gcs = tuple(GRPCOLS[(oi + gi + j) % 5] for j in (0, 2, 4))
            else:
                gcs = (GRPCOLS[(oi + gi) % 5],)
            for gci, gc in enumerate(gcs):
                if Rw <= (4 if T else 3):
                    tvs = TRAITVARS
                elif T and Rw == 5:
                    tvs = ((oi + gi) % 4, (oi + gi + 2) % 4)
                else:
                    tvs = ((oi + gi + gci) % 4,)
                for tv in tvs:
                    idx += 1
                    case = dict(layer="B1", counts=list(counts), order=order, gt=gt, gtgrp=(idx + gi) % 3, gtcls=idx % 2,
                                grpcol=gc, traits=tv, alpha=(oi + tv) % 3, index=R.INDEX_VARIANTS[idx % 5], seed=seed)
                    run_estimate(ctx, case)
        # (d) the row-index alphabet: this row order with every kind of index
        if Rw <= (5 if T else 4):
            ivs, gsel2 = R.INDEX_VARIANTS, (oi % len(core), None)
        elif Rw == 5 or T:
            ivs, gsel2 = R.INDEX_VARIANTS, ((oi % len(core)) if oi % 3 else None,)
        else:
            ivs, gsel2 = (R.INDEX_VARIANTS[1 + oi % 4],), ((oi % len(core)) if oi % 3 else None,)
        for iv in ivs:
            for g2 in gsel2:
                idx += 1
                case = dict(layer="B1", counts=list(counts), order=order, gt=None if g2 is None else core[g2], gtgrp=idx % 3,
                            gtcls=idx % 2, grpcol=GRPCOLS[(oi + idx) % 5], traits=(oi + idx) % 4, alpha=oi % 3, index=iv, seed=seed)
                run_estimate(ctx, case)
    if part != 0:
        return
    ctx.flag("rows-all-orders" if full else "rows-transposition-closure")
    ctx.flag(f"rows:{Rw}")
    # (b) every genotype list x a few row orders
    for gi, gt in enumerate(allg):
        for oi, order in enumerate(few):
            for gc in (("none", "col", "null") if T else (GRPCOLS[(gi + oi) % 5],)):
                idx += 1
                case = dict(layer="B1", counts=list(counts), order=order, gt=gt, gtgrp=(gi + oi) % 3, gtcls=gi % 2,
                            grpcol=gc, traits=(gi + oi) % 4, alpha=gi % 3, index=R.INDEX_VARIANTS[(gi + oi) % 5], seed=seed)
                run_estimate(ctx, case)
    # (c) constant tables (zero spread: the unit-scale shortcut of the breeding value matrix)
    for gi, gt in enumerate(core[:6] + [None]):
        for order in few[:2]:
            case = dict(layer="B1", counts=list(counts), order=order, gt=gt, gtgrp=gi % 3, gtcls=gi % 2,
                        grpcol=GRPCOLS[gi % 2], traits=1, alpha=3, index=R.INDEX_VARIANTS[gi % 5], seed=seed)
            run_estimate(ctx, case)


def _table(case):
    """-> (DataFrame, rows[(name, grp, [v0, v1], env, rep)], taxa column, group column or None).

    case["index"] chooses the ROW INDEX the table carries (row content and row order are the same for all):
      range   RangeIndex 0..R-1 in the final row order (a freshly built / reset_index'ed table)
      perm    the base table's labels travelling with their rows (df.iloc[order] as is)
      subset  rows filtered out of a larger table (junk records of the SAME taxa in between), labels kept
      str     string labels
      dup     duplicated labels
    """
    s = case["seed"] % 3
    counts = case["counts"]
    base = R.base_rows(counts)
    alpha = case["alpha"]
    ivar = case.get("index", "range")
    rows = []
    seen = {}
    for r, i in enumerate(base):
        seen[i] = seen.get(i, 0) + 1
        rows.append((R.NAMES[s][i], R.GRP_DUP[s][i], [R.record_value(r, 0, alpha), R.record_value(r, 1, alpha)], 1 + r % 2, seen[i]))
    gc = case["grpcol"]
    tn = "line" if gc == "renamed" else "taxa"
    gn = "fam" if gc == "renamed" else "taxa_grp"

    def frame(rs, index=None):
        data = {tn: numpy.array([r[0] for r in rs], dtype=object)}
        if gc in ("col", "ignored", "renamed"):
            data[gn] = numpy.array([r[1] for r in rs], dtype="int64")
        elif gc == "null":
            data[gn] = None          # exactly what G_E_Phenotyping.phenotype emits for a population without group ids
        data["env"] = numpy.array([r[3] for r in rs], dtype="int64")
        data["rep"] = numpy.array([r[4] for r in rs], dtype="int64")
        data["y1"] = numpy.array([r[2][0] for r in rs], dtype=float)
        data["y2"] = numpy.array([r[2][1] for r in rs], dtype=float)
        return pandas.DataFrame(data, index=index)

    order = case["order"]
    ordered = [rows[k] for k in order]
    if ivar == "range":
        df = frame(ordered)
    elif ivar == "perm":
        df = frame(rows).iloc[order]
    elif ivar == "subset":
        big = []
        for r in rows:          # a junk record of the same taxon (other environment, far-away values) after each real one
            big.append(r)
            big.append((r[0], r[1], [r[2][0] + 1e3, -r[2][1] - 1e3], 99, r[4]))
        bdf = frame(big)
        df = bdf[bdf["env"] != 99].iloc[order]
    elif ivar == "str":
        df = frame(rows, index=[f"r{len(rows) - 1 - k}" for k in range(len(rows))]).iloc[order]
    elif ivar == "dup":
        df = frame(rows, index=[k // 2 for k in range(len(rows))]).iloc[order]
    else:
        raise ValueError(ivar)
    return df, ordered, tn, (gn if gc in ("col", "renamed", "null") else None)


def run_estimate(ctx, case):
    from pybrops.breed.prot.bv.MeanPhenotypicBreedingValue import MeanPhenotypicBreedingValue
    s = case["seed"] % 3
    tv = case["traits"]
    trait_arg = ["y1", ["y1", "y2"], ["y2", "y1"], ["y2"]][tv]
    tlist = [trait_arg] if isinstance(trait_arg, str) else list(trait_arg)
    tidx = [0 if c == "y1" else 1 for c in tlist]
    gt = case["gt"]
    ctx.evaluations += 1
    box = {}

    def body():
        df, rows, tn, gn = _table(case)
        before = df.copy(deep=True)
        means = R.taxon_means([(r[0], r[2]) for r in rows], tidx)
        grp_of = {r[0]: r[1] for r in rows}
        prot = MeanPhenotypicBreedingValue(tn, gn, trait_arg)
        gobj = None
        ggrp = None
        if gt is not None:
            allnames = R.NAMES[s] + list(R.UNPHENO[s])
            if case["gtgrp"]:
                ggrp = [(R.GRP_UNIQ[s] + [77, 78])[allnames.index(nm)] % (3 if case["gtgrp"] == 2 else 1000) for nm in gt]
            gobj = R.build_gmat(gt, ggrp, phased=bool(case["gtcls"]))
        gt_eff = gt
        if gobj is not None and case["gtgrp"] == 2:
            gobj.group_taxa()                       # a grouped genotype matrix: its order after grouping is "the order supplied"
            gt_eff, ggrp = gobj.taxa.tolist(), gobj.taxa_grp.tolist()
        null = case["grpcol"] == "null"
        exp_grp = grp_of if (gn is not None and not null) else None
        try:
            out = prot.estimate(df, gobj)
            ctx.transitions += 1
            box["out"] = out
            oracle_estimate(out, gt_eff, ggrp, tlist, means, exp_grp, null, free_grp=null)
        except Exception as first:
            # differential diagnosis: same rows, same order, default RangeIndex.  If that is right, the defect is a
            # dependence on the row INDEX of the table (label-aligned join / concat), which gets its own signature
            if case.get("index", "range") == "range":
                raise
            try:
                out_r = prot.estimate(df.reset_index(drop=True), gobj)
                oracle_estimate(out_r, gt_eff, ggrp, tlist, means, exp_grp, null, free_grp=null)
            except Exception:
                raise first
            raise Violation(BV + "row-index-dependent",
                            f"table with index {df.index.tolist()} ({case['index']}): {type(first).__name__}: {str(first)[:300]}; "
                            f"the same rows in the same order under a RangeIndex give the right result")
        if gobj is not None:
            for fld in ("taxa_grp_name", "taxa_grp_stix", "taxa_grp_spix", "taxa_grp_len"):
                require(same(getattr(out, fld), getattr(gobj, fld)), BV + "group-metadata",
                        f"{fld} of the result {getattr(out, fld)} differs from the genotype matrix's {getattr(gobj, fld)}")
        require(df.equals(before), BV + "input-mutated", "estimate() changed the phenotype table handed in")
        if gt is None and case["order"] != sorted(case["order"]):
            # row-order invariance of the *whole* result (incl. its taxon order) when no genotype order is imposed
            df0, _, _, _ = _table(dict(case, order=sorted(case["order"])))
            out0 = prot.estimate(df0, None)
            ctx.transitions += 1
            require(out.taxa.tolist() == out0.taxa.tolist() and close(out.unscale(), out0.unscale()),
                    BV + "row-order-dependent",
                    f"row order {case['order']} gives taxa {out.taxa.tolist()}, the base order gives {out0.taxa.tolist()}")

    ok = ctx.guard(body, case=case, sig_prefix=BV)
    cfg = digest(("B1", case["counts"], gt, case["gtgrp"], case["grpcol"], tv, case["alpha"], case.get("index", "range")))
    ctx.state(cfg)
    if "out" in box:
        o = box["out"]
        ctx.outcome(digest((None if o.taxa is None else o.taxa.tolist(), o.unscale())))
    base = R.base_rows(case["counts"])
    names_sorted = sorted({R.NAMES[s][i] for i in base})
    if case["order"] != sorted(case["order"]) or (gt is not None and gt != names_sorted):
        ctx.nontriv(digest((cfg, case["order"])))
    if ok:
        ctx.traces += 1
    ctx.count("exec:B1")
    ctx.flag(f"grpcol:{case['grpcol']}")
    ctx.flag(f"index:{case.get('index', 'range')}")
    if case.get("index", "range") != "range" and case["order"] != sorted(case["order"]):
        ctx.count("estimate-cases-with-permuted-non-default-index")
    ctx.flag(f"traits:{tv}")
    ctx.flag(f"alpha:{case['alpha']}")
    if gt is None:
        ctx.flag("gt:none")
    else:
        ph = {R.NAMES[s][i] for i in base}
        if any(nm not in ph for nm in gt):
            ctx.flag("gt:unphenotyped-taxon")
        if any(nm not in gt for nm in ph):
            ctx.flag("gt:phenotyped-taxon-absent")
        if [nm for nm in gt if nm in ph] != sorted(nm for nm in gt if nm in ph):
            ctx.flag("gt:order-differs-from-groupby-order")
        if all(nm not in ph for nm in gt):
            ctx.flag("gt:only-unphenotyped")
        if len(set(gt)) < len(gt):
            ctx.flag("gt:duplicated-taxon")
        if case["gtgrp"] == 2:
            ctx.flag("gt:grouped")
        ctx.flag(f"gtgrp:{case['gtgrp']}")
        ctx.flag(f"gtcls:{case['gtcls']}")
    if "out" in box and case["counts"] == [1, 2, 2] and case["order"] != sorted(case["order"]) and case["grpcol"] == "col" \
            and case["traits"] == 1 and (gt is None or len(gt) == 5):
        name = "sampled:B1:" + ("none" if gt is None else "gt")
        if name not in ctx.flags:
            ctx.flag(name)
            ctx.sample(dict(case=case, table=_table(case)[0].to_dict(orient="list"),
                            result_taxa=box["out"].taxa.tolist(), result_values=box["out"].unscale()))


def oracle_estimate(out, gt, ggrp, tlist, means, grp_of, null, free_grp=False, P=BV):
    taxa = None if out.taxa is None else out.taxa.tolist()
    trait = None if out.trait is None else out.trait.tolist()
    require(trait == list(tlist), P + "trait", f"trait labels {trait}, requested columns {tlist}")
    mat = numpy.asarray(out.unscale(), dtype=float)
    if gt is not None:
        require(taxa == list(gt), P + "taxa-alignment", f"taxa {taxa}, genotype matrix order {gt}")
        og = None if out.taxa_grp is None else out.taxa_grp.tolist()
        require(og == ggrp, P + "taxa-alignment", f"taxa_grp {og}, genotype matrix has {ggrp}")
        exp = numpy.array([means.get(nm, [math.nan] * len(tlist)) for nm in gt], dtype=float).reshape(len(gt), len(tlist))
        require(mat.shape == exp.shape, P + "shape", f"matrix shape {mat.shape}, expected {exp.shape}")
        if null and numpy.all(numpy.isnan(mat)) and not numpy.all(numpy.isnan(exp)):
            raise Violation(P + "null-group-key-drops-records",
                            f"taxa_grp_col names a column that is entirely null (as phenotype() emits for a population "
                            f"without group ids): every taxon is reported missing, expected {exp.tolist()}")
        if not close(mat, exp):
            nanpat = numpy.isnan(mat) != numpy.isnan(exp)
            if nanpat.any():
                raise Violation(P + "missing-pattern", f"taxa {gt}: got {mat.tolist()}, expected {exp.tolist()} "
                                                        f"(NaN exactly for unphenotyped taxa)")
            # right numbers in the wrong rows?
            if sorted(map(tuple, numpy.nan_to_num(mat, nan=-1e300).round(6).tolist())) == \
                    sorted(map(tuple, numpy.nan_to_num(exp, nan=-1e300).round(6).tolist())):
                raise Violation(P + "values-misaligned", f"taxa {gt}: got {mat.tolist()}, expected {exp.tolist()}")
            raise Violation(P + "values-not-taxon-means", f"taxa {gt}: got {mat.tolist()}, expected {exp.tolist()}")
    else:
        if null and (taxa is None or len(taxa) == 0) and means:
            raise Violation(P + "null-group-key-drops-records",
                            f"taxa_grp_col names an entirely null column: result has no taxa, expected {sorted(means)}")
        require(taxa is not None and sorted(taxa) == sorted(means), P + "taxa-set",
                f"taxa {taxa}, phenotyped taxa {sorted(means)}")
        require(mat.shape == (len(taxa), len(tlist)), P + "shape", f"matrix shape {mat.shape}")
        exp = numpy.array([means[nm] for nm in taxa], dtype=float).reshape(len(taxa), len(tlist))
        require(close(mat, exp), P + "values-not-taxon-means", f"taxa {taxa}: got {mat.tolist()}, expected {exp.tolist()}")
        if not free_grp:
            og = None if out.taxa_grp is None else out.taxa_grp.tolist()
            eg = None if grp_of is None else [grp_of[nm] for nm in taxa]
            require(og == eg, P + "labels", f"taxa {taxa} carry groups {og}, expected {eg}")


# ----------------------------------------------------------------------------
# B2: phenotype() -> estimate() pipeline, TrueBreedingValue
def _shard_b2(ctx, n, lv, mi_only):
    T = ctx.tier == "thorough"
    idx = 0
    perms = list(itertools.permutations(range(n)))
    if True:
        for mi, (kind, t, named) in enumerate(R.MODELS):
            if not named or (mi_only is not None and mi != mi_only):
                continue
            for nenv, nrep in ((1, 1), (2, [1, 2]), (1, [3])) + (((3, [2, 1, 1]), (2, 2)) if T else ()):
                nrows = n * (nrep * nenv if isinstance(nrep, int) else sum(nrep))
                orders = R.few_orders(nrows) if nrows > 1 else [[0]]
                for pi, perm in enumerate(perms):
                    for extra in (0, 1, 2):
                        for oi, order in enumerate(orders):
                            if not T and (pi + extra + oi) % (2 if n < 4 else 4):
                                continue
                            idx += 1
                            case = dict(layer="B2", n=n, labvar=lv, model=[kind, t, named], nenv=nenv, nrep=nrep,
                                        var=[[1.0] * t, [4.0] * t, [1.0, 0.0][:t]], perm=list(perm), extra=extra, order=order,
                                        nullcol=(lv == "uns-nogrp" and idx % 2 == 0), tag=idx % 3, reset=bool(idx % 3 == 0),
                                        seed=ctx.seed)
                            run_pipeline(ctx, case)
            for perm in perms:
                for drop in (0, 1):
                    if drop and n == 1:
                        continue
                    case = dict(layer="TB", n=n, labvar=lv, model=[kind, t, named], perm=list(perm)[drop:], seed=ctx.seed)
                    run_truebv(ctx, case)


def run_pipeline(ctx, case):
    from pybrops.breed.prot.pt.G_E_Phenotyping import G_E_Phenotyping
    from pybrops.breed.prot.bv.MeanPhenotypicBreedingValue import MeanPhenotypicBreedingValue
    seed = case["seed"]
    s = seed % 3
    kind, t, named = case["model"]
    pop = R.Pop(case["n"], case["labvar"], seed)
    model = R.Model(kind, t, named, seed)
    nrep, nenv = case["nrep"], case["nenv"]
    nrep_list = [nrep] * nenv if isinstance(nrep, int) else list(nrep)
    order, s0, s1 = TAGVARS[case["tag"]]
    ctx.evaluations += 1
    box = {}
    P = BV + "pipeline:"

    def body():
        h = R.TagHandler(t, order=order, signs=[s0, s1][:t], expected=R.ndraws(pop.n, nrep_list))
        pt = G_E_Phenotyping(model.build(), nenv=nenv, nrep=nrep if isinstance(nrep, int) else numpy.array(nrep),
                             var_env=numpy.array(case["var"][0]), var_rep=numpy.array(case["var"][1]),
                             var_err=numpy.array(case["var"][2]), rng=ScriptedGenerator(h))
        df = pt.phenotype(R.build_pgmat(pop))
        ctx.transitions += 1
        require(len(df) == len(case["order"]), PT + "record-count", f"{len(df)} records, expected {len(case['order'])}")
        df = df.iloc[case["order"]]
        if case.get("reset", True):
            df = df.reset_index(drop=True)
        # reference: plain loops over the table that was produced
        rows = list(zip(df["taxa"].tolist(), zip(*[df[c].tolist() for c in model.trait])))
        require(all(isinstance(x, float) and math.isfinite(x) for _, v in rows for x in v), PT + "value-not-finite",
                "phenotype() produced a non-finite cell")
        means = R.taxon_means([(nm, list(v)) for nm, v in rows], list(range(t)))
        # genotype matrix: the same taxa permuted, plus unphenotyped ones
        q = pop.permuted(case["perm"])
        gt = list(q.taxa)
        ggrp = None if q.grp is None else list(q.grp)
        U = R.UNPHENO[s]
        if case["extra"] >= 1:
            gt = [U[0]] + gt
            ggrp = None if ggrp is None else [99] + ggrp
        if case["extra"] == 2:
            gt = gt[:-1] + [U[1]] + gt[-1:]
            ggrp = None if ggrp is None else ggrp[:-1] + [98] + ggrp[-1:]
        gobj = R.build_gmat(gt, ggrp, phased=True)
        if pop.grp is not None:
            gcol = "taxa_grp"
        else:   # ungrouped population: name the (all-null) group column phenotype() emitted, if it emitted one
            gcol = "taxa_grp" if (case["nullcol"] and "taxa_grp" in df.columns) else None
        prot = MeanPhenotypicBreedingValue("taxa", gcol, list(model.trait))
        try:
            out = prot.estimate(df, gobj)
            ctx.transitions += 1
            box["out"] = out
            oracle_estimate(out, gt, ggrp, list(model.trait), means, None, bool(case["nullcol"]), P=BV)
        except Exception as first:
            if case.get("reset", True):
                raise
            try:
                oracle_estimate(prot.estimate(df.reset_index(drop=True), gobj), gt, ggrp, list(model.trait), means, None,
                                bool(case["nullcol"]), P=BV)
            except Exception:
                raise first
            raise Violation(BV + "row-index-dependent",
                            f"phenotype() table re-ordered with iloc (index {df.index.tolist()}): {type(first).__name__}: "
                            f"{str(first)[:300]}; after reset_index the result is right")

    ok = ctx.guard(body, case=case, sig_prefix=P)
    ctx.state(digest(("B2", case["n"], case["labvar"], case["model"], nenv, nrep, case["perm"], case["extra"], case["nullcol"])))
    if "out" in box:
        ctx.outcome(digest((box["out"].taxa.tolist(), box["out"].unscale())))
    if case["perm"] != sorted(case["perm"]) or case["extra"]:
        ctx.nontriv(digest(("B2", case)))
    if ok:
        ctx.traces += 1
    ctx.count("exec:B2")
    if case["nullcol"]:
        ctx.flag("pipeline:null-group-column")
    ctx.flag(f"pipeline:extra{case['extra']}")
    ctx.flag("pipeline:index-reset" if case.get("reset", True) else "pipeline:index-kept")


def run_truebv(ctx, case):
    from pybrops.breed.prot.bv.TrueBreedingValue import TrueBreedingValue
    seed = case["seed"]
    kind, t, named = case["model"]
    pop = R.Pop(case["n"], case["labvar"], seed).permuted(case["perm"])
    model = R.Model(kind, t, named, seed)
    B = [[float(x) for x in row] for row in model.breeding(pop)]
    P = "TrueBreedingValue.estimate:"
    ctx.evaluations += 1
    box = {}

    def body():
        out = TrueBreedingValue(model.build()).estimate(None, R.build_pgmat(pop))
        ctx.transitions += 1
        box["out"] = out
        require(out.taxa.tolist() == pop.taxa, P + "taxa-alignment", f"taxa {out.taxa.tolist()}, genotype order {pop.taxa}")
        og = None if out.taxa_grp is None else out.taxa_grp.tolist()
        require(og == pop.grp, P + "taxa-alignment", f"taxa_grp {og}, genotype matrix has {pop.grp}")
        require((None if out.trait is None else out.trait.tolist()) == model.trait, P + "trait", f"trait {out.trait}")
        require(close(out.unscale(), numpy.array(B, dtype=float).reshape(pop.n, t)), P + "values",
                f"taxa {pop.taxa}: got {out.unscale().tolist()}, breeding values {B}")

    ok = ctx.guard(body, case=case, sig_prefix=P)
    ctx.state(digest(("TB", case["n"], case["labvar"], case["model"], case["perm"])))
    if "out" in box:
        ctx.outcome(digest((box["out"].taxa.tolist(), box["out"].unscale())))
    if ok:
        ctx.traces += 1
    ctx.count("exec:TB")


# ----------------------------------------------------------------------------
def finalize(ctx, tier, seed):
    f, c = ctx.flags, ctx.counters
    for layer in ("P1", "P2", "P3", "TP", "B1", "B2", "TB", "two-call", "H:GE", "H:TP"):
        assert c.get(f"exec:{layer}", 0) > 0, f"no execution in layer {layer}"
    need = [f"labvar:{lv}" for lv in R.LABVARS]
    need += ["model:AL1", "model:AL2", "model:ADL1", "model:ADL2", "model:AL2-unnamed"]
    need += ["nenv:1", "nenv:2", "nenv:3", "n:1", "n:2", "n:3", "n:4", "nrep:scalar", "nrep:array", "nrep:array-unequal"]
    need += ["rng:gen", "rng:rs", "rng:np-gen", "rng:np-rs", "rng:global", "tag:0", "tag:1", "tag:2"]
    need += [f"var_{k}:{x:g}" for k in ("env", "rep", "err") for x in R.VAR_LEVELS]
    need += ["all-variances-zero", "per-trait-variances-differ", "record-with-env+rep+err-parts", "two-call-history"]
    need += ["varform:None", "varform:scalar-float", "varform:scalar-int", "varform:array-f", "varform:array-i"]
    need += ["nrepform:int", "nrepform:int64", "nrepform:ndarray:int64", "nrepform:ndarray:int32"]
    need += [f"herit:{m}:{k}" for m in ("h2", "H2") for k in ("float", "int", "array", "dominance-model")]
    need += ["herit-target:0.2", "herit-target:0.5", "herit-target:1", "herit-skip"]
    need += [f"grpcol:{g}" for g in GRPCOLS] + [f"traits:{k}" for k in TRAITVARS] + [f"alpha:{k}" for k in range(4)]
    need += ["gt:none", "gt:unphenotyped-taxon", "gt:phenotyped-taxon-absent", "gt:order-differs-from-groupby-order",
             "gt:only-unphenotyped", "gt:grouped", "gt:duplicated-taxon", "gtgrp:0", "gtgrp:1", "gtgrp:2", "gtcls:0", "gtcls:1",
             "rows-all-orders", "rows-transposition-closure", "rows:1", "rows:6", "rows:7", "rows:8",
             "pipeline:null-group-column", "pipeline:extra0", "pipeline:extra1", "pipeline:extra2",
             "pipeline:index-reset", "pipeline:index-kept"]
    need += [f"index:{v}" for v in R.INDEX_VARIANTS]
    need += [f"history:{p}:{o}" for p in ("GE", "TP") for o in R.OPS_COMMON] + [f"history:GE:{o}" for o in R.OPS_GE]
    need += ["history:GE:two-ops", "history:TP:two-ops"]
    need += [f"copy:{p}:{h}" for p in ("GE", "TP") for h in R.COPY_VARIANTS] + ["copy:GE:nrep-differs-from-nenv"]
    need += [f"ploidy:{l}:{k}" for l in ("P2", "P3", "TP") for k in (1, 2, 4)]
    need += [f"herit:{m}:dominance-model:ploidy{k}" for m in ("h2", "H2") for k in (2, 4)]
    for x in need:
        assert x in f, f"alphabet element never exercised: {x}"
    assert c.get("heritability-cases:h2", 0) > 0 and c.get("heritability-cases:H2", 0) > 0
    assert c.get("draws-answered", 0) > 1000, c.get("draws-answered")
    assert c.get("estimate-cases-with-permuted-non-default-index", 0) > 1000
    assert len(ctx.outcomes) > 500, len(ctx.outcomes)
    assert len(ctx.nontrivial) > 500, len(ctx.nontrivial)


def replay(case, ctx):
    layer = case["layer"]
    if layer in ("P1", "P2", "P3"):
        run_trial(ctx, case)
    elif layer == "TP":
        run_truepheno(ctx, case)
    elif layer == "B1":
        run_estimate(ctx, case)
    elif layer == "B2":
        run_pipeline(ctx, case)
    elif layer == "TB":
        run_truebv(ctx, case)
    elif layer == "H":
        run_history(ctx, case)
    else:
        raise ValueError(layer)
