"""C13 — relationship matrices match their definitions and algebraic laws.

Complete small-scope input enumeration on the real code: every genotype matrix
{0,1,2}^(n x m) / {0,1}^(n x m) (unphased, ploidy 2 / 1) and {0,1}^(c x n x m) (phased,
c = 2 / 1) with n, m <= 3, x every reference-frequency argument (None, python / numpy
scalar, every array over a 4-value alphabet) x every marker-weight argument (None, scalars,
every array over a 3-value alphabet) through Molecular / VanRaden / Yang / generalised
weighted `from_gmat`, compared entry by entry with the published formulas evaluated in
Fractions; plus, per genotype matrix and estimator, the kinship view, symmetry, PSD, labels,
every taxon permutation and ordered sub-selection, the factories, and the summary methods
(inverse, max/min/mean, min/max inbreeding, is_positive_semidefinite) against exact
rational linear algebra; finally the genotype data of the same object are edited in place
and four estimators are asked again (nothing may remember the old matrix).

Two further layers leave the n,m <= 3 scope on purpose:
  sweep    dimension-dependent arithmetic: every marker count m = 1..300 (thorough 1..1100, plus 2^15-1,
           2^15+1, 2^16+1) x 5 structured genotype patterns x n in {2,3} x 4 kinds, and taxon counts
           n = 1..40 (80) plus 63..65, 127..129, 255..257 (511..513) x 3 patterns x m in {1,2}, through all
           four estimators (10 argument tuples) against the exact formulas evaluated per pair of distinct
           genotype rows (integer arithmetic) — a narrow accumulator that wraps at 2^7, 2^8, 2^15, 2^16 shows here;
  history  depth-2 histories on ONE coancestry object: all views, in-place operation, all views, in-place
           operation, all views, for all 9 x 9 operation pairs (reorder x2, sort, group, ungroup, mat setter,
           apply_jitter, remove_taxa, append_taxa), 5 estimator objects, 39 (thorough 193) genotype matrices;
           oracle: kinship view exactly half of the CURRENT matrix and every view / summary equal to that of a
           fresh object built from the current matrix and labels (whether an operation itself is right is C03's).
Every view round (and one deep case per estimator class in the enumeration) also runs the non-mutating oracle: each
accessor / summary / export — kinship(*args) and coancestry(*args) in 12 argument forms (int, (int,int), slices, reversed
slice, list, index arrays, boolean mask, Ellipsis), mat_asformat, inverse, max/min/mean in both formats and along every
axis, min/max_inbreeding, is_positive_semidefinite, copy, deepcopy, to_pandas / to_csv / to_hdf5 into a temporary
directory — is called twice; the canonical state (matrix bytes, labels, group metadata) must be bit-identical afterwards,
both calls must return the same value, and the accessors must return (half of) the indexed part of the matrix.
"""
from __future__ import annotations
import itertools, math
from fractions import Fraction
import numpy

from .. import compat  # noqa: F401
from ..core import Violation, require, digest, close
from ..ref import cmat as R

ID = "C13"
TECHNIQUE = ("complete small-scope input enumeration: all genotype matrices with n,m<=3 (unphased/phased, ploidy 1/2) x all "
             "reference-frequency / marker-weight arguments over small alphabets x all taxon permutations and ordered "
             "sub-selections, against the published formulas and exact inverses evaluated in fractions.Fraction")
RULE = ("one case = (genotype matrix, label variant, estimator, argument tuple): from_gmat on the real classes, every entry "
        "compared with the Fraction formula (molecular: literal enumeration of every allele pair drawn from two "
        "individuals); 'deep' cases (6 per genotype matrix) additionally run kinship/coancestry accessors, inverse / "
        "extreme / mean / inbreeding summaries in both formats, is_positive_semidefinite, the factory, and from_gmat of every "
        "permuted / sub-selected genotype matrix; after all cases of a genotype matrix its first taxon is complemented in place "
        "and 4 estimators are re-evaluated against the formulas of the edited matrix; sweep layer: one case per (kind, pattern, "
        "n, m, estimator, arguments) for every marker count / listed taxon count; history layer: one case per (genotype matrix, "
        "estimator object, ordered pair of in-place operations) with all views compared after every step; cases whose formula divides by zero (VanRaden: sum p(1-p)=0, Yang: some "
        "p(1-p)=0) are excluded and counted; distinct = (kind, n, m, matrix index, labels, estimator, arguments); "
        "non-trivial = the reference matrix is not a multiple of the all-ones matrix")
ASSUME = ["floats compared with rel 1e-9 / abs 1e-12; kinship = coancestry/2 compared exactly (halving is exact in binary64)",
          "Yang estimator: the library documents the off-diagonal formula of Yang et al. (2010) for every entry (diagonal "
          "included); the reference follows that documented formula",
          "inverse / min_inbreeding are compared only where the exact reference matrix is non-singular (otherwise counted "
          "as skipped); is_positive_semidefinite is compared only where the answer does not hinge on rounding (exactly "
          "non-singular matrix -> True, tolerance above the largest eigenvalue -> False)",
          "reference frequencies in [0,1], marker weights >= 0; allele frequencies estimated from the data are "
          "count/(ploidy*n) (afreq itself belongs to C09)",
          "mc/compat.py restores removed numpy names only"]

KINDS = ("U2", "U1", "P2", "P1")                         # unphased/phased x ploidy
EST = ("Molecular", "VanRaden", "Yang", "GeneralizedWeighted")
PALPHA = [[0.0, 0.25, 0.5, 1.0], [0.0, 0.125, 0.75, 1.0], [0.0, 0.3, 0.5, 1.0]]
WALPHA = [[0.0, 1.0, 2.0], [0.0, 0.5, 3.0], [0.0, 1.0, 2.5]]
NAMES = [["a", "b", "c"], ["T3", "T1", "T2"], ["x", "xx", "w"]]
GROUPS = [[7, 3, 7], [1, 1, 2], [5, 9, 2]]


def _cls(name):
    import importlib
    if name.endswith("Factory"):
        return getattr(importlib.import_module(f"pybrops.popgen.cmat.fcty.Dense{name[:-7]}CoancestryMatrixFactory"), f"Dense{name[:-7]}CoancestryMatrixFactory")
    return getattr(importlib.import_module(f"pybrops.popgen.cmat.Dense{name}CoancestryMatrix"), f"Dense{name}CoancestryMatrix")


def _gcls(kind):
    if kind[0] == "U":
        from pybrops.popgen.gmat.DenseGenotypeMatrix import DenseGenotypeMatrix
        return DenseGenotypeMatrix
    from pybrops.popgen.gmat.DensePhasedGenotypeMatrix import DensePhasedGenotypeMatrix
    return DensePhasedGenotypeMatrix


def n_matrices(kind, n, m):
    c = int(kind[1])
    return (c + 1) ** (n * m) if kind[0] == "U" else 2 ** (c * n * m)


def decode(kind, n, m, idx):
    c = int(kind[1])
    if kind[0] == "U":
        base, shape = c + 1, (n, m)
    else:
        base, shape = 2, (c, n, m)
    size = int(numpy.prod(shape))
    digs = []
    for _ in range(size):
        digs.append(idx % base)
        idx //= base
    return numpy.array(digs, dtype="int8").reshape(shape)


# ----------------------------------------------------------------------------
# argument plans (index-structured; the seed only picks the alphabets)
def _arrays(alpha, m, level, patterns):
    full = list(itertools.product(range(len(alpha)), repeat=m))
    if level == "full" or len(full) <= 16:
        return full
    out = []
    for pat in patterns:
        t = tuple(pat[j % len(pat)] % len(alpha) for j in range(m))
        if t not in out:
            out.append(t)
    return out


P_PATTERNS = [(1, 2, 3), (0, 2, 0), (2, 1, 2), (3, 0, 1), (1, 1, 2), (2, 2, 2)]
W_PATTERNS = [(1, 2, 0), (2, 1, 1), (0, 0, 1), (2, 2, 2)]


def p_options(m, level):
    """reference-frequency arguments as (form, index tuple or scalar index)"""
    opts = [("none", None), ("scalar", 1), ("npscalar", 2)]
    opts += [("array", t) for t in _arrays(range(4), m, level, P_PATTERNS)]
    return opts


def w_options(m, level):
    opts = [("none", None), ("scalar", 1), ("intscalar", 2)]
    opts += [("array", t) for t in _arrays(range(3), m, level, W_PATTERNS)]
    return opts


def plan(m, level):
    """-> list of (estimator, args, deep) ; args = dict of (form, index) entries"""
    out = [("Molecular", {}, True)]
    for p in p_options(m, level):
        out.append(("VanRaden", {"p": p}, p[0] in ("none", "scalar")))
    for p in p_options(m, level):
        out.append(("Yang", {"p": p}, p[0] == "scalar"))
    wstar = ("array", tuple((2, 1, 0)[j % 3] for j in range(m)))
    wl = w_options(m, level)
    pl = p_options(m, level) + [("intscalar", 1), ("scalar", 0)]
    seen = set()

    def add(w, f, deep=False):
        key = (w, f)
        if key not in seen:
            seen.add(key)
            out.append(("GeneralizedWeighted", {"w": w, "f": f}, deep))
    add(("none", None), ("none", None), True)
    add(wstar, ("scalar", 1), True)
    for w in wl:
        add(w, ("none", None))
    for w in wl:
        if w[0] == "array":
            add(w, ("npscalar", 2))
    for f in pl:
        add(("none", None), f)
    for f in pl:
        if f[0] == "array":
            add(wstar, f)
    return out


def materialise(form_idx, alpha, m):
    """-> (library argument, reference vector of Fractions or None for 'estimate from data')"""
    form, ix = form_idx
    if form == "none":
        return None, None
    if form == "scalar":
        v = float(alpha[ix])
        return v, [Fraction(v)] * m
    if form == "npscalar":
        v = numpy.float64(alpha[ix])
        return v, [Fraction(float(v))] * m
    if form == "intscalar":
        return int(ix), [Fraction(int(ix))] * m
    if form == "cycarray":                       # a short index pattern repeated along the markers (sweeps)
        ix = tuple(ix[j % len(ix)] for j in range(m))
    vals = [float(alpha[i]) for i in ix]
    return numpy.array(vals, dtype="float64"), [Fraction(v) for v in vals]


# ----------------------------------------------------------------------------
class GmatCase:
    def __init__(self, kind, n, m, idx, labelvar, seed, arr=None, extra=None):
        """arr: explicit genotype array (sweeps) instead of matrix number idx; extra: fields added to case()"""
        self.kind, self.n, self.m, self.idx, self.labelvar, self.seed = kind, n, m, idx, labelvar, seed
        self.c = int(kind[1])
        self.extra = extra
        self.tmap = None
        if arr is None:
            arr = decode(kind, n, m, idx)
        self.gm = self.make(arr, self.labels(list(range(n))))
        if labelvar == 2:
            self.gm.group_taxa()
        self.snap = self.gm.mat.copy()
        self.refresh(reduce=extra is not None)

    def refresh(self, reduce=False):
        """(re)read the genotype data of the object into the reference model"""
        self.A = self.alleles(self.gm.mat)
        self.a = R.counts(self.A)
        self.pdata = R.freq_from_data(self.a, self.c)
        if reduce:                                  # few distinct genotype rows: evaluate per pair of row types
            reps, self.tmap = R.row_types(self.A)
            self.A_t, self.a_t = reps, R.counts(reps)

    def labels(self, rows):
        if self.labelvar == 0:
            return None, None
        nm, gr = NAMES[self.seed % 3], GROUPS[self.seed % 3]
        names = numpy.array([nm[i] if i < 3 else f"{nm[i % 3]}{i}" for i in rows], dtype=object)
        if self.labelvar == 3:                      # names without group labels
            return names, None
        return (names, numpy.array([gr[i % 3] for i in rows], dtype="int64"))

    def make(self, arr, lab):
        cls = _gcls(self.kind)
        kw = dict(taxa=lab[0], taxa_grp=lab[1])
        if self.kind[0] == "U":
            kw["ploidy"] = self.c
        return cls(numpy.ascontiguousarray(arr, dtype="int8"), **kw)

    def alleles(self, mat):
        if self.kind[0] == "U":
            return [[[1] * int(v) + [0] * (self.c - int(v)) for v in row] for row in mat.tolist()]
        c, n, m = mat.shape
        return [[[int(mat[ph, i, l]) for ph in range(c)] for l in range(m)] for i in range(n)]

    def case(self, est, args):
        out = dict(kind=self.kind, n=self.n, m=self.m, idx=int(self.idx), labelvar=self.labelvar, seed=self.seed,
                   est=est, args={k: [v[0], (list(v[1]) if isinstance(v[1], tuple) else v[1])] for k, v in args.items()})
        if self.extra:
            out.update(self.extra)
        return out


def reference(G: GmatCase, est, args, a=None, pdata=None, A=None):
    """-> (library kwargs, exact reference matrix or None if the formula's denominator vanishes)"""
    if G.tmap is not None and a is None:
        kw, Gt = reference(G, est, args, a=G.a_t, pdata=G.pdata, A=G.A_t)
        return kw, (None if Gt is None else R.expand(Gt, G.tmap))
    a = G.a if a is None else a
    pdata = G.pdata if pdata is None else pdata
    A = G.A if A is None else A
    pal, wal = PALPHA[G.seed % 3], WALPHA[G.seed % 3]
    if est == "Molecular":
        return {}, R.molecular(A)
    if est in ("VanRaden", "Yang"):
        lib, p = materialise(args["p"], pal, G.m)
        p = pdata if p is None else p
        kw = {} if args["p"][0] == "none" else {"p_anc": lib}
        return kw, (R.vanraden if est == "VanRaden" else R.yang)(a, G.c, p)
    libw, w = materialise(args["w"], wal, G.m)
    libf, f = materialise(args["f"], pal, G.m)
    kw = {}
    if args["w"][0] != "none":
        kw["mkrwt"] = libw
    if args["f"][0] != "none":
        kw["afreq"] = libf
    return kw, R.gweighted(a, G.c, pdata if f is None else f, [Fraction(1)] * G.m if w is None else w)


def reestimates(est, args):
    """True when the estimator derives reference frequencies from the data (then only permutations commute)."""
    if est == "Molecular":
        return False
    if est == "GeneralizedWeighted":
        return args["f"][0] == "none"
    return args["p"][0] == "none"


def _lab_equal(x, y):
    if x is None or y is None:
        return x is None and y is None
    return x.shape == y.shape and x.tolist() == y.tolist()


def check_estimate(ctx, G: GmatCase, est, args, deep):
    P = f"Dense{est}CoancestryMatrix"
    if G.tmap is not None:
        # sweep case: few distinct genotype rows -> exact reference per pair of row types, expanded as floats
        assert not deep
        kw, ref_t = reference(G, est, args, a=G.a_t, pdata=G.pdata, A=G.A_t)
        ref = None
        if ref_t is None:
            ctx.count(f"excluded:{est}:zero-denominator")
            return None
    else:
        kw, ref = reference(G, est, args)
        if ref is None:
            ctx.count(f"excluded:{est}:zero-denominator")
            return None
    cls = _cls(est)
    gm = G.gm
    lab0 = [None if v is None else v.copy() for v in (gm.taxa, gm.taxa_grp, gm.taxa_grp_name, gm.taxa_grp_stix, gm.taxa_grp_spix, gm.taxa_grp_len)]
    kw0 = {k: (v.copy() if isinstance(v, numpy.ndarray) else v) for k, v in kw.items()}
    cm = cls.from_gmat(gm, **kw)
    ctx.transitions += 1
    n = G.n
    if ref is None:
        tix = numpy.array(G.tmap, dtype="int64")
        reff = numpy.array(R.to_float(ref_t), dtype="float64").reshape(len(ref_t), len(ref_t))[numpy.ix_(tix, tix)]
    else:
        reff = numpy.array(R.to_float(ref), dtype="float64").reshape(n, n)
    mat = cm.mat
    require(isinstance(cm, cls), P + ".from_gmat:type", lambda: f"returned {type(cm).__name__}")
    require(isinstance(mat, numpy.ndarray) and mat.shape == (n, n) and mat.dtype == numpy.float64, P + ".from_gmat:shape", lambda: f"{getattr(mat, 'shape', None)} {getattr(mat, 'dtype', None)}")
    require(_near(mat, reff), P + ".from_gmat:value",
            lambda: _value_detail(G, kw, mat, reff))
    require(_near(mat, mat.T), P + ".from_gmat:symmetry", lambda: f"{mat.tolist()}")
    ev = numpy.linalg.eigvalsh(0.5 * (mat + mat.T))
    require(float(ev.min()) >= -1e-10 * max(1.0, float(numpy.trace(mat))), P + ".from_gmat:psd", lambda: f"eigenvalues {ev.tolist()} of {mat.tolist()}")
    got = (cm.taxa, cm.taxa_grp, cm.taxa_grp_name, cm.taxa_grp_stix, cm.taxa_grp_spix, cm.taxa_grp_len)
    require(all(_lab_equal(x, y) for x, y in zip(got, lab0)), P + ".from_gmat:labels",
            lambda: f"taxa/taxa_grp/group metadata {[None if v is None else v.tolist() for v in got]} differ from the source's {[None if v is None else v.tolist() for v in lab0]}")
    require(numpy.array_equal(gm.mat, G.snap) and all(_lab_equal(x, y) for x, y in zip((gm.taxa, gm.taxa_grp), lab0[:2])),
            P + ".from_gmat:input-mutated", "from_gmat changed the genotype matrix")
    require(all((numpy.array_equal(kw[k], kw0[k]) if isinstance(kw0[k], numpy.ndarray) else kw[k] == kw0[k]) for k in kw),
            P + ".from_gmat:input-mutated", "from_gmat changed its p_anc / mkrwt / afreq argument")
    # kinship view is exactly half the coancestry view
    B = "DenseCoancestryMatrix"
    K = cm.mat_asformat("kinship")
    C = cm.mat_asformat("coancestry")
    ctx.transitions += 2
    require(numpy.array_equal(C, mat), B + ".mat_asformat:coancestry", "coancestry view differs from mat")
    require(K.shape == mat.shape and numpy.array_equal(K, mat / 2.0), B + ".mat_asformat:kinship-half", lambda: f"kinship {K.tolist()} is not half of {mat.tolist()}")
    if float(reff.min()) != float(reff.max()):
        ctx.count("nontrivial-cases")
        if deep:
            ctx.nontriv((G.kind, n, G.m, G.idx, G.labelvar, est))
    if deep:
        ctx.outcome(mat.tobytes())
        _deep(ctx, G, est, args, kw, cm, ref, reff)
    return cm


def _value_detail(G, kw, mat, reff):
    if mat.size <= 16 and G.gm.mat.size <= 40:
        return f"genotypes {G.gm.mat.tolist()} ploidy {G.c} args {_show(kw)}: got {mat.tolist()}, published formula gives {reff.tolist()}"
    bad = numpy.argwhere(~(numpy.abs(mat - reff) <= 1e-12 + 1e-9 * numpy.abs(reff)))
    i, j = (int(v) for v in bad[0])
    return (f"{G.n} taxa x {G.m} markers ({G.extra}) ploidy {G.c} args {list(kw)}: entry ({i},{j}) = {mat[i, j]!r}, published formula gives "
            f"{reff[i, j]!r}; {len(bad)} of {mat.size} entries differ")


def _near(x, y):
    """rel 1e-9 / abs 1e-12 closeness of two finite float arrays of equal shape (fast path of core.close)."""
    return x.shape == y.shape and bool((numpy.abs(x - y) <= 1e-12 + 1e-9 * numpy.abs(y)).all())


def _show(kw):
    return {k: (v.tolist() if isinstance(v, numpy.ndarray) else v) for k, v in kw.items()}


def _deep(ctx, G, est, args, kw, cm, ref, reff):
    B = "DenseCoancestryMatrix"
    P = f"Dense{est}CoancestryMatrix"
    n = G.n
    mat0 = cm.mat.copy()
    if est in ("Molecular", "Yang") or all(v[0] == "none" for v in args.values()):      # one object per estimator class
        _nonmutating(ctx, cm, "from_gmat", exports=(est == "Molecular" and G.n * G.m <= 4))
    # accessors
    for i in range(n):
        for j in range(n):
            require(cm.coancestry(i, j) == mat0[i, j], B + ".coancestry:value", lambda: f"coancestry({i},{j})")
            require(cm.kinship(i, j) == mat0[i, j] / 2.0, B + ".kinship:half", lambda: f"kinship({i},{j}) = {cm.kinship(i, j)!r}, coancestry {mat0[i, j]!r}")
    ctx.transitions += 2 * n * n
    # extreme values / mean in both formats and along every axis
    for fmt, s in (("coancestry", 1.0), ("kinship", 0.5)):
        for axis in (None, 0, 1):
            for meth, fn in (("max", numpy.max), ("min", numpy.min), ("mean", numpy.mean)):
                got = getattr(cm, meth)(format=fmt, axis=axis)
                ctx.transitions += 1
                exp = s * fn(reff, axis=axis)
                require(numpy.shape(got) == numpy.shape(exp) and _near(numpy.asarray(got, dtype=float), numpy.asarray(exp, dtype=float)), f"{B}.{meth}:value", lambda: f"{meth}(format={fmt!r}, axis={axis}) = {got!r}, expected {exp!r}")
        got = cm.mean(format=fmt, dtype="float64")
        require(close(got, s * reff.mean()), B + ".mean:value", lambda: f"mean(dtype=float64, {fmt}) = {got!r}")
        got = cm.max_inbreeding(format=fmt)
        ctx.transitions += 2
        require(close(got, s * max(float(ref[i][i]) for i in range(n))), B + ".max_inbreeding:value", lambda: f"max_inbreeding({fmt}) = {got!r}")
    require(numpy.array_equal(cm.mat, mat0), B + ":summary-mutated-matrix", "max/min/mean changed the matrix")
    # inverse and minimum attainable inbreeding, where the exact matrix is invertible
    inv = R.inverse(ref)
    if inv is None:
        ctx.count("skipped:singular-matrix(inverse,min_inbreeding)")
    else:
        invf = numpy.array(R.to_float(inv), dtype="float64").reshape(n, n)
        scale = float(numpy.abs(invf).max())
        for fmt, s in (("coancestry", 1.0), ("kinship", 2.0)):
            got = cm.inverse(format=fmt)
            ctx.transitions += 1
            require(got.shape == (n, n) and bool(numpy.all(numpy.abs(got - s * invf) <= 1e-9 * s * scale + 1e-12)), B + ".inverse:value",
                    lambda: f"inverse({fmt}) = {got.tolist()}, exact inverse {(s * invf).tolist()} of {reff.tolist()}")
        tot = sum(sum(row) for row in inv)
        if tot != 0:
            for fmt, s in (("coancestry", 1.0), ("kinship", 0.5)):
                got = cm.min_inbreeding(format=fmt)
                ctx.transitions += 1
                exp = s * float(1 / tot)
                require(abs(got - exp) <= 1e-9 * abs(exp) * max(1.0, scale * float(numpy.abs(reff).max())) + 1e-12, B + ".min_inbreeding:value",
                        f"min_inbreeding({fmt}) = {got!r}, 1/(1'G^-1 1) = {exp!r}")
            ctx.flag("deep:min_inbreeding")
        ctx.flag("deep:inverse")
        # a non-singular PSD matrix is positive definite: the answer does not hinge on rounding
        lam = float(numpy.linalg.eigvalsh(reff).min())
        if lam > 1e-6:
            for tol in (None, 0.0, -3.0):
                got = cm.is_positive_semidefinite() if tol is None else cm.is_positive_semidefinite(tol)
                ctx.transitions += 1
                require(bool(got) is True, B + ".is_positive_semidefinite:value", lambda: f"eigvaltol={tol}: {got!r} for the positive definite {reff.tolist()}")
            ctx.flag("deep:psd-true")
    big = 10.0 * max(1.0, float(numpy.abs(reff).sum()))
    got = cm.is_positive_semidefinite(big)
    ctx.transitions += 1
    require(bool(got) is False, B + ".is_positive_semidefinite:value", lambda: f"eigvaltol={big} above every eigenvalue but the answer is {got!r}")
    require(numpy.array_equal(cm.mat, mat0), B + ":summary-mutated-matrix", "inverse / inbreeding / psd changed the matrix")
    # factory = classmethod
    fac = _cls(est + "Factory")()
    cf = fac.from_gmat(G.gm, **kw)
    ctx.transitions += 1
    require(type(cf) is type(cm) and numpy.array_equal(cf.mat, mat0) and _lab_equal(cf.taxa, cm.taxa) and _lab_equal(cf.taxa_grp, cm.taxa_grp),
            f"Dense{est}CoancestryMatrixFactory.from_gmat:differs", "factory result differs from the classmethod")
    # equivariance under every ordered selection of taxa (permutations and sub-selections)
    base = G.gm.mat
    re = reestimates(est, args)
    snap0 = _snap(cm)
    for k in range(1, n + 1):
        for sel in itertools.permutations(range(n), k):
            sel = list(sel)
            # compute-then-select on the coancestry object itself: select_taxa / select with every numpy-valid integer
            # index form (non-negative array, negative array, mixed list) is pure indexing of the computed matrix
            want = mat0[numpy.ix_(sel, sel)]
            forms = [("array", numpy.array(sel, dtype="int64")), ("negative-array", numpy.array([i - n for i in sel], dtype="int64")),
                     ("mixed-list", [(i - n if q % 2 == 0 else i) for q, i in enumerate(sel)])]
            for fname, ix in forms:
                for mname, call in (("select_taxa", lambda ix=ix: cm.select_taxa(ix)), ("select", lambda ix=ix: cm.select(ix, axis=len(sel) % 2))):
                    sub_cm = call()
                    ctx.transitions += 1
                    require(type(sub_cm) is type(cm) and sub_cm.mat.shape == want.shape and _near(sub_cm.mat, want), f"DenseSquareTaxaMatrix.{mname}:compute-then-select",
                            lambda: f"{mname}({ix!r}) [{fname}] of {mat0.tolist()} gives {sub_cm.mat.tolist()}, rows/columns {sel} are {want.tolist()}")
                    require(_lab_equal(sub_cm.taxa, None if cm.taxa is None else cm.taxa[sel]) and _lab_equal(sub_cm.taxa_grp, None if cm.taxa_grp is None else cm.taxa_grp[sel]),
                            f"DenseSquareTaxaMatrix.{mname}:compute-then-select-labels", lambda: f"{mname}({ix!r}): labels {sub_cm.taxa} / {sub_cm.taxa_grp}")
                ctx.flag("select:" + fname)
            require(_snap(cm) == snap0, f"DenseSquareTaxaMatrix.select_taxa:mutates-object", "select_taxa / select changed the object it selects from")
            if k == n and sel == list(range(n)):
                continue
            if re and k < n:
                continue
            sub = base[sel] if G.kind[0] == "U" else base[:, sel]
            lab = (None if G.gm.taxa is None else G.gm.taxa[sel].copy(), None if G.gm.taxa_grp is None else G.gm.taxa_grp[sel].copy())
            gsub = G.make(sub, lab)
            kind = "permutation" if k == n else "subselection"
            c2 = _cls(est).from_gmat(gsub, **kw)
            # select-then-compute through the genotype matrix's own select_taxa with negative indices
            c3 = _cls(est).from_gmat(G.gm.select_taxa(numpy.array([i - n for i in sel], dtype="int64")), **kw)
            require(_near(c3.mat, c2.mat) and _lab_equal(c3.taxa, c2.taxa), P + ".from_gmat:select-then-compute-negative-indices",
                    lambda: f"taxa {[i - n for i in sel]} selected on the genotype matrix: {c3.mat.tolist()} vs {c2.mat.tolist()}")
            ctx.transitions += 4
            ctx.evaluations += 1
            require(_near(c2.mat, mat0[numpy.ix_(sel, sel)]), P + ".from_gmat:" + kind,
                    lambda: f"taxa {sel}: from_gmat of the selected genotypes {c2.mat.tolist()} != selected rows/columns {mat0[numpy.ix_(sel, sel)].tolist()}")
            require(_lab_equal(c2.taxa, lab[0]) and _lab_equal(c2.taxa_grp, lab[1]), P + ".from_gmat:" + kind + "-labels", lambda: f"taxa {sel}: labels {c2.taxa}")
            ctx.flag("deep:" + kind)
    ctx.flag(f"deep:{est}")


# ----------------------------------------------------------------------------
def run_gmat(ctx, kind, n, m, idx, labelvar, level, seed, only=None, force_deep=False, allow_deep=True):
    G = GmatCase(kind, n, m, idx, labelvar, seed)
    ctx.transitions += 1
    skey = digest((kind, n, m, idx, labelvar))
    ctx.state(skey)
    allok = True
    for est, args, deep in plan(m, level):
        if only is not None and (est, args) != only:
            continue
        deep = (deep and allow_deep) or force_deep
        ctx.evaluations += 1
        case = G.case(est, args)
        ok = ctx.guard(lambda: check_estimate(ctx, G, est, args, deep), case=case, sig_prefix=f"Dense{est}CoancestryMatrix.from_gmat:")
        allok &= ok
        ctx.count(f"cases:{est}")
        for k, v in args.items():
            ctx.flag(f"arg:{est}:{k}:{v[0]}")
    if allow_deep and only is None:
        allok &= _edit_stage(ctx, G)
    if allok:
        ctx.traces += 1
    ctx.flag(f"kind:{kind}")
    ctx.flag(f"labels:{labelvar}")
    ctx.flag(f"shape:{n}x{m}")
    if idx % 997 == 5 % n_matrices(kind, n, m):
        ctx.sample(dict(kind=kind, n=n, m=m, genotypes=G.gm.mat.tolist(), molecular=R.to_float(R.molecular(G.A)),
                        vanraden_p_from_data=(None if R.vanraden(G.a, G.c, G.pdata) is None else R.to_float(R.vanraden(G.a, G.c, G.pdata)))))


# ----------------------------------------------------------------------------
# dimension sweeps: structured genotype patterns with few distinct rows, every marker count / many taxon counts
PATTERNS_M = ("identical-hom", "complementary", "one-het", "alternating", "mixed")
PATTERNS_N = ("two-lines", "cycle", "one-odd")
SWEEP_PLAN = [("Molecular", {}),
              ("VanRaden", {"p": ("none", None)}), ("VanRaden", {"p": ("scalar", 1)}), ("VanRaden", {"p": ("cycarray", (1, 2, 3))}),
              ("Yang", {"p": ("none", None)}), ("Yang", {"p": ("scalar", 1)}), ("Yang", {"p": ("cycarray", (1, 2))}),
              ("GeneralizedWeighted", {"w": ("none", None), "f": ("none", None)}),
              ("GeneralizedWeighted", {"w": ("cycarray", (1, 2, 0)), "f": ("scalar", 1)}),
              ("GeneralizedWeighted", {"w": ("none", None), "f": ("cycarray", (1, 2, 3))})]
SWEEP_PLAN_BIG = [SWEEP_PLAN[0], SWEEP_PLAN[2], SWEEP_PLAN[7]]


def pattern_counts(name, n, m, c):
    """allele counts (n x m) of a structured pattern for ploidy c"""
    if name == "identical-hom":
        return [[c] * m for _ in range(n)]
    if name in ("complementary", "two-lines"):
        if name == "two-lines":
            return [[(c if (l + i) % 2 == 0 else 0) for l in range(m)] for i in range(n)]
        return [[c if i % 2 == 0 else 0] * m for i in range(n)]
    if name == "one-het":
        het = [c // 2 if c > 1 else (l % 2) for l in range(m)]
        return [het] + [[c] * m for _ in range(n - 1)]
    if name == "alternating":
        rows = [[c if (i + l) % 2 == 0 else 0 for l in range(m)] for i in range(min(n, 2))]
        return rows + [[(l % (c + 1)) for l in range(m)] for _ in range(n - 2)]
    if name == "mixed":
        return [[(i + l) % (c + 1) for l in range(m)] for i in range(n)]
    if name == "cycle":
        return [[(i + l) % (c + 1) for l in range(m)] for i in range(n)]
    if name == "one-odd":
        return [[c] * m for _ in range(n - 1)] + [[0] + [c // 2] * (m - 1)]
    raise ValueError(name)


def counts_to_array(kind, counts):
    a = numpy.array(counts, dtype="int8")
    if kind[0] == "U":
        return a
    c = int(kind[1])
    return numpy.stack([(a > k).astype("int8") for k in range(c)], axis=0)


def run_sweep_case(ctx, kind, pattern, n, m, seed, plan, only=None):
    c = int(kind[1])
    arr = counts_to_array(kind, pattern_counts(pattern, n, m, c))
    G = GmatCase(kind, n, m, -1, 1, seed, arr=arr, extra=dict(layer="sweep", pattern=pattern))
    ctx.transitions += 1
    ctx.state(digest(("sweep", kind, pattern, n, m)))
    allok = True
    for est, args in plan:
        if only is not None and (est, args) != only:
            continue
        ctx.evaluations += 1
        ok = ctx.guard(lambda: check_estimate(ctx, G, est, args, False), case=G.case(est, args), sig_prefix=f"Dense{est}CoancestryMatrix.from_gmat:")
        allok &= ok
        ctx.count(f"sweep-cases:{est}")
    if allok:
        ctx.traces += 1
    ctx.flag(f"sweep:pattern:{pattern}")
    ctx.flag(f"sweep:kind:{kind}")


def m_grid(tier):
    return list(range(1, (1100 if tier == "thorough" else 300) + 1))


BIG_M = (2 ** 15 - 1, 2 ** 15 + 1, 2 ** 16 + 1)


def n_grid(tier):
    small = list(range(1, (80 if tier == "thorough" else 40) + 1))
    big = [63, 64, 65, 127, 128, 129, 255, 256, 257] + ([511, 512, 513] if tier == "thorough" else [])
    return small + [v for v in big if v not in small]


def sweep_shards(tier):
    out = []
    ms = m_grid(tier)
    step = 50 if tier == "thorough" else 25
    for kind in KINDS:
        for i in range(0, len(ms), step):
            out.append(("sweepm", kind, ms[i], ms[min(len(ms), i + step) - 1]))
    for kind in ("U2", "P2"):
        out.append(("sweepm-big", kind))
    ns = n_grid(tier)
    for kind in KINDS:
        out.append(("sweepn", kind, [v for v in ns if v <= 80]))
    for kind in ("U2", "P2"):
        for v in ns:
            if v > 80:
                out.append(("sweepn", kind, [v]))
    return out


def run_sweep_shard(spec, ctx):
    seed = ctx.seed
    if spec[0] == "sweepm":
        _, kind, lo, hi = spec
        for m in range(lo, hi + 1):
            for n in (2, 3):
                for pat in PATTERNS_M:
                    run_sweep_case(ctx, kind, pat, n, m, seed, SWEEP_PLAN)
            ctx.count("sweep:marker-counts" if kind == "U2" else "sweep:marker-counts:" + kind)
        ctx.flag("sweep:m>=128" if hi >= 128 else "sweep:m<128")
    elif spec[0] == "sweepm-big":
        for m in BIG_M:
            for pat in ("complementary", "alternating"):
                run_sweep_case(ctx, spec[1], pat, 2, m, seed, SWEEP_PLAN_BIG)
        ctx.flag("sweep:m>=2^15")
    else:
        _, kind, ns = spec
        for n in ns:
            for m in ((1, 2) if n <= 80 else (2,)):
                for pat in (PATTERNS_N if n <= 80 else PATTERNS_N[:2]):
                    run_sweep_case(ctx, kind, pat, n, m, seed, SWEEP_PLAN)
            ctx.count("sweep:taxon-counts" if kind == "U2" else "sweep:taxon-counts:" + kind)
            if n >= 128:
                ctx.flag("sweep:n>=128")


# ----------------------------------------------------------------------------
# histories on ONE coancestry object: views, in-place operation, views, in-place operation, views
HIST_OPS = ("reorder-rotate", "reorder-reverse", "sort_taxa", "group_taxa", "ungroup_taxa", "mat-setter", "apply_jitter",
            "remove_taxa", "append_taxa")
HIST_EST = [("Molecular", {}), ("VanRaden", {"p": ("none", None)}), ("VanRaden", {"p": ("scalar", 1)}),
            ("Yang", {"p": ("scalar", 1)}), ("GeneralizedWeighted", {"w": ("none", None), "f": ("none", None)})]


def _apply_op(cm, op, other):
    """apply one in-place operation of the public API; returns False when it is not applicable to the current size"""
    n = cm.mat.shape[0]
    if op == "reorder-rotate":
        cm.reorder_taxa(numpy.roll(numpy.arange(n), -1))
    elif op == "reorder-reverse":
        cm.reorder_taxa(numpy.arange(n)[::-1].copy())
    elif op == "sort_taxa":
        if cm.taxa is None and cm.taxa_grp is None:
            return False
        cm.sort_taxa()
    elif op == "group_taxa":
        if cm.taxa_grp is None:
            return False
        cm.group_taxa()
    elif op == "ungroup_taxa":
        cm.ungroup_taxa()
    elif op == "mat-setter":
        cm.mat = 2.0 * cm.mat + numpy.eye(n)
    elif op == "apply_jitter":
        numpy.random.seed(20240 + n)                  # apply_jitter draws from the global stream; pinned for determinism
        cm.apply_jitter()
    elif op == "remove_taxa":
        if n < 2:
            return False
        cm.remove_taxa(0)
    elif op == "append_taxa":
        if n > 3 or not _lab_kind_equal(cm, other):
            return False
        cm.append_taxa(other)
    else:
        raise ValueError(op)
    return True


def _lab_kind_equal(a, b):
    return (a.taxa is None) == (b.taxa is None) and (a.taxa_grp is None) == (b.taxa_grp is None)


def _snap(cm):
    """canonical state of a coancestry object, cheap to compare"""
    def lab(v):
        return None if v is None else (str(v.dtype), tuple(v.tolist()))
    return (cm.mat.shape, str(cm.mat.dtype), cm.mat.tobytes(), lab(cm.taxa), lab(cm.taxa_grp), lab(cm.taxa_grp_name),
            lab(cm.taxa_grp_stix), lab(cm.taxa_grp_spix), lab(cm.taxa_grp_len))


_SNAP_FIELDS = ("mat.shape", "mat.dtype", "mat", "taxa", "taxa_grp", "taxa_grp_name", "taxa_grp_stix", "taxa_grp_spix", "taxa_grp_len")


def _freeze(v):
    """private copy of a returned value (an accessor may hand out a view of the matrix)"""
    if v is None or isinstance(v, (bool, str)):
        return v
    if hasattr(v, "equals"):                       # pandas
        return v.copy()
    if hasattr(v, "mat") and hasattr(v, "taxa"):   # a matrix object (copy / deepcopy)
        return ("obj", type(v).__name__, _snap(v))
    return numpy.array(v, copy=True)


def _same_value(a, b):
    if a is None or b is None or isinstance(a, (bool, str, tuple)):
        return type(a) is type(b) and a == b
    if hasattr(a, "equals"):
        return bool(a.equals(b))
    a, b = numpy.asarray(a), numpy.asarray(b)
    return a.shape == b.shape and bool(numpy.array_equal(a, b, equal_nan=(a.dtype.kind == "f")))


def accessor_forms(n):
    """argument forms of kinship(*args) / coancestry(*args): everything numpy indexing of the matrix accepts"""
    r = numpy.arange(n)
    return [("int", (n - 1,)), ("int,int", (n - 1, 0)), ("slice", (slice(None),)), ("slice,int", (slice(0, n), 0)),
            ("int,slice", (0, slice(None))), ("slice,slice", (slice(None), slice(0, n))), ("reversed-slice", (slice(None, None, -1),)),
            ("list", ([0, n - 1],)), ("ndarray,ndarray", (r, r[::-1].copy())), ("bool-mask", (r % 2 == 0,)), ("ellipsis", (Ellipsis,)),
            ("ellipsis,int", (Ellipsis, 0))]


def _nonmutating(ctx, cm, done, exports=False):
    """query - call a documented non-mutating accessor / summary / export - query again: the canonical state of the
    object must be bit-identical after every call, the same call repeated must return the same value, and the
    accessors must return (half of) the indexed part of the matrix for every argument form."""
    import os, tempfile
    B = "DenseCoancestryMatrix"
    n = cm.mat.shape[0]
    mat0 = cm.mat.copy()
    calls = []
    for form, args in accessor_forms(n):
        calls.append((f"kinship({form})", lambda args=args: cm.kinship(*args), 0.5 * mat0[args]))
        calls.append((f"coancestry({form})", lambda args=args: cm.coancestry(*args), mat0[args]))
    calls += [("mat_asformat[kinship]", lambda: cm.mat_asformat("kinship"), 0.5 * mat0), ("mat_asformat[coancestry]", lambda: cm.mat_asformat("coancestry"), mat0)]
    for fmt in ("coancestry", "kinship"):
        calls += [(f"inverse[{fmt}]", lambda fmt=fmt: cm.inverse(format=fmt), None),
                  (f"min_inbreeding[{fmt}]", lambda fmt=fmt: cm.min_inbreeding(format=fmt), None),
                  (f"max_inbreeding[{fmt}]", lambda fmt=fmt: cm.max_inbreeding(format=fmt), None)]
        for meth in ("max", "min", "mean"):
            for axis in (None, 0, 1):
                calls.append((f"{meth}[{fmt},axis={axis}]", lambda fmt=fmt, meth=meth, axis=axis: getattr(cm, meth)(format=fmt, axis=axis), None))
    calls += [("is_positive_semidefinite", lambda: cm.is_positive_semidefinite(), None), ("copy", lambda: cm.copy(), None), ("deepcopy", lambda: cm.deepcopy(), None)]
    tmp = None
    if exports:
        tmp = tempfile.TemporaryDirectory(prefix="mc_c13_")
        d = tmp.name
        calls += [("to_pandas", lambda: cm.to_pandas(), None), ("to_csv", lambda: cm.to_csv(os.path.join(d, "c.csv")), None),
                  ("to_hdf5", lambda: cm.to_hdf5(os.path.join(d, "c.h5")), None)]
    try:
        prev = _snap(cm)
        for name, fn, exp in calls:
            meth = name.split("(")[0].split("[")[0]
            try:
                v1 = _freeze(fn())
                v2 = _freeze(fn())
                raised = None
            except Exception as e:          # e.g. inverse of a singular / NaN-padded matrix: compared in _views, not here
                raised = e
            ctx.transitions += 2
            now = _snap(cm)
            if now != prev:
                k = next(f for f, a, b in zip(_SNAP_FIELDS, prev, now) if a != b)
                cur = cm.mat.tolist()
                raise Violation(f"{B}.{meth}:mutates-object",
                                f"after {done}: {name} changed the object's {k}; matrix before the call {mat0.tolist() if k.startswith('mat') else ''} "
                                f"after {cur if k.startswith('mat') else ''}")
            if raised is None:
                require(_same_value(v1, v2), f"{B}.{meth}:repeated-call-differs", lambda: f"after {done}: {name} returned {v1!r} and then {v2!r}")
                if exp is not None:
                    require(_same_value(v1, exp), f"{B}.{meth}:value", lambda: f"after {done}: {name} = {v1!r}, indexing the matrix gives {exp!r}")
            ctx.flag("nonmutating:" + name.split("[")[0] if "(" in name else "nonmutating:" + meth)
    finally:
        if tmp is not None:
            tmp.cleanup()


def _views(cm):
    """every read-only view / summary of the object; an exception is an observation too"""
    out = {}

    def grab(name, f):
        try:
            v = f()
            out[name] = numpy.array(v, dtype="float64") if not isinstance(v, (bool, numpy.bool_)) else bool(v)
        except Exception as e:
            out[name] = "raises " + type(e).__name__
    n = cm.mat.shape[0]
    grab("mat_asformat[kinship]", lambda: cm.mat_asformat("kinship"))
    grab("mat_asformat[coancestry]", lambda: cm.mat_asformat("coancestry"))
    grab("kinship(i,j)", lambda: [[cm.kinship(i, j) for j in range(n)] for i in range(n)])
    grab("coancestry(i,j)", lambda: [[cm.coancestry(i, j) for j in range(n)] for i in range(n)])
    for fmt in ("coancestry", "kinship"):
        grab(f"inverse[{fmt}]", lambda fmt=fmt: cm.inverse(format=fmt))
        grab(f"min_inbreeding[{fmt}]", lambda fmt=fmt: cm.min_inbreeding(format=fmt))
        grab(f"max_inbreeding[{fmt}]", lambda fmt=fmt: cm.max_inbreeding(format=fmt))
        for meth in ("max", "min", "mean"):
            for axis in (None, 0):
                grab(f"{meth}[{fmt},axis={axis}]", lambda fmt=fmt, meth=meth, axis=axis: getattr(cm, meth)(format=fmt, axis=axis))
    grab("is_positive_semidefinite", lambda: cm.is_positive_semidefinite())
    return out


def _view_equal(a, b):
    if isinstance(a, str) or isinstance(b, str) or isinstance(a, bool) or isinstance(b, bool):
        return type(a) is type(b) and a == b
    return a.shape == b.shape and bool(numpy.all(numpy.isclose(a, b, rtol=1e-9, atol=1e-12, equal_nan=True)))


def _fresh_like(cm):
    """a brand-new object of the same class built from the CURRENT observable state"""
    f = type(cm)(mat=cm.mat.copy(), taxa=None if cm.taxa is None else cm.taxa.copy(), taxa_grp=None if cm.taxa_grp is None else cm.taxa_grp.copy())
    for k in ("taxa_grp_name", "taxa_grp_stix", "taxa_grp_spix", "taxa_grp_len"):
        v = getattr(cm, k)
        setattr(f, k, None if v is None else v.copy())
    return f


def _check_views(ctx, cm, done, exports=False):
    """all views of the object must describe its current matrix"""
    B = "DenseCoancestryMatrix"
    _nonmutating(ctx, cm, done, exports=exports)
    mat = cm.mat
    K = cm.mat_asformat("kinship")
    ctx.transitions += 1
    require(K.shape == mat.shape and numpy.array_equal(K, mat / 2.0, equal_nan=True), B + ".mat_asformat:kinship-half:after-in-place-operation",
            lambda: f"after {done}: kinship view {K.tolist()} is not half of the current matrix {mat.tolist()}")
    got, exp = _views(cm), _views(_fresh_like(cm))
    ctx.transitions += 2 * len(got)
    for name in got:
        require(_view_equal(got[name], exp[name]), f"{B}.{name.split('[')[0]}:stale-after-in-place-operation",
                lambda: f"after {done}: {name} = {got[name]!r} but a fresh object with the same matrix and labels gives {exp[name]!r}")
    finite = numpy.isfinite(mat).all()
    if finite:
        for fmt, sc in (("coancestry", 1.0), ("kinship", 0.5)):
            require(_view_equal(got[f"max[{fmt},axis=None]"], numpy.array(sc * mat.max())) and _view_equal(got[f"mean[{fmt},axis=0]"], sc * mat.mean(axis=0))
                    and _view_equal(got[f"max_inbreeding[{fmt}]"], numpy.array(sc * numpy.diag(mat).max())), B + ".summary:stale-after-in-place-operation",
                    lambda: f"after {done}: max/mean/max_inbreeding ({fmt}) do not describe the current matrix {mat.tolist()}")


def run_history(ctx, G: GmatCase, est, args, ops, rounds=(True, True, True)):
    """rounds[k]: whether the view round after k operations is checked; the enumeration checks a shared prefix of
    histories once (the construction round once per object, the round after op1 once per op1) — replay checks all"""
    kw, ref = reference(G, est, args)
    if ref is None:
        return None
    cls = _cls(est)
    cm = cls.from_gmat(G.gm, **kw)
    other = cls.from_gmat(G.gm, **kw)
    ctx.transitions += 2
    done = []
    if rounds[0]:
        _check_views(ctx, cm, "construction", exports=True)      # exports once per object of every estimator class
    for k, op in enumerate(ops):
        before = (cm.mat.copy(), None if cm.taxa is None else cm.taxa.copy())
        try:
            applicable = _apply_op(cm, op, other)
        except Exception:
            # whether an in-place operation itself works on this state (e.g. apply_jitter on the NaN-padded result of
            # append_taxa) belongs to C03; this layer is about the views after operations that did succeed
            ctx.count("history:operation-raised:" + op)
            return False
        if not applicable:
            ctx.count("history:operation-not-applicable")
            return False
        ctx.transitions += 1
        done.append(op)
        if cm.mat.shape != before[0].shape or not numpy.array_equal(cm.mat, before[0], equal_nan=True) or (cm.taxa is not None and cm.taxa.tolist() != before[1].tolist()):
            ctx.flag("history:changes-something:" + op)
        if rounds[k + 1]:
            _check_views(ctx, cm, " -> ".join(done))
    ctx.outcome(cm.mat.tobytes())
    return True


def hist_gmats(tier):
    """genotype matrices whose coancestry objects are driven through histories: (kind, n, m, idx, labelvar)"""
    out = [("U2", 3, 1, idx, 1) for idx in range(27)]
    out += [("U2", 2, 2, idx, lv) for idx in (5, 33, 61, 80) for lv in (0, 2, 3)]
    if tier == "thorough":
        out += [("U2", 2, 2, idx, 1) for idx in range(81)] + [("P2", 2, 1, idx, 1) for idx in range(16)]
        out += [("U2", 3, 2, idx, 1) for idx in range(0, 729, 13)]
    return out


def run_hist_shard(spec, ctx):
    _, lo, hi = spec
    for kind, n, m, idx, lv in hist_gmats(ctx.tier)[lo:hi]:
        G = GmatCase(kind, n, m, idx, lv, ctx.seed)
        ctx.state(digest(("hist", kind, n, m, idx, lv)))
        for est, args in HIST_EST:
            for i1, op1 in enumerate(HIST_OPS):
                for i2, op2 in enumerate(HIST_OPS):
                    ctx.evaluations += 1
                    case = dict(G.case(est, args), layer="hist", ops=[op1, op2])
                    rounds = (i1 == 0 and i2 == 0, i2 == 0, True)
                    if ctx.guard(lambda: run_history(ctx, G, est, args, (op1, op2), rounds), case=case, sig_prefix=f"Dense{est}CoancestryMatrix:history:"):
                        ctx.traces += 1
                    ctx.count("histories")
            ctx.flag("history:" + est)


EDIT_PLAN = [("Molecular", {}), ("VanRaden", {"p": ("none", None)}), ("Yang", {"p": ("scalar", 1)}),
             ("GeneralizedWeighted", {"w": ("none", None), "f": ("none", None)})]


def _edit_stage(ctx, G: GmatCase, only=None):
    """The genotype data are edited IN PLACE (first taxon complemented, labels stay) after the estimators have already been
    called on this object; the estimators must describe the matrix as it is now (no stale state anywhere)."""
    new = G.gm.mat.copy()
    if G.kind[0] == "U":
        new[0, :] = G.c - new[0, :]            # first taxon: every genotype replaced by its complement
    else:
        new[:, 0, :] = 1 - new[:, 0, :]
    if numpy.array_equal(new, G.gm.mat):
        return True
    G.gm.mat[...] = new
    G.snap = G.gm.mat.copy()
    G.refresh()
    ok = True
    for est, args in EDIT_PLAN:
        if only is not None and (est, args) != only:
            continue
        case = dict(G.case(est, args), edited=True)

        def one(est=est, args=args):
            try:
                check_estimate(ctx, G, est, args, False)
            except Violation as v:
                raise Violation(v.sig + ":after-in-place-edit", "after the genotype matrix was edited in place: " + v.detail)
        ctx.evaluations += 1
        ok &= ctx.guard(one, case=case, sig_prefix=f"Dense{est}CoancestryMatrix.from_gmat:after-in-place-edit:")
        ctx.count("cases:after-in-place-edit")
    ctx.flag("edit-stage")
    return ok


def _units(tier):
    """-> list of (kind, n, m, level, labelvars); levels: full = every argument array over the alphabets,
    core = a covering set of argument arrays, both with the 6 deep cases per genotype matrix;
    core-shallow = core without deep cases; molecular-only = the molecular estimator alone."""
    T = tier == "thorough"
    out = []
    for kind in KINDS:
        for n in (1, 2, 3):
            for m in (1, 2, 3):
                N = n_matrices(kind, n, m)
                if kind == "P2" and n * m == 9:
                    if not T:
                        continue                      # 2^18 phased matrices: thorough tier only
                    level = "core-shallow"
                elif T:
                    level = "full"
                elif N > 1000:
                    level = "core-shallow"            # quick: unphased diploid 3x3, phased diploid 2x3 / 3x2
                else:
                    level = "full" if N <= 256 else "core"
                labelvars = (0, 1, 2, 3) if N <= 100 else (1,)
                out.append((kind, n, m, level, labelvars))
    return out


def _cost(m, level):
    """rough cost of one genotype matrix in ms (only used to balance the shards)"""
    if level == "molecular-only":
        return 0.35
    arglevel = "full" if level == "full" else "core"
    return 0.15 * len(plan(m, arglevel)) + (0.0 if level == "core-shallow" else 13.0)


def shards(tier, seed):
    target = 12000.0 if tier == "thorough" else 6000.0          # ~ms of work per shard
    out = []
    for kind, n, m, level, labelvars in _units(tier):
        N = n_matrices(kind, n, m)
        per = _cost(m, level) * len(labelvars)
        step = max(1, int(target / per))
        for lo in range(0, N, step):
            out.append((kind, n, m, level, labelvars, lo, min(N, lo + step)))
    out += sweep_shards(tier)
    ng = len(hist_gmats(tier))
    out += [("hist", lo, min(ng, lo + 3)) for lo in range(0, ng, 3)]
    return out


def run_shard(spec, ctx):
    if spec[0] in ("sweepm", "sweepm-big", "sweepn"):
        ctx.bounds.update({"sweep_marker_counts": f"1..{m_grid(ctx.tier)[-1]} + {list(BIG_M)}", "sweep_taxon_counts": n_grid(ctx.tier)})
        return run_sweep_shard(spec, ctx)
    if spec[0] == "hist":
        ctx.bounds.update({"history_depth": 2, "history_operations": list(HIST_OPS), "history_objects": len(hist_gmats(ctx.tier)) * len(HIST_EST)})
        return run_hist_shard(spec, ctx)
    kind, n, m, level, labelvars, lo, hi = spec
    ctx.bounds.update({"n_taxa_max": 3, "n_markers_max": 3, "kinds": list(KINDS), "p_alphabet": PALPHA[ctx.seed % 3],
                       "w_alphabet": WALPHA[ctx.seed % 3],
                       "phased_diploid_3x3": "covering argument set, no deep cases" if ctx.tier == "thorough" else "not enumerated in the quick tier",
                       "levels": {f"{u[0]}:{u[1]}x{u[2]}": u[3] for u in _units(ctx.tier)},
                       "argument_arrays": "all over the alphabets (full) / covering set (core); see units"})
    ctx.flag(f"level:{level}")
    for idx in range(lo, hi):
        for lv in labelvars:
            if level == "molecular-only":
                run_gmat(ctx, kind, n, m, idx, lv, "core", ctx.seed, only=("Molecular", {}), allow_deep=False)
            elif level == "core-shallow":
                run_gmat(ctx, kind, n, m, idx, lv, "core", ctx.seed, allow_deep=False)
            else:
                run_gmat(ctx, kind, n, m, idx, lv, level, ctx.seed)


def finalize(ctx, tier, seed):
    # a violation aborts the oracle of its case early, so coverage flags of that case may be missing; the vacuity
    # guards protect a *silent* run, and a run with an unlisted violation is not silent (it exits 1 anyway)
    from ..core import load_known, match_known
    known = load_known()
    if any(match_known(ID, sig, known) is None for sig in ctx.violations):
        return
    for k in KINDS:
        assert f"kind:{k}" in ctx.flags, k
    for lv in (0, 1, 2, 3):
        assert f"labels:{lv}" in ctx.flags, lv
    for n in (1, 2, 3):
        for m in (1, 2, 3):
            assert f"shape:{n}x{m}" in ctx.flags
    for e in EST:
        assert ctx.counters.get(f"cases:{e}", 0) > 100, e
        assert f"deep:{e}" in ctx.flags, e
    for f in ("none", "scalar", "npscalar", "array"):
        assert f"arg:VanRaden:p:{f}" in ctx.flags and f"arg:Yang:p:{f}" in ctx.flags, f
        assert f"arg:GeneralizedWeighted:f:{f}" in ctx.flags, f
    for f in ("none", "scalar", "intscalar", "array"):
        assert f"arg:GeneralizedWeighted:w:{f}" in ctx.flags, f
    for f in ["sweep:m<128", "sweep:m>=128", "sweep:m>=2^15", "sweep:n>=128"] + ["sweep:pattern:" + q for q in PATTERNS_M + PATTERNS_N] \
            + ["sweep:kind:" + k for k in KINDS] + ["history:" + e for e, _ in HIST_EST] + ["history:changes-something:" + o for o in HIST_OPS if o != "ungroup_taxa"]:
        assert f in ctx.flags, f
    assert ctx.counters.get("sweep:marker-counts", 0) >= 300 and ctx.counters.get("sweep:taxon-counts", 0) >= 40
    assert ctx.counters.get("histories", 0) > 5000
    for form, _ in accessor_forms(2):
        assert f"nonmutating:kinship({form})" in ctx.flags and f"nonmutating:coancestry({form})" in ctx.flags, form
    for f in ("to_pandas", "to_csv", "to_hdf5", "copy", "deepcopy", "inverse", "min_inbreeding", "max", "mean", "is_positive_semidefinite", "mat_asformat"):
        assert "nonmutating:" + f in ctx.flags, f
    for f in ("select:array", "select:negative-array", "select:mixed-list"):
        assert f in ctx.flags, f
    assert "edit-stage" in ctx.flags and ctx.counters.get("cases:after-in-place-edit", 0) > 100
    for f in ("deep:inverse", "deep:min_inbreeding", "deep:psd-true", "deep:permutation", "deep:subselection"):
        assert f in ctx.flags, f
    assert ctx.counters.get("excluded:VanRaden:zero-denominator", 0) > 0 and ctx.counters.get("excluded:Yang:zero-denominator", 0) > 0
    assert ctx.counters.get("skipped:singular-matrix(inverse,min_inbreeding)", 0) > 0
    assert len(ctx.outcomes) > 1000, len(ctx.outcomes)
    assert len(ctx.nontrivial) > 1000, len(ctx.nontrivial)


def replay(case, ctx):
    args = {k: (v[0], (tuple(v[1]) if isinstance(v[1], list) else v[1])) for k, v in case["args"].items()}
    if case.get("layer") == "sweep":
        run_sweep_case(ctx, case["kind"], case["pattern"], case["n"], case["m"], case["seed"], [(case["est"], args)])
        return
    if case.get("layer") == "hist":
        G = GmatCase(case["kind"], case["n"], case["m"], case["idx"], case["labelvar"], case["seed"])
        ctx.guard(lambda: run_history(ctx, G, case["est"], args, tuple(case["ops"])), case=case, sig_prefix=f"Dense{case['est']}CoancestryMatrix:history:")
        return
    if case.get("edited"):
        G = GmatCase(case["kind"], case["n"], case["m"], case["idx"], case["labelvar"], case["seed"])
        for est, a, _deep_flag in plan(case["m"], "core"):          # the calls that preceded the edit
            try:
                check_estimate(ctx, G, est, a, False)
            except Exception:
                pass
        _edit_stage(ctx, G, only=(case["est"], args))
        return
    run_gmat(ctx, case["kind"], case["n"], case["m"], case["idx"], case["labelvar"], "full", case["seed"], only=(case["est"], args), force_deep=True)
