"""C16 — saving, loading and copying reproduce objects exactly.

Explicit-state BFS over WRITE HISTORIES (sequences of to_hdf5 into locations of one file by objects
from a pool spanning rich -> poor optional fields) against a dict-of-last-writes model, plus
single-step round trips of the table forms (pandas / CSV / dict-of-frames) over the matching option
sets, complete enumeration of small phased VCF files for from_vcf, and copy / deepcopy of every pool
object with every single-field mutation of the deep copy.
"""
from __future__ import annotations
import copy as _copy
import atexit, itertools, os, pathlib, shutil, signal, tempfile, traceback

import numpy

from .. import compat  # noqa: F401
from ..core import Violation, digest
from ..ref import persist as P

ID = "C16"
TECHNIQUE = ("explicit-state breadth-first search over HDF5 write histories (state = file content as h5py reports it, "
             "de-duplicated) against a dict-of-last-writes model; complete enumeration of small phased VCF texts; "
             "single-step round trips over all matching option sets of the table forms; every single-cell mutation "
             "of deep copies")
RULE = ("hdf5: one transition = one real to_hdf5(file, groupname) of a pool object (pool per class: all labels+grouped, "
        "labels only, none, partial, small/1-trait, non-ASCII; plus objects in post-operation states — after in-place "
        "ungroup / sort / remove / arithmetic / coefficient edits — at depth 2) into the file state reached by a history, groupname in "
        "{None,'g','g/h/','a/b'}, file passed as str / Path / open h5py.File in rotation; after every write every "
        "location written so far is read back with from_hdf5 (once per distinct file state, compared per history) and "
        "must be observably equal (every public property, dtype and element types included) to the LAST object written "
        "there; states are distinct file contents; non-trivial = history that overwrites a location or writes >= 2 "
        "locations.  table: one case = (class, pool object, option set, pandas|csv) written and read back with the "
        "matching options (columns by name and by integer position, header-less CSV, every optional column present and "
        "different in content); long formats are compared up to the label-consistent permutation of taxa/traits the reader "
        "applies; group metadata is not representable in a table and is not compared (genetic maps excepted: the "
        "reader regroups).  vcf: one case = one VCF text (samples x records x phased diploid calls x contig/position/ID "
        "layout) read by from_vcf of both genotype classes with and without auto_group_vrnt.  copy: copy.copy, "
        "copy.deepcopy, .copy(), .deepcopy() equal their source; deep copies share no ndarray memory / dict / nested "
        "object with it and every single-cell mutation of the deep copy leaves the source's observation unchanged; a SECOND "
        "copy by the same route, taken after the first copy and the source were edited, equals the current source and shares "
        "nothing with either; genetic "
        "maps are also observed by what they DO (interp_genpos at own, midpoint and fixed probe positions, spline keys and "
        "knots), in states whose stored spline differs from a fresh build (remove/select without rebuild, user spline)")
ASSUME = ["h5py, pandas and cyvcf2 read back what they were given (trusted base)",
          "mc/compat.py restores removed numpy names only",
          "an injected random generator (G_E_Phenotyping.rng) is a service handle, not object state: copies may share it",
          "table forms: floats compared with rel 1e-9 (unit conversion x100 x0.01, CSV text); everything else exact",
          "VCF: integer contig names (the reader documents integer chromosome groups); a missing ID ('.') may be "
          "reported as '.', 'None' or None"]

GROUPS = [None, "g", "g/h/", "a/b"]      # structure; the spelling of the last one rotates with VERIF_SEED


def group_names(seed):
    return [None, "g", "g/h/", ["a/b", "ä–x/β", "grp 1/sub.2"][seed % 3]]


GROUP_META = ("taxa_grp_name", "taxa_grp_stix", "taxa_grp_spix", "taxa_grp_len",
              "vrnt_chrgrp_name", "vrnt_chrgrp_stix", "vrnt_chrgrp_spix", "vrnt_chrgrp_len")

# classes of the table that cannot be constructed through their own constructor in this tree
NOT_CONSTRUCTED = {}
NOT_CONSTRUCTED.update(P.NOT_IMPORTABLE)


def _classes(kind=None):
    return [n for n in P.CLASSES if n not in NOT_CONSTRUCTED and (kind is None or kind(P.CLASSES[n]))]


HDF5_CLASSES = _classes(lambda s: s["kind"] != "gmap")
TABLE_CLASSES = _classes(lambda s: s["pandas"] is not None)
ALL_CLASSES = _classes()


# ----------------------------------------------------------------------------
def _only():
    """VERIF_C16_ONLY="hdf5:DenseGenotypeMatrix,vcf" restricts a run to some shards (mutation experiments / debugging);
    such a run is marked non-exhaustive and skips the vacuity guards."""
    v = os.environ.get("VERIF_C16_ONLY", "").strip()
    return [tuple(x.split(":")) for x in v.split(",") if x] if v else None


def _selected(spec, only):
    for f in only:
        if f[0] != spec[0]:
            continue
        if len(f) == 1:
            return True
        names = spec[1] if isinstance(spec[1], list) else [spec[1]]
        if spec[0] == "vcf" or f[1] in [str(n) for n in names]:
            return True
    return False


def shards(tier, seed):
    out = _all_shards(tier, seed)
    only = _only()
    return [s for s in out if _selected(s, only)] if only else out


def _all_shards(tier, seed):
    out = []
    T = tier == "thorough"
    for name in HDF5_CLASSES:
        if T:
            out.append(("hdf5", name, "d4"))                 # depth 4, 3-profile pool (rich / bare / partial)
            out.append(("hdf5", name, "d3"))                 # depth 3, 5-profile pool
            if len(P.profiles(name, "wide")) > len(P.profiles(name, "thorough")):
                out.append(("hdf5", name, "wide2"))          # depth 2, 6-profile pool
        else:
            out.append(("hdf5", name, None))                 # depth 3, 4-profile pool
    for name in TABLE_CLASSES:
        out.append(("table", name))
    cl = list(ALL_CLASSES)
    step = 2 if T else 4
    for i in range(0, len(cl), step):
        out.append(("copy", cl[i:i + step]))
    out += _vcf_shards(tier)
    # longest first so that the pool drains evenly (cost of an HDF5 history ~ number of datasets per object)
    order = {"hdf5": 0, "vcf": 1, "table": 2, "copy": 3}

    def cost(sp):
        if sp[0] != "hdf5":
            return 0
        c = P.CLASSES[sp[1]]
        return -(30 if c["kind"] == "gmod" else len(c["opt"]) + 2) * (1 if sp[2] in (None, "d3", "d4") else 0.1)
    out.sort(key=lambda sp: (order[sp[0]], cost(sp)))
    return out


# ----------------------------------------------------------------------------
def _scratch_base():
    b = os.environ.get("VERIF_SCRATCH")
    if b and os.path.isdir(b):
        return b
    return "/dev/shm" if os.path.isdir("/dev/shm") and os.access("/dev/shm", os.W_OK) else None


class Scratch:
    """per-shard scratch directory (tempfile.mkdtemp, memory-backed when available), removed when the shard ends"""

    def __init__(self):
        self.dir = tempfile.mkdtemp(prefix="c16_", dir=_scratch_base())
        atexit.register(self.close)

    def path(self, name):
        return os.path.join(self.dir, name)

    def close(self):
        shutil.rmtree(self.dir, ignore_errors=True)


def _on_sigterm(signum, frame):
    raise SystemExit(143)       # unwinds through the `finally` below, so a terminated worker removes its scratch dir


def run_shard(spec, ctx):
    try:
        signal.signal(signal.SIGTERM, _on_sigterm)
    except ValueError:          # not in the main thread of this process
        pass
    sc = Scratch()
    try:
        if spec[0] == "hdf5":
            run_hdf5(ctx, sc, spec[1], spec[2])
        elif spec[0] == "table":
            run_table(ctx, sc, spec[1])
        elif spec[0] == "copy":
            for name in spec[1]:
                run_copy(ctx, name)
        elif spec[0] == "vcf":
            run_vcf(ctx, sc, spec)
    finally:
        sc.close()


# ----------------------------------------------------------------------------
# HDF5 write histories
def _pool(name, tier, seed):
    profs = P.profiles(name, tier)
    objs = [P.build(name, pr, seed) for pr in profs]
    return profs, objs


def _read_kwargs(name, obj):
    if P.CLASSES[name]["kind"] == "pt":
        return {"gpmod": obj.gpmod}
    return {}


def _via(k, path):
    """how the file is handed to the library: str, pathlib.Path or an open h5py.File"""
    return ("str", "path", "handle")[k % 3]


def _write(obj, path, group, via):
    import h5py
    with P.quiet():
        if via == "str":
            obj.to_hdf5(path, group)
        elif via == "path":
            obj.to_hdf5(pathlib.Path(path), group)
        else:
            with h5py.File(path, "a") as f:
                obj.to_hdf5(f, group)


def _read(cls, path, group, via, kw):
    import h5py
    with P.quiet():
        if via == "str":
            return cls.from_hdf5(path, group, **kw)
        if via == "path":
            return cls.from_hdf5(pathlib.Path(path), group, **kw)
        with h5py.File(path, "r") as f:
            return cls.from_hdf5(f, group, **kw)


def sig_class(cls, methods, field=None):
    """Call site named in a signature: the nearest class in the MRO whose own body defines one of `methods`
    (subclasses that merely inherit an I/O routine share its signature).  If the differing field is one the
    defining class does not even have, the subclass is named (it added state that the inherited routine drops)."""
    owner = next((k for k in cls.__mro__ if any(m in vars(k) for m in methods)), cls)
    if field is not None and owner is not cls and not hasattr(owner, field.split(".")[0]):
        return cls.__name__, ":not-handled-by-inherited-" + owner.__name__
    return owner.__name__, ""


def _site(e):
    tb = traceback.extract_tb(e.__traceback__)
    return next((f"{os.path.basename(f.filename)}:{f.name}" for f in reversed(tb) if "/pybrops/" in f.filename), "harness")


class H5Explorer:
    def __init__(self, ctx, sc, name, tier, seed):
        self.ctx, self.sc, self.name = ctx, sc, name
        self.cls = P.get_class(name)
        pool = P.build_pool(name, tier, seed)
        self.profs = [pr for pr, _ in pool]
        self.objs = [o for _, o in pool]
        self.exp = [P.observe(o) for o in self.objs]
        self.exp_dig = [P.obs_digest(e) for e in self.exp]
        self.work = sc.path("work.h5")
        self.fresh = {}        # (obj idx, loc) -> dataset dict of a fresh single write
        self.readback = {}     # file state digest -> {loc: digest | ('exc', text)}
        self.seed, self.tier = seed, tier
        self.kind = P.CLASSES[name]["kind"]
        self.last_status = {}
        self.groups = group_names(seed)

    # -- model ------------------------------------------------------------
    def fresh_datasets(self, i, group):
        key = (i, P.norm_group(group))
        if key not in self.fresh:
            p = self.sc.path("fresh.h5")
            if os.path.exists(p):
                os.remove(p)
            _write(self.objs[i], p, group, "str")
            self.fresh[key] = P.under(P.h5_state(p), P.norm_group(group), [])
        return self.fresh[key]

    # -- one transition -----------------------------------------------------
    def apply(self, parent_bytes, history, model, ev, prev_ok=None):
        """ev = (obj idx, group idx, via).  Returns (file state, file bytes, new model) or None after a write error."""
        i, gi, via = ev
        group = self.groups[gi]
        ctx = self.ctx
        if parent_bytes is None:
            if os.path.exists(self.work):
                os.remove(self.work)
        else:
            with open(self.work, "wb") as f:
                f.write(parent_bytes)
        hist = history + (ev,)
        case = self.case(hist)
        ctx.evaluations += 1
        ctx.transitions += 1
        try:
            _write(self.objs[i], self.work, group, via)
        except Exception as e:
            ctx.violation(f"{self.name}.to_hdf5:exception:{type(e).__name__}@{_site(e)}", f"{type(e).__name__}: {e}", case)
            return None
        if P.obs_digest(P.observe(self.objs[i])) != self.exp_dig[i]:
            ctx.violation(f"{self.name}.to_hdf5:mutates-object", "to_hdf5 changed the object it wrote", case)
        state = P.h5_state(self.work)
        sd = digest(sorted(state.items()))
        new_model = dict(model)
        new_model[P.norm_group(group)] = (i, gi)
        ok = self.check_state(sd, state, new_model, hist, case, prev_ok or {})
        if ok:
            ctx.traces += 1
        ctx.state(digest((self.name, sd)))
        over = P.norm_group(group) in model
        if over or len(new_model) > 1:
            ctx.nontriv(digest((self.name, hist)))
        if over:
            a, b = self.profs[model[P.norm_group(group)][0]], self.profs[i]
            ra, rb = len(a.get("present", ())) + a.get("grouped", 0), len(b.get("present", ())) + b.get("grouped", 0)
            ctx.flag("overwrite:rich->poor" if ra > rb else "overwrite:poor->rich" if ra < rb else "overwrite:same-rank")
            ctx.count("hdf5-overwrites")
            ctx.flag(f"overwrite:{self.name}")
        if len(new_model) > 1:
            ctx.flag("two-locations-in-one-file")
        if len(new_model) > 1 and any(x != y and x.startswith(y) for x in new_model for y in new_model if y):
            ctx.flag("nested-locations")
        ctx.flag(f"via:{via}")
        ctx.flag(f"group-index:{gi}")
        ctx.count("hdf5-writes")
        with open(self.work, "rb") as f:
            data = f.read()
        return sd, data, new_model

    def check_state(self, sd, state, model, hist, case, prev_ok):
        """every written location must read back the last object written there"""
        ctx = self.ctx
        cache = self.readback.setdefault(sd, {})
        fresh_state = not cache
        ok = True
        status = {}
        for k, (loc, (i, gi)) in enumerate(sorted(model.items())):
            # the result of from_hdf5 is a function of the file content (and, for protocols, of the model handed in)
            ck = (loc, i if self.kind == "pt" else None)
            if ck not in cache:
                try:
                    rb = _read(self.cls, self.work, self.groups[gi], _via(len(hist) + k, None), _read_kwargs(self.name, self.objs[i]))
                    cache[ck] = (P.obs_digest(P.observe(rb)), None if type(rb) is self.cls else type(rb).__name__)
                except Exception as e:
                    cache[ck] = (("exc", f"{type(e).__name__}@{_site(e)}", str(e)[:300]), None)
                ctx.transitions += 1
                ctx.count("from_hdf5-calls")
            got, wrongtype = cache[ck]
            status[loc] = (got == self.exp_dig[i] and not wrongtype)
            if status[loc]:
                continue
            ok = False
            self.report(state, model, loc, i, gi, got, wrongtype, hist, case, prev_ok.get(loc, False))
        if fresh_state:
            ctx.outcome(digest((self.name, sorted((repr(k), repr(v)) for k, v in cache.items()))))
        self.last_status = status
        return ok

    def report(self, state, model, loc, i, gi, got, wrongtype, hist, case, was_ok):
        ctx = self.ctx
        case = dict(case, location=loc)
        last_here = hist[-1][1] == gi
        # a location that read back correctly before a write to ANOTHER location and does not any more
        where = ":clobbered-by-write-elsewhere" if (was_ok and not last_here) else ""
        # classification: datasets left behind by an earlier write?
        actual = P.under(state, loc, list(model))
        fresh = self.fresh_datasets(i, self.groups[gi])
        extra = sorted(set(actual) - set(fresh))
        if extra:
            kind = "nested-dict-key" if any("/" in x for x in extra) else "optional-field"
            ctx.violation(f"to_hdf5:stale-field-after-overwrite:{kind}",
                          f"{self.name}: after history {self.describe(hist)} location '{loc}' still holds dataset(s) {extra} "
                          f"that the last object written there ({self.profs[i]['id']}) does not have; read-back: "
                          f"{self.why(loc, i, gi, got)}", case)
            ctx.count("hdf5-stale-reads")
            return
        if isinstance(got, tuple) and got and got[0] == "exc":
            sc_, _ = sig_class(self.cls, ("from_hdf5",))
            ctx.violation(f"{sc_}.from_hdf5{where}:exception:{got[1]}",
                          f"{self.name}, history {self.describe(hist)}: from_hdf5 at '{loc}' raised {got[1]}: {got[2]}", case)
            return
        if wrongtype:
            ctx.violation(f"{self.name}.from_hdf5{where}:class", f"read back a {wrongtype}", case)
            return
        d = self.why(loc, i, gi, got, raw=True)
        fld, kind = (d[0], d[1]) if d else ("?", "digest")
        sc_, note = sig_class(self.cls, ("to_hdf5", "from_hdf5"), fld)
        ctx.violation(f"{sc_}.hdf5-roundtrip{where}:{kind}:{fld}{note}",
                      f"{self.name}, history {self.describe(hist)}: object read back from '{loc}' differs from the last object "
                      f"written there ({self.profs[i]['id']}): {d}", case)

    def why(self, loc, i, gi, got, raw=False):
        try:
            rb = _read(self.cls, self.work, self.groups[gi], "str", _read_kwargs(self.name, self.objs[i]))
            d = P.diff(self.exp[i], P.observe(rb))
        except Exception as e:
            d = ("<raises>", "exception", f"{type(e).__name__}: {e}"[:200])
        return d if raw else str(d)

    def describe(self, hist):
        return [f"{self.profs[i]['id']}@{self.groups[gi]!r}" for i, gi, _ in hist]

    def case(self, hist):
        return dict(kind="hdf5", cls=self.name, tier=self.tier, seed=self.seed,
                    history=[[self.profs[i]["id"], gi, via] for i, gi, via in hist])

    # -- search -------------------------------------------------------------
    def bfs(self, depth, first_group=None):
        seen = set()
        frontier = [((), None, {}, {})]     # (history, file bytes, model, per-location status of the last check)
        nobj = len(self.objs)
        for d in range(depth):
            nxt = []
            for hist, data, model, st in frontier:
                for gi in range(len(GROUPS)):
                    if d == 0 and first_group is not None and gi != first_group:
                        continue
                    for i in range(nobj):
                        ev = (i, gi, _via(i + gi + d, None))
                        res = self.apply(data, hist, model, ev, st)
                        if res is None:
                            continue
                        sd, newdata, new_model = res
                        key = (sd, tuple(sorted(new_model.items())))
                        if key in seen:
                            continue
                        seen.add(key)
                        if d + 1 < depth:
                            nxt.append((hist + (ev,), newdata, new_model, dict(self.last_status)))
            frontier = nxt
        return len(seen)

    def run_history(self, hist):
        data, model, h, st = None, {}, (), {}
        for ev in hist:
            res = self.apply(data, h, model, ev, st)
            if res is None:
                return
            _, data, model = res
            st = dict(self.last_status)
            h = h + (ev,)


def run_hdf5(ctx, sc, name, first_group):
    depth, ptier = 3, "quick"
    spec_is_main = first_group is None      # quick tier: the single shard of the class
    if first_group == "wide2":
        depth, ptier, first_group = 2, "wide", None
    elif first_group == "d3":
        depth, ptier, first_group = 3, "thorough", None
    elif first_group == "d4":
        depth, ptier, first_group = 4, "core3", None
    ctx.bounds.update({"hdf5_history_depth": 4 if ctx.tier == "thorough" else 3, "hdf5_groupnames": [repr(g) for g in group_names(ctx.seed)],
                       "hdf5_pool_profiles": "quick: rich / labels / bare / partial at depth 3; thorough: rich / bare / partial at "
                                             "depth 4, + labels, rich-small at depth 3, + partial2 (later optional fields only) at depth 2; models: 5 parameter "
                                             "profiles; G_E_Phenotyping: 4; unlabelled matrices: 3-4 value/shape/dtype variants",
                       "n_taxa": "2-3", "n_variants": "3-4", "n_traits": "1-2"})
    ex = H5Explorer(ctx, sc, name, ptier, ctx.seed)
    ex.bfs(depth, first_group)
    ctx.flag(f"hdf5:{name}")
    for pr in ex.profs:
        if pr.get("post"):
            ctx.flag("hdf5-post-op:" + pr["id"])
    if spec_is_main:
        # objects in post-operation states (after in-place ungroup / sort / remove / coefficient edits): depth-2 histories
        ex2 = H5Explorer(ctx, sc, name, "post", ctx.seed)
        if ex2.objs:
            ex2.bfs(2)
            for pr in ex2.profs:
                ctx.flag("hdf5-post-op:" + pr["id"])
    if ctx.evaluations and len(ctx.samples) < 1 and name in ("DenseGenotypeMatrix", "DenseBreedingValueMatrix"):
        ctx.sample(dict(kind="hdf5", cls=name, pool=[p["id"] for p in ex.profs], depth=depth,
                        example_history=ex.describe(((0, 1, "str"), (2, 1, "path"), (1, 2, "handle")))))


# ----------------------------------------------------------------------------
# table forms
def _table_obj(name, prof, seed):
    o = P.build(name, prof, seed)
    if P.CLASSES[name]["pandas"] == "bv":
        # a breeding value matrix whose location/scale are those of its own taxa (what from_numpy builds): the table
        # reader re-derives location and scale from the values, so only such objects can round-trip their parameters
        cls = P.get_class(name)
        raw = o.unscale()
        big = ~numpy.isnan(raw) & ((numpy.abs(raw) > 1e6) | (numpy.abs(raw) < 1e-6))
        raw = numpy.where(big, 17.0625, raw)     # mean/variance of 1e300 overflow: a numeric-range matter, not I/O
        o2 = cls.from_numpy(raw, taxa=o.taxa, taxa_grp=o.taxa_grp, trait=o.trait)
        return o2
    return o


def _table_io(name, obj, form, w, r, sc):
    cls = P.get_class(name)
    fam = P.CLASSES[name]["pandas"]
    with P.quiet():
        if fam == "gmod":
            if form == "pandas":
                return cls.from_pandas_dict(obj.to_pandas_dict(**w), **r)
            keys = ["beta", "u_misc", "u_a"] + (["u_d"] if hasattr(obj, "u_d") else [])
            fns = {k: sc.path(f"{k}–ü.csv") for k in keys}
            obj.to_csv_dict(fns, **w)
            return cls.from_csv_dict(fns, **r)
        if form == "pandas":
            df = obj.to_pandas(**w)
            return cls.from_pandas(df, **r)
        fn = sc.path("tab–ü.csv")
        obj.to_csv(fn, **w)
        return cls.from_csv(fn, **r)


def _perm(orig_labels, got_labels, what):
    """index p with got[p[i]] == orig[i] (labels unique by construction)"""
    g = list(got_labels)
    if sorted(map(str, g)) != sorted(map(str, orig_labels)) or len(set(g)) != len(g):
        raise Violation(f"labels:{what}", f"{what} labels read back {g} are not a permutation of {list(orig_labels)}")
    return [g.index(x) for x in orig_labels]


def _table_expected_and_got(name, obj, rb, cmp_, w):
    """Observations to compare, with the freedoms of the table forms applied to the *read-back* side."""
    exp = P.observe(obj)
    got = P.observe(rb)
    fam = P.CLASSES[name]["pandas"]
    skip = set()
    if fam != "gmap":
        skip |= set(GROUP_META)
    if cmp_.startswith("long"):
        # the long-format readers rebuild the axes from the sorted distinct labels: compare up to that permutation
        taxa_axes = [a for a in range(obj.mat.ndim) if a in getattr(obj, "square_taxa_axes", ())]
        trait_axes = list(getattr(obj, "square_trait_axes", ())) or [obj.trait_axis]
        m = got.get("mat")
        if exp["taxa"] is None:
            skip.add("taxa")          # labels are synthesised on export
            pt = list(range(obj.ntaxa))
        else:
            pt = _perm(exp["taxa"].tolist(), [] if got["taxa"] is None else got["taxa"].tolist(), "taxa")
            got["taxa"] = got["taxa"][pt]
        if exp["trait"] is None:
            skip.add("trait")
            pr = list(range(obj.ntrait))
        else:
            pr = _perm(exp["trait"].tolist(), [] if got["trait"] is None else got["trait"].tolist(), "trait")
            got["trait"] = got["trait"][pr]
        if isinstance(m, numpy.ndarray) and m.shape == obj.mat.shape:
            for a in taxa_axes:
                m = numpy.take(m, pt, axis=a)
            for a in trait_axes:
                m = numpy.take(m, pr, axis=a)
            got["mat"] = m
        if isinstance(got.get("taxa_grp"), numpy.ndarray) and len(got["taxa_grp"]) == len(pt):
            got["taxa_grp"] = got["taxa_grp"][pt]
        if cmp_ == "long-nogrp":
            skip.add("taxa_grp")
        if CLASSES_SCALED(name):
            skip |= {"location", "scale"}     # not part of the table form
    elif cmp_.startswith("bv"):
        if exp["taxa"] is None:
            skip.add("taxa")
        if exp["trait"] is None or cmp_ == "bv-traitnum":
            skip.add("trait")
        if cmp_ == "bv-traitnames":
            exp["trait"] = numpy.array(w["trait_cols"], dtype=object)
    elif cmp_ == "cmat":
        if exp["taxa"] is None:
            skip.add("taxa")
    elif cmp_.startswith("gmod"):
        if exp["trait"] is None or cmp_ == "gmod-traitnum":
            skip.add("trait")
        if cmp_ == "gmod-traitnames":
            exp["trait"] = numpy.array(w["trait_cols"], dtype=object)
    for k in skip:
        exp.pop(k, None)
        got.pop(k, None)
    return exp, got


def CLASSES_SCALED(name):
    return P.CLASSES[name]["scaled"]


def table_case(ctx, sc, name, prof, cid, form, seed):
    obj = _table_obj(name, prof, seed)
    cases = {c[0]: c for c in P.table_cases(name, obj, "wide")}
    _, w, r, cmp_ = cases[cid]
    case = dict(kind="table", cls=name, prof=prof["id"], option_set=cid, form=form, seed=seed)
    before = P.obs_digest(P.observe(obj))
    ctx.evaluations += 1
    ctx.transitions += 2

    meths = {"pandas": ("to_pandas", "from_pandas", "to_pandas_dict", "from_pandas_dict"),
             "csv": ("to_csv", "from_csv", "to_csv_dict", "from_csv_dict")}[form]
    scn, _ = sig_class(P.get_class(name), meths)

    def go():
        rb = _table_io(name, obj, form, w, r, sc)
        if type(rb) is not P.get_class(name):
            raise Violation(f"{name}.{form}:class", f"read back a {type(rb).__name__}", case)
        if P.obs_digest(P.observe(obj)) != before:
            raise Violation(f"{scn}.to_{form}:mutates-object", f"{name}: export changed the object", case)
        try:
            exp, got = _table_expected_and_got(name, obj, rb, cmp_, w)
        except Violation as v:
            raise Violation(f"{scn}.{form}-roundtrip:{v.sig}", f"{name}: " + v.detail, case)
        d = P.diff(exp, got, rel=1e-9)
        ctx.outcome(digest((name, form, cid, P.obs_digest(got))))
        if d:
            tag = ":location-scale-arguments-ignored" if cmp_ == "bv-param" and d[0] in ("location", "scale", "mat") else ""
            raise Violation(f"{scn}.{form}-roundtrip{tag}:{d[1]}:{d[0]}",
                            f"{name} {prof['id']} / options {cid} ({w} -> {r}): {d}", case)

    ok = ctx.guard(go, case=case, sig_prefix=f"{scn}.{form}-roundtrip:")
    if ok:
        ctx.traces += 1
    ctx.state(digest(("table", name, prof["id"], cid, form)))
    ctx.nontriv(digest(("table", name, prof["id"], cid, form)))
    if ok and name == "DenseBreedingValueMatrix" and prof["id"] == "rich" and cid == "custom-label-cols" and form == "csv":
        with open(sc.path("tab–ü.csv"), encoding="utf8") as f:
            ctx.sample(dict(case, write_options=repr(w), read_options=repr(r), csv_text=f.read()))
    ctx.flag(f"table:{P.CLASSES[name]['pandas']}:{cid}")
    ctx.flag(f"table-form:{form}")
    ctx.count("table-cases")


def run_table(ctx, sc, name):
    ctx.bounds.update({"table_forms": ["pandas", "csv"], "table_option_sets": "defaults / explicit default names / custom "
                       "non-ASCII column names / every column (optional ones too) by integer position / header-less CSV read by "
                       "position / explicit trait or taxa sequences / numeric trait columns / unit settings "
                       "cM,M,centiMorgans,Morgans / spline kind and fill value / unscale / (location, scale) arguments",
                       "post_operation_states": "pools of copies, table forms and HDF5 (depth 2) also hold objects after in-place "
                       "ungroup / sort / remove, in-place arithmetic, coefficient and parameter edits, and genetic maps after "
                       "remove/select without spline rebuild, with a user-supplied spline, non-default kind / fill value, no spline"})
    for prof, _ in P.build_pool(name, "wide", ctx.seed):
        if prof.get("table") is False:
            continue                     # state that a table cannot carry (stored interpolators differ from a fresh build)
        obj = _table_obj(name, prof, ctx.seed)
        for cid, _w_, _r_, _cmp in P.table_cases(name, obj, ctx.tier):
            for form in ("pandas", "csv"):
                if cid.startswith("csv:") and form != "csv":
                    continue
                table_case(ctx, sc, name, prof, cid, form, ctx.seed)
        if prof.get("post"):
            ctx.flag("table-post-op:" + prof["id"])
    ctx.flag(f"table:{name}")


# ----------------------------------------------------------------------------
# copies
def leaves(obj, path="", seen=None, depth=0):
    """mutable state reachable through instance attributes: (path, value)"""
    if seen is None:
        seen = set()
    if id(obj) in seen or depth > 4:
        return
    seen.add(id(obj))
    d = getattr(obj, "__dict__", None)
    if d is None:
        return
    for k in sorted(d):
        v = d[k]
        p = path + k
        if isinstance(v, numpy.ndarray):
            yield p, v
        elif isinstance(v, dict):
            yield p, v
            for kk in sorted(v, key=str):
                if isinstance(v[kk], numpy.ndarray) or hasattr(v[kk], "__dict__"):
                    yield f"{p}[{kk}]", v[kk]       # arrays, and objects such as scipy interpolators (identity only)
        elif isinstance(v, list):
            yield p, v
        elif isinstance(v, (numpy.random.Generator, numpy.random.RandomState)):
            continue
        elif type(v).__module__.startswith("pybrops"):
            yield p, v
            yield from leaves(v, p + ".", seen, depth + 1)


def _cells(a):
    n = a.size
    if n <= 32:
        return list(range(n))
    return sorted({0, 1, n // 2, n - 2, n - 1} | {int(numpy.ravel_multi_index(
        tuple((s - 1) if k == ax else 0 for k, s in enumerate(a.shape)), a.shape)) for ax in range(a.ndim)})


def _other(v):
    if isinstance(v, (bool, numpy.bool_)):
        return not v
    if isinstance(v, (int, numpy.integer)):
        return int(v) ^ 1
    if isinstance(v, (float, numpy.floating)):
        return 12345.5 if not (v == 12345.5) else -1.0
    if isinstance(v, str):
        return v + "·mutated"
    return "·mutated"


COPY_WAYS = {"copy.copy": _copy.copy, "copy.deepcopy": _copy.deepcopy,
             ".copy()": lambda o: o.copy(), ".deepcopy()": lambda o: o.deepcopy()}


def _copy_equal(name, obj, exp, expd, how, label):
    """copy one way and compare with the source; returns (copy, None) or raises Violation(sig suffix, detail)"""
    with P.quiet():
        c = COPY_WAYS[how](obj)
    if type(c) is not type(obj):
        raise Violation("class", f"copy is a {type(c).__name__}")
    if c is obj:
        raise Violation("same-object", "copy returned the object itself")
    d = P.diff(exp, P.observe(c))
    if d:
        raise Violation(f"{d[1]}:{d[0]}", f"{label}: copy differs from its source: {d}")
    if P.obs_digest(P.observe(obj)) != expd:
        raise Violation("mutates-source", "copying changed the source")
    return c


DUNDER = {".copy()": "copy.copy", ".deepcopy()": "copy.deepcopy"}


def copy_case(ctx, name, prof, how, seed):
    obj = P.build(name, prof, seed)
    exp = P.observe(obj)
    expd = P.obs_digest(exp)
    case = dict(kind="copy", cls=name, prof=prof["id"], how=how, seed=seed)
    ctx.evaluations += 1
    ctx.transitions += 1
    box = {}
    cls = type(obj)
    meth = _w(how)
    # a failure of .copy()/.deepcopy() that copy.copy/copy.deepcopy shows identically is the dunder's failure
    if how in DUNDER:
        try:
            _copy_equal(name, P.build(name, prof, seed), exp, expd, DUNDER[how], prof["id"])
            dunder_fail = None
        except Violation as v:
            dunder_fail = v.sig
        except Exception as e:
            dunder_fail = "exception:" + type(e).__name__
    else:
        dunder_fail = None

    def sigbase(suffix):
        m = _w(DUNDER[how]) if (how in DUNDER and dunder_fail == suffix) else meth
        return f"{sig_class(cls, (m,))[0]}.{m}"

    def go():
        try:
            box["c"] = _copy_equal(name, obj, exp, expd, how, prof["id"])
        except Violation as v:
            raise Violation(f"{sigbase(v.sig)}:{v.sig}", f"{name} " + v.detail, case)
        except Exception as e:
            raise Violation(f"{sigbase('exception:' + type(e).__name__)}:exception:{type(e).__name__}@{_site(e)}",
                            f"{name} {prof['id']}: {type(e).__name__}: {e}", case)

    ok = ctx.guard(go, case=case)
    ctx.flag(f"copy-way:{how}")
    ctx.count("copies")
    ctx.outcome(digest(("copy", name, prof["id"], how, ok)))
    if not ok or "deep" not in how:
        if ok:
            ctx.traces += 1
        return
    name_ = name
    name = f"{sig_class(cls, ('__deepcopy__',))[0]}"
    how_sig = "__deepcopy__"
    c = box["c"]
    # static: no shared mutable leaf
    lo = dict(leaves(obj))
    lc = dict(leaves(c))
    for p in sorted(lo):
        if p not in lc:
            continue
        a, b = lo[p], lc[p]
        shared = a is b or (isinstance(a, numpy.ndarray) and isinstance(b, numpy.ndarray) and a.size and numpy.shares_memory(a, b))
        if shared:
            ctx.violation(f"{name}.{how_sig}:shares-state:{p.lstrip('_')}",
                          f"{name_} {prof['id']}: deep copy and source share {type(a).__name__} '{p}'", dict(case, leaf=p))
            ok = False
    # dynamic: every single-cell mutation of the copy leaves the source unchanged
    nmut = 0
    for p, v in sorted(lc.items(), key=lambda kv: kv[0]):
        if isinstance(v, numpy.ndarray):
            if v.size == 0 or not v.flags.writeable:
                continue
            flat_ix = _cells(v)
            for ix in flat_ix:
                idx = numpy.unravel_index(ix, v.shape)
                old = v[idx]
                try:
                    v[idx] = _other(old)
                except Exception:
                    continue
                nmut += 1
                ctx.transitions += 1
                if P.obs_digest(P.observe(obj)) != expd:
                    d = P.diff(exp, P.observe(obj))
                    ctx.violation(f"{name}.{how_sig}:mutation-leaks:{p.lstrip('_')}",
                                  f"{name_} {prof['id']}: writing cell {tuple(int(i) for i in idx)} of the copy's '{p}' changed the source: {d}",
                                  dict(case, leaf=p, cell=[int(i) for i in idx]))
                    ok = False
                    v[idx] = old
                    break
                v[idx] = old
        elif isinstance(v, dict):
            v["·new-key"] = 1
            nmut += 1
            ctx.transitions += 1
            if P.obs_digest(P.observe(obj)) != expd:
                ctx.violation(f"{name}.{how_sig}:mutation-leaks:{p.lstrip('_')}",
                              f"{name_} {prof['id']}: adding a key to the copy's dict '{p}' changed the source", dict(case, leaf=p))
                ok = False
            del v["·new-key"]
            for kk in sorted(v, key=str):
                if not isinstance(v[kk], numpy.ndarray):
                    old = v[kk]
                    v[kk] = _other(old)
                    nmut += 1
                    ctx.transitions += 1
                    if P.obs_digest(P.observe(obj)) != expd:
                        ctx.violation(f"{name}.{how_sig}:mutation-leaks:{p.lstrip('_')}",
                                      f"{name_} {prof['id']}: changing key {kk!r} of the copy's dict '{p}' changed the source", dict(case, leaf=p))
                        ok = False
                    v[kk] = old
    ctx.count("copy-mutations", nmut)
    if name_ == "DenseMatrix" and prof["id"] == "a" and how == "copy.deepcopy":
        ctx.sample(dict(case, mutated_leaves=sorted(lc), single_cell_mutations=nmut))
    ctx.state(digest(("copy", name_, prof["id"], how)))
    if nmut:
        ctx.nontriv(digest(("copy", name_, prof["id"], how)))
        ctx.flag("copy-mutation-applied")
    if ok:
        ctx.traces += 1


def _first_array(o):
    return next(((p, v) for p, v in sorted(leaves(o), key=lambda kv: kv[0])
                 if isinstance(v, numpy.ndarray) and v.size and v.flags.writeable), None)


def copy_repeat(ctx, name, prof, how, seed):
    """Two copies of the SAME source by the same route, with the first copy and the source edited in between: the
    second copy must equal the current source, be a new object, and (deep routes) share nothing with source or first copy."""
    obj = P.build(name, prof, seed)
    cls = type(obj)
    meth = _w(how)
    base = f"{sig_class(cls, (meth,))[0]}.{meth}"
    case = dict(kind="copy", cls=name, prof=prof["id"], how=how, seed=seed)
    ctx.transitions += 2

    def go():
        with P.quiet():
            c1 = COPY_WAYS[how](obj)
        for o in (c1, obj):
            fa = _first_array(o)
            if fa is not None:
                idx = numpy.unravel_index(fa[1].size - 1, fa[1].shape)
                fa[1][idx] = _other(fa[1][idx])
        exp2 = P.observe(obj)
        with P.quiet():
            c2 = COPY_WAYS[how](obj)
        if c2 is c1 or c2 is obj:
            raise Violation(f"{base}:second-copy-is-same-object", f"{name} {prof['id']}: the second copy is "
                            f"{'the first copy' if c2 is c1 else 'the source'}", case)
        d = P.diff(exp2, P.observe(c2))
        if d:
            raise Violation(f"{base}:second-copy-stale:{d[1]}:{d[0]}",
                            f"{name} {prof['id']}: a second copy taken after the source was edited differs from the source: {d}", case)
        if "deep" in how:
            l2 = dict(leaves(c2))
            for other, label in ((dict(leaves(obj)), "source"), (dict(leaves(c1)), "first copy")):
                for p_ in sorted(l2):
                    a, b = l2[p_], other.get(p_)
                    if b is None:
                        continue
                    if a is b or (isinstance(a, numpy.ndarray) and isinstance(b, numpy.ndarray) and a.size and numpy.shares_memory(a, b)):
                        raise Violation(f"{base}:second-copy-shares-state:{p_.lstrip('_')}",
                                        f"{name} {prof['id']}: second deep copy shares '{p_}' with the {label}", case)

    if ctx.guard(go, case=case, sig_prefix=f"{base}:repeat:"):
        ctx.flag("copy-repeat:" + how)
    ctx.count("copy-repeats")


def _w(how):
    return {"copy.copy": "__copy__", "copy.deepcopy": "__deepcopy__", ".copy()": "copy", ".deepcopy()": "deepcopy"}[how]


def run_copy(ctx, name):
    ctx.bounds.update({"copy_ways": list(COPY_WAYS), "copy_mutations": "every cell of every array with <= 32 cells, "
                       "corner/middle/per-axis cells of larger ones; every key of every dict"})
    for prof, _ in P.build_pool(name, "wide", ctx.seed):
        for how in COPY_WAYS:
            copy_case(ctx, name, prof, how, ctx.seed)
            copy_repeat(ctx, name, prof, how, ctx.seed)
        if prof.get("post") or prof["id"] in ("kind-nearest", "fill-array", "no-spline-ungrouped"):
            ctx.flag("copy-post-op:" + prof["id"])
    ctx.flag(f"copy:{name}")


# ----------------------------------------------------------------------------
# VCF
CALLS = ["0|0", "0|1", "1|0", "1|1"]
# REF/ALT alphabet: SNP, deletion (multi-base REF), MNP, insertion (multi-base ALT); the coordinate of a record is its POS
ALLELES = [("A", "T"), ("ACG", "A"), ("AT", "GC"), ("C", "CTT")]
VCF_HEADER = ('##fileformat=VCFv4.2\n##contig=<ID={c1}>\n##contig=<ID={c2}>\n'
              '##FORMAT=<ID=GT,Number=1,Type=String,Description="Genotype">\n')


def vcf_alphabet(seed):
    v = seed % 3
    return dict(samples=[["s1", "ŧaxön–1", "s3"], ["B73", "Mo17", "品種三"], ["x", "ÿ", "a b".replace(" ", "_")]][v],
                contigs=[(1, 2), (3, 10), (7, 5)][v],
                ids=[["snpA", "id–ü", "m3"], ["rs1", "rs22", "ĸ"], ["M_1", "M_2", "标"]][v],
                posbase=[10, 1000000, 3][v])


def vcf_layouts(nr):
    """(chrom index vector, position pattern, id pattern)"""
    chroms = list(itertools.product((0, 1), repeat=nr))
    if nr == 1:
        poss, idp = [(1,)], [(1,), (0,)]
    elif nr == 2:
        poss, idp = [(1, 2), (2, 1), (1, 1)], [(1, 1), (0, 0), (1, 0)]
    else:
        poss, idp = [(1, 2, 3), (3, 2, 1), (2, 1, 3), (1, 1, 2)], [(1, 1, 1), (0, 0, 0), (0, 1, 1)]
    return [(c, p, i) for c in chroms for p in poss for i in idp]


def _vcf_shards(tier):
    T = tier == "thorough"
    out = []

    def add(ns, nr, mode, nparts):
        for part in range(nparts):
            out.append(("vcf", ns, nr, mode, part, nparts))
    # full product calls x layouts
    for ns, nr in ((1, 1), (1, 2), (2, 1), (1, 3), (3, 1)):
        add(ns, nr, "full", 1)
    add(2, 2, "full", 8 if T else 4)
    if T:
        add(3, 2, "full", 32)
        add(2, 3, "sub12", 16)
        add(3, 3, "rot", 48)
    else:
        add(3, 2, "rot", 4)
        add(2, 3, "rot", 4)
        add(3, 3, "rot-prefix5", 2)
    return out


def vcf_cases(ns, nr, mode):
    lay = vcf_layouts(nr)
    ncell = ns * nr
    if mode == "full":
        for ci in range(4 ** ncell):
            for li in range(len(lay)):
                yield ci, li
    elif mode == "sub12":
        step = max(1, len(lay) // 12)
        sub = list(range(0, len(lay), step))
        for ci in range(4 ** ncell):
            for k in range(3):
                yield ci, sub[(ci + k * 5) % len(sub)]
    elif mode == "rot":
        for ci in range(4 ** ncell):
            yield ci, ci % len(lay)
    elif mode == "rot-prefix5":
        for ci in range(4 ** 5):
            yield ci, ci % len(lay)


def vcf_text(seed, ns, nr, ci, li):
    a = vcf_alphabet(seed)
    chrom_ix, posp, idp = vcf_layouts(nr)[li]
    calls = []
    x = ci
    for _ in range(ns * nr):
        calls.append(x % 4)
        x //= 4
    recs = []
    for j in range(nr):
        recs.append((a["contigs"][chrom_ix[j]], a["posbase"] * posp[j] + 0, a["ids"][j] if idp[j] else ".",
                     [calls[j * ns + s] for s in range(ns)]))
    samples = a["samples"][:ns]
    lines = [VCF_HEADER.format(c1=a["contigs"][0], c2=a["contigs"][1]),
             "#CHROM\tPOS\tID\tREF\tALT\tQUAL\tFILTER\tINFO\tFORMAT\t" + "\t".join(samples) + "\n"]
    for j, (c, p, i, cl) in enumerate(recs):
        ref, alt = ALLELES[(ci + li + j) % len(ALLELES)]      # rotates with the case: every size sees every allele class
        lines.append(f"{c}\t{p}\t{i}\t{ref}\t{alt}\t.\t.\t.\tGT\t" + "\t".join(CALLS[k] for k in cl) + "\n")
    return "".join(lines), samples, recs


def vcf_expect(samples, recs, phased, auto):
    """Expected arrays straight from the VCF definition."""
    ns, nr = len(samples), len(recs)
    order = list(range(nr))
    ties = False
    if auto:
        order.sort(key=lambda j: (recs[j][0], recs[j][1]))          # stable
        keys = [(recs[j][0], recs[j][1]) for j in order]
        ties = len(set(keys)) < len(keys)
    ph = numpy.zeros((2, ns, nr), dtype="int8")
    for k, j in enumerate(order):
        for s in range(ns):
            ph[0, s, k] = recs[j][3][s] // 2
            ph[1, s, k] = recs[j][3][s] % 2
    exp = dict(taxa=numpy.array(samples, dtype=object),
               vrnt_chrgrp=numpy.array([recs[j][0] for j in order], dtype="int64"),
               vrnt_phypos=numpy.array([recs[j][1] for j in order], dtype="int64"),
               vrnt_name=[recs[j][2] for j in order],
               mat=ph if phased else ph.sum(0, dtype="int8"))
    if auto:
        names = sorted({recs[j][0] for j in range(nr)})
        ch = [recs[j][0] for j in order]
        exp["vrnt_chrgrp_name"] = numpy.array(names, dtype="int64")
        exp["vrnt_chrgrp_stix"] = numpy.array([ch.index(c) for c in names], dtype="int64")
        exp["vrnt_chrgrp_len"] = numpy.array([ch.count(c) for c in names], dtype="int64")
        exp["vrnt_chrgrp_spix"] = exp["vrnt_chrgrp_stix"] + exp["vrnt_chrgrp_len"]
    else:
        for f in ("vrnt_chrgrp_name", "vrnt_chrgrp_stix", "vrnt_chrgrp_len", "vrnt_chrgrp_spix"):
            exp[f] = None
    return exp, ties


def vcf_check(name, obj, samples, recs, phased, auto):
    P_ = f"{name}.from_vcf:"
    exp, ties = vcf_expect(samples, recs, phased, auto)
    if type(obj).__name__ != name:
        raise Violation(P_ + "class", f"got a {type(obj).__name__}")
    for f in ("taxa", "vrnt_chrgrp", "vrnt_phypos", "mat", "vrnt_chrgrp_name", "vrnt_chrgrp_stix", "vrnt_chrgrp_spix", "vrnt_chrgrp_len"):
        got = getattr(obj, f)
        e = exp[f]
        if ties and f in ("mat",):
            continue     # order inside a (CHROM, POS) tie is left free: checked column-wise below
        d = P.diff(e, got)
        if d:
            raise Violation(P_ + f"{d[1]}:{f}", f"{f}: {d[2]} (auto_group_vrnt={auto})")
    names = obj.vrnt_name
    if not isinstance(names, numpy.ndarray) or names.dtype != object or names.shape != (len(recs),):
        raise Violation(P_ + "shape:vrnt_name", f"vrnt_name is {names!r}")
    mat = obj.mat
    cols = lambda m, k: m[..., k].tolist()
    if not ties:
        for k, e in enumerate(exp["vrnt_name"]):
            g = names[k]
            if e == ".":
                if g not in (".", "None", None):
                    raise Violation(P_ + "value:vrnt_name", f"record without ID got name {g!r}")
            elif type(g) is not str or g != e:
                raise Violation(P_ + "value:vrnt_name", f"variant {k}: expected ID {e!r} got {g!r}")
    else:
        # multiset of (chrom, pos, id, column) must agree
        def norm(x):
            return "." if x in (".", "None", None) else x
        e_rows = sorted((int(exp["vrnt_chrgrp"][k]), int(exp["vrnt_phypos"][k]), norm(exp["vrnt_name"][k]), repr(cols(exp["mat"], k))) for k in range(len(recs)))
        g_rows = sorted((int(obj.vrnt_chrgrp[k]), int(obj.vrnt_phypos[k]), norm(names[k]), repr(cols(mat, k))) for k in range(len(recs)))
        if mat.dtype != numpy.dtype("int8") or mat.shape != exp["mat"].shape:
            raise Violation(P_ + "dtype:mat", f"mat {mat.dtype}{mat.shape}")
        if e_rows != g_rows:
            raise Violation(P_ + "value:mat", f"records (chrom,pos,id,calls) read {g_rows} expected {e_rows}")
    ex_ploidy = 2
    if obj.ploidy != ex_ploidy:
        raise Violation(P_ + "value:ploidy", f"ploidy {obj.ploidy}")
    if phased and obj.nphase != 2:
        raise Violation(P_ + "value:nphase", f"nphase {obj.nphase}")
    for f in ("taxa_grp", "vrnt_genpos", "vrnt_xoprob", "vrnt_hapgrp", "vrnt_hapalt", "vrnt_hapref", "vrnt_mask",
              "taxa_grp_name", "taxa_grp_stix", "taxa_grp_spix", "taxa_grp_len"):
        if getattr(obj, f) is not None:
            raise Violation(P_ + f"stale:{f}", f"{f} is {getattr(obj, f)!r} although the VCF carries no such information")


def vcf_case(ctx, sc, seed, ns, nr, ci, li, sample=False):
    text, samples, recs = vcf_text(seed, ns, nr, ci, li)
    fn = sc.path("x–ü.vcf")
    with open(fn, "w", encoding="utf8") as f:
        f.write(text)
    case = dict(kind="vcf", ns=ns, nr=nr, calls=ci, layout=li, seed=seed)
    ctx.evaluations += 1
    allok = True
    for name in ("DensePhasedGenotypeMatrix", "DenseGenotypeMatrix"):
        cls = P.get_class(name)
        for auto in (True, False):
            ctx.transitions += 1

            def go():
                obj = cls.from_vcf(fn, auto_group_vrnt=auto)
                try:
                    vcf_check(name, obj, samples, recs, name.startswith("DensePhased"), auto)
                except Violation as v:
                    raise Violation(v.sig, v.detail + f" | VCF: samples {samples} records {recs}", dict(case, cls=name, auto=auto))
                if name.startswith("DensePhased") and not auto and ctx.evaluations % 17 == 0:
                    ctx.outcome(digest((obj.mat, obj.vrnt_chrgrp, obj.vrnt_phypos)))
            allok &= ctx.guard(go, case=dict(case, cls=name, auto=auto), sig_prefix=f"{name}.from_vcf:")
    chrom_ix, posp, idp = vcf_layouts(nr)[li]
    if len(set(posp)) < len(posp) and any(chrom_ix[i] == chrom_ix[j] and posp[i] == posp[j] for i in range(nr) for j in range(i)):
        ctx.flag("vcf:tie")
    if 0 in idp:
        ctx.flag("vcf:missing-id")
    for j in range(nr):
        ref, alt = ALLELES[(ci + li + j) % len(ALLELES)]
        ctx.flag("vcf:allele:" + ("snp" if len(ref) == len(alt) == 1 else "deletion" if len(ref) > len(alt) else
                                  "insertion" if len(alt) > len(ref) else "mnp"))
    if len(set(chrom_ix)) > 1:
        ctx.flag("vcf:two-contigs")
    if list(zip(chrom_ix, posp)) != sorted(zip(chrom_ix, posp)):
        ctx.flag("vcf:unsorted")
    ctx.state(digest(("vcf", ns, nr, ci, li)))
    if ci % 4 in (1, 2):
        ctx.nontriv(digest(("vcf", ns, nr, ci, li)))
    if allok:
        ctx.traces += 1
    ctx.count("vcf-files")
    if sample and ctx.evaluations == 37:
        ctx.sample(dict(case, text=text))


def run_vcf(ctx, sc, spec):
    _, ns, nr, mode, part, nparts = spec
    ctx.bounds.update({"vcf_max_samples": 3, "vcf_max_records": 3, "vcf_calls": CALLS, "vcf_contigs": 2, "vcf_ref_alt": [list(a) for a in ALLELES],
                       "vcf_enumeration": "calls x layouts full product for 1x1,1x2,2x1,1x3,3x1,2x2 (+3x2 in thorough); all call "
                                          "matrices with rotating (quick) / 3-of-12 sub-sampled (thorough) layouts for 2x3, "
                                          "rotating layouts for 3x2 (quick) and 3x3"})
    for k, (ci, li) in enumerate(vcf_cases(ns, nr, mode)):
        if k % nparts != part:
            continue
        vcf_case(ctx, sc, ctx.seed, ns, nr, ci, li, sample=(part == 0 and (ns, nr) == (2, 2)))
    ctx.flag(f"vcf:{ns}x{nr}")


# ----------------------------------------------------------------------------
def finalize(ctx, tier, seed):
    if _only():
        ctx.capped.append("VERIF_C16_ONLY=%s: partial run" % os.environ.get("VERIF_C16_ONLY"))
        return
    ctx.bounds["classes_not_constructed"] = NOT_CONSTRUCTED
    ctx.bounds["classes"] = {"hdf5": len(HDF5_CLASSES), "table": len(TABLE_CLASSES), "copy": len(ALL_CLASSES)}
    ctx.bounds["vcf_3x3"] = ("all 4^9 call matrices x rotating layouts" if tier == "thorough"
                             else "the 4^5 call matrices that vary the first five cells x rotating layouts")
    for name in HDF5_CLASSES:
        assert f"hdf5:{name}" in ctx.flags, name
        assert f"overwrite:{name}" in ctx.flags, name
    for name in TABLE_CLASSES:
        assert f"table:{name}" in ctx.flags, name
    for name in ALL_CLASSES:
        assert f"copy:{name}" in ctx.flags, name
    for f in ("overwrite:rich->poor", "overwrite:poor->rich", "two-locations-in-one-file", "nested-locations",
              "via:str", "via:path", "via:handle", "table-form:pandas", "table-form:csv", "copy-mutation-applied",
              "vcf:tie", "vcf:missing-id", "vcf:allele:snp", "vcf:allele:deletion", "vcf:allele:insertion", "vcf:allele:mnp", "vcf:two-contigs", "vcf:unsorted", "vcf:3x3", "vcf:2x2", "vcf:1x1"):
        assert f in ctx.flags, f
    for gi in range(len(GROUPS)):
        assert f"group-index:{gi}" in ctx.flags, gi
    for f in ("copy-post-op:post-remove-stale-spline", "copy-post-op:post-select-drops-chr", "copy-post-op:user-spline",
              "copy-post-op:kind-nearest", "copy-post-op:fill-array", "copy-post-op:post-ungroup", "copy-post-op:post-sort",
              "copy-post-op:post-remove", "copy-post-op:post-coef-edit", "copy-post-op:post-reassign",
              "copy-post-op:post-param-edit", "copy-post-op:post-inplace-arith",
              "hdf5-post-op:post-ungroup", "hdf5-post-op:post-sort", "hdf5-post-op:post-remove", "hdf5-post-op:post-coef-edit",
              "table-post-op:post-sort", "table-post-op:post-coef-edit",
              "table:gmap:read-by-index", "table:gmap:csv:headerless-by-index", "table:long:read-by-index-trait-too",
              "table:bv:read-by-index-traits-too", "table:bv:csv:headerless-by-index", "table:gmod:trait-cols-by-index",
              "table:v2:csv:headerless-by-index", "table:c4:read-by-index", "table:cmat:read-by-index"):
        assert f in ctx.flags, f
    for how in COPY_WAYS:
        assert f"copy-way:{how}" in ctx.flags, how
        assert f"copy-repeat:{how}" in ctx.flags, how
    assert ctx.counters.get("copy-mutations", 0) > 1000, ctx.counters.get("copy-mutations")
    assert ctx.counters.get("vcf-files", 0) > 1000
    assert len(ctx.outcomes) > 500, len(ctx.outcomes)


# ----------------------------------------------------------------------------
def replay(case, ctx):
    sc = Scratch()
    try:
        k = case["kind"]
        if k == "hdf5":
            name = case["cls"]
            ex = H5Explorer(ctx, sc, name, "wide", case["seed"])
            ids = [p["id"] for p in ex.profs]
            ex.run_history(tuple((ids.index(pid), gi, via) for pid, gi, via in case["history"]))
        elif k == "table":
            prof = {p["id"]: p for p in P.profiles(case["cls"], "wide")}[case["prof"]]
            table_case(ctx, sc, case["cls"], prof, case["option_set"], case["form"], case["seed"])
        elif k == "copy":
            prof = {p["id"]: p for p in P.profiles(case["cls"], "wide")}[case["prof"]]
            copy_case(ctx, case["cls"], prof, case["how"], case["seed"])
            copy_repeat(ctx, case["cls"], prof, case["how"], case["seed"])
        elif k == "vcf":
            vcf_case(ctx, sc, case["seed"], case["ns"], case["nr"], case["calls"], case["layout"])
    finally:
        sc.close()
