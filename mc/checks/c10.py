"""C10 — selection limits bracket every attainable value and only ever tighten.

Layer E (edges): every population of the universe U(m, n<=nmax) x every selection (parent sub-multiset of size
   <=3, or a plain select_taxa) x mating protocol event x every crossover answer (ScriptedGenerator; deviation
   bounded for the large events) -> the edge invariant on P -> P'.  Because U is closed under the transitions
   (offspring sizes <= nmax) every closed history inside U is a path of checked edges.
Layer H (histories): explicit-state BFS (mc.explore.bfs) over breeding histories founder -> select_taxa -> mate ->
   ... on live library objects; cumulative invariant against the founder, history replay on fresh objects.
Layer S (sizes): every population size n = 1..N: fixed populations (limits = common value), one-copy-from-fixed
   populations, and edges single parent -> n progeny.
"""
from __future__ import annotations
import itertools
from fractions import Fraction
import numpy

from .. import compat  # noqa: F401
from ..core import Violation, require, digest
from ..env import ScriptedGenerator, Handler, shape_of, UnscriptedDraw
from ..explore import explore, Chooser, bfs
from ..ref import genostats as R

ID = "C10"
TECHNIQUE = ("explicit-state exploration of closed breeding histories: complete transition relation over all small "
             "populations (all selections x mating protocols x all crossover answers) + BFS over live histories + "
             "exhaustive population-size sweep; invariant bracket / monotone limits / no allele reappears")
RULE = ("state = population as sorted multiset of phased individuals; one execution = one (population, parent "
        "sub-multiset, protocol event, crossover answer vector) run through the real mate() (or select_taxa) and "
        "usl/lsl/gebv evaluated on parent and child; non-trivial = parent polymorphic; distinct non-trivial counted "
        "by (allele-presence pattern of parent, child state); outcomes = distinct (child state, usl, lsl)")
ASSUME = ["numpy.random.Generator.uniform(0,1) returns multiples of 2^-53 in [0,1); crossover probabilities are dyadic so every scripted answer is such a value",
          "diploid populations, alleles coded 0/1",
          "breeding values: library gebv_numpy / gebv().unscale() and, independently, sum_j z_j u_j in Fractions",
          "inequalities with slack 1e-12*(1+ploidy*sum|u|); equalities rel 1e-9",
          "mc/compat.py restores removed numpy names only"]

S1 = "@rounded-reciprocal-size"
MODEL = "DenseAdditiveLinearGenomicModel"
PROTOS = ("SelfCross", "TwoWayCross", "TwoWayDHCross", "ThreeWayCross", "ThreeWayDHCross", "FourWayCross", "FourWayDHCross")


# ----------------------------------------------------------------------------
# value alphabets (rotated by VERIF_SEED; structure never depends on the seed)
def effects(seed):
    return [(-1.0, 0.0, 0.5, 2.0), (-0.75, 0.0, 1.5, 4.0), (-3.0, 0.0, 0.125, 1.0)][seed % 3]


def q_value(seed):
    return [0.25, 0.375, 0.125][seed % 3]


def layout(m, seed):
    q = q_value(seed)
    if m == 2:
        return (2,), [0.5, q]
    if m == 3:
        return (2, 1), [0.5, q, 0.5]
    return (m,), [0.5] + [q] * (m - 1)


_CLS = {}


def lib():
    if not _CLS:
        import importlib
        from pybrops.popgen.gmat.DensePhasedGenotypeMatrix import DensePhasedGenotypeMatrix
        from pybrops.popgen.gmat.DenseGenotypeMatrix import DenseGenotypeMatrix
        from pybrops.model.gmod.DenseAdditiveLinearGenomicModel import DenseAdditiveLinearGenomicModel
        _CLS.update(P=DensePhasedGenotypeMatrix, G=DenseGenotypeMatrix, M=DenseAdditiveLinearGenomicModel)
        for p in PROTOS:
            _CLS[p] = getattr(importlib.import_module(f"pybrops.breed.prot.mate.{p}"), p)
    return _CLS


def make_model(U, seed, q=2):
    """U: (m,t) effects.  beta has q fixed effects (intercept + q-1 others) with positive and negative entries."""
    L = lib()
    U = numpy.array(U, dtype="float64")
    t = U.shape[1]
    beta = numpy.zeros((q, t), dtype="float64")
    beta[0] = [((-1) ** k) * (k % 5) * 0.5 + (seed % 3) for k in range(t)]
    for r in range(1, q):
        beta[r] = [0.25 * ((k + r) % 3) - 0.25 for k in range(t)]
    return L["M"](beta=beta, u_misc=None, u_a=U, trait=numpy.array([f"tr{k}" for k in range(t)], dtype=object))


_MODELS = {}


def models(m, seed):
    """wide: all 4^m effect vectors as traits; narrow: every single-trait model and a few two-trait models."""
    key = (m, seed)
    if key not in _MODELS:
        E = effects(seed)
        cols = list(itertools.product(E, repeat=m))
        U = numpy.array(cols, dtype="float64").T.copy()            # (m, 4^m)
        wide = make_model(U, seed, q=2)
        T = U.shape[1]
        narrow = [(make_model(U[:, [k]], seed, q=1), [k]) for k in range(T)]
        for k in range(0, T, max(1, T // 8)):
            k2 = (k * 7 + 3) % T
            narrow.append((make_model(U[:, [k, k2]], seed, q=3), [k, k2]))
        _MODELS[key] = (wide, narrow, U)
    return _MODELS[key]


# ----------------------------------------------------------------------------
# populations
def individuals(m):
    haps = list(itertools.product((0, 1), repeat=m))
    return [(a, b) for a in haps for b in haps]


def universe(m, nmax):
    inds = individuals(m)
    out = []
    for n in range(1, nmax + 1):
        for comb in itertools.combinations_with_replacement(range(len(inds)), n):
            out.append(tuple(inds[i] for i in comb))
    return out


def pop_mat(pop):
    n, m = len(pop), len(pop[0][0])
    mat = numpy.empty((2, n, m), dtype="int8")
    for i, (a, b) in enumerate(pop):
        mat[0, i] = a
        mat[1, i] = b
    return mat


def mat_pop(mat, sort=True):
    inds = [(tuple(int(v) for v in mat[0, i]), tuple(int(v) for v in mat[1, i])) for i in range(mat.shape[1])]
    return tuple(sorted(inds)) if sort else tuple(inds)


def make_pg(mat, seed, names="f", labels=True):
    L = lib()
    _, n, m = mat.shape
    lay, xop = layout(m, seed)
    chrgrp = numpy.repeat(numpy.arange(1, len(lay) + 1), lay).astype("int64")
    phypos = numpy.concatenate([numpy.arange(1, c + 1) * 10 for c in lay]).astype("int64")
    genpos = numpy.concatenate([numpy.arange(c) * 0.25 for c in lay]).astype("float64")
    pg = L["P"](mat=numpy.ascontiguousarray(mat, dtype="int8"),
                taxa=numpy.array([f"{names}{i}" for i in range(n)], dtype=object) if labels else None,
                taxa_grp=numpy.zeros(n, dtype="int64") if labels else None,
                vrnt_chrgrp=chrgrp, vrnt_phypos=phypos,
                vrnt_name=numpy.array([f"m{j}" for j in range(m)], dtype=object),
                vrnt_genpos=genpos, vrnt_xoprob=numpy.array(xop, dtype="float64"))
    pg.group_vrnt()
    return pg


def presence(mat):
    """per locus: bit 1 = allele 0 present, bit 2 = allele 1 present (from the raw calls)."""
    has1 = mat.any(axis=(0, 1))
    has0 = (mat == 0).any(axis=(0, 1))
    return has0.astype("int8") + 2 * has1.astype("int8")


# ----------------------------------------------------------------------------
# observation + invariants
class Multi(Exception):
    """several independent clause failures of one case (usl and lsl are different call sites)."""

    def __init__(self, vs):
        super().__init__("; ".join(v.sig for v in vs))
        self.vs = vs


def guard(ctx, fn, case, sig_prefix=""):
    try:
        fn()
        return True
    except Multi as mv:
        for v in mv.vs:
            ctx.violation(v.sig, v.detail, case() if callable(case) else case)
        return False
    except Exception as e:      # noqa: BLE001  (classified by ctx.guard)
        def again(e=e):
            raise e
        return ctx.guard(again, case=case() if callable(case) else case, sig_prefix=sig_prefix)


def _raise(acc):
    if acc:
        raise Multi(acc)


class Obs:
    __slots__ = ("n", "usl", "lsl", "g", "pres", "fixed", "key", "bad", "rusl", "rlsl", "ploidy", "kind")


def slack(model):
    return 1e-12 * (1.0 + 4.0 * float(numpy.abs(model.u_a).sum(0).max()))


def _suffix(n, pres, ploidy=2):
    """S1 class: population size whose 1/(ploidy*n) rounds and at least one locus fixed for allele 1."""
    return S1 if R.reciprocal_rounds(ploidy * n) and bool((pres == 2).any()) else ""


def attainable(model, pres, ploidy=2):
    """Reference extremes given the alleles present (per locus ploidy*max / ploidy*min of {0 if allele 0 present, u if
    allele 1 present}).  Used for the vacuity/coverage flags only (so that they do not depend on the library's
    answers); the property does not demand that the limits be attained, so this is not an oracle."""
    U = model.u_a
    has0 = ((pres & 1) != 0)[:, None]
    has1 = ((pres & 2) != 0)[:, None]
    hi = numpy.where(has1 & has0, numpy.maximum(U, 0.0), numpy.where(has1, U, 0.0))
    lo = numpy.where(has1 & has0, numpy.minimum(U, 0.0), numpy.where(has1, U, 0.0))
    return float(ploidy) * hi.sum(0), float(ploidy) * lo.sum(0)


def presence_dosage(Z, ploidy):
    """per locus presence bits from an (n,p) dosage matrix of the given ploidy (bit 1: allele 0, bit 2: allele 1)."""
    has1 = (Z > 0).any(axis=0)
    has0 = (Z < ploidy).any(axis=0)
    return has0.astype("int8") + 2 * has1.astype("int8")


def observe(model, obj, kind="phased", ploidy=2, Zref=None):
    """usl/lsl/gebv of a live genotype-matrix object with the model (unscale=False) + bracket + fixed clause.
    `ploidy` is the TRUE ploidy of the population (known to the harness), not what the object reports; for an
    unphased object `Zref` is the true dosage matrix of the population (the presence bits come from it)."""
    o = Obs()
    o.kind, o.ploidy = kind, ploidy
    o.usl = model.usl(obj)
    o.lsl = model.lsl(obj)
    Z = obj.mat_asformat("{0,1,2}")
    o.n = Z.shape[0]
    o.g = model.gebv_numpy(Z)
    o.pres = presence(obj.mat) if kind == "phased" else presence_dosage(Z if Zref is None else Zref, ploidy)
    o.fixed = bool(((o.pres == 1) | (o.pres == 2)).all())
    o.rusl, o.rlsl = attainable(model, o.pres, ploidy)
    o.bad = check_limits(model, o.usl, o.lsl, o.g, o.n, o.pres, o.fixed, kind, "library", ploidy)
    return o


def check_limits(model, usl, lsl, g, n, pres, fixed, kind, gsrc, ploidy=2):
    t = model.u_a.shape[1]
    eps = slack(model)
    sfx = _suffix(n, pres, ploidy)
    for nm, v in (("usl", usl), ("lsl", lsl)):
        require(isinstance(v, numpy.ndarray) and v.shape == (t,) and bool(numpy.isfinite(v).all()), f"{MODEL}.{nm}[{kind}]:shape",
                lambda: f"{nm} returned {v!r} for {t} traits")
    acc = []
    gmax, gmin = g.max(0), g.min(0)
    bad = gmax > usl + eps
    if bad.any():
        k = int(numpy.flatnonzero(bad)[0])
        acc.append(Violation(f"{MODEL}.usl[{kind}]:below-max-breeding-value" + sfx,
                             f"trait {k} (effects {model.u_a[:, k].tolist()}): usl {usl[k]!r} < max {gsrc} breeding value {gmax[k]!r} in a population of {n}; alleles present {pres.tolist()}"))
    bad = gmin < lsl - eps
    if bad.any():
        k = int(numpy.flatnonzero(bad)[0])
        acc.append(Violation(f"{MODEL}.lsl[{kind}]:above-min-breeding-value" + sfx,
                             f"trait {k} (effects {model.u_a[:, k].tolist()}): lsl {lsl[k]!r} > min {gsrc} breeding value {gmin[k]!r} in a population of {n}; alleles present {pres.tolist()}"))
    if fixed:
        tol = 1e-9 * numpy.maximum(1.0, numpy.abs(g[0])) + 1e-12
        for nm, v in (("usl", usl), ("lsl", lsl)):
            bad = numpy.abs(v - g[0]) > tol
            if bad.any():
                k = int(numpy.flatnonzero(bad)[0])
                acc.append(Violation(f"{MODEL}.{nm}[{kind}]:not-common-value-at-fixed-population" + sfx,
                                     f"population of {n} fixed at all loci (presence {pres.tolist()}), trait {k} effects "
                                     f"{model.u_a[:, k].tolist()}: {nm} = {v[k]!r}, common breeding value = {g[0][k]!r}"))
    return acc


_EDGE_NAMES = {
    "": ("allele-reappeared", "increased-along-history", "decreased-along-history",
         "descendant-above-ancestor-limit", "descendant-below-ancestor-limit", "parent population"),
    # the population that breeds is the set of taxa NAMED in xconfig, whatever larger pool object they are indexed in
    "named": ("allele-absent-from-named-parents", "above-limit-of-named-parents", "below-limit-of-named-parents",
              "progeny-above-limit-of-named-parents", "progeny-below-limit-of-named-parents", "named parents"),
}


def check_edge(model, po, co, how, rel=""):
    """P -> P' : limits only tighten, descendants stay inside the ancestor's limits, no allele reappears.
    Returns the list of failed clauses.  rel='named': P is the sub-population of parents named in xconfig."""
    eps = slack(model)
    sfx = _suffix(co.n, co.pres, co.ploidy) or _suffix(po.n, po.pres, po.ploidy)
    nm = _EDGE_NAMES[rel]
    kd = co.kind
    acc = []
    back = (co.pres & ~po.pres) != 0
    if back.any():
        acc.append(Violation(f"{how}:{nm[0]}", f"locus {int(numpy.flatnonzero(back)[0])}: alleles present in {nm[5]} "
                             f"{po.pres.tolist()} (1=only 0, 2=only 1, 3=both), in offspring {co.pres.tolist()}"))
    bad = co.usl > po.usl + eps
    if bad.any():
        k = int(numpy.flatnonzero(bad)[0])
        acc.append(Violation(f"{MODEL}.usl[{kd}]:{nm[1]}" + sfx,
                             f"trait {k} effects {model.u_a[:, k].tolist()}: usl {po.usl[k]!r} (n={po.n}, presence {po.pres.tolist()}) -> "
                             f"{co.usl[k]!r} (n={co.n}, presence {co.pres.tolist()}) via {how}"))
    bad = co.lsl < po.lsl - eps
    if bad.any():
        k = int(numpy.flatnonzero(bad)[0])
        acc.append(Violation(f"{MODEL}.lsl[{kd}]:{nm[2]}" + sfx,
                             f"trait {k} effects {model.u_a[:, k].tolist()}: lsl {po.lsl[k]!r} (n={po.n}, presence {po.pres.tolist()}) -> "
                             f"{co.lsl[k]!r} (n={co.n}, presence {co.pres.tolist()}) via {how}"))
    gmx, gmn = co.g.max(0), co.g.min(0)
    bad = gmx > po.usl + eps
    if bad.any():
        k = int(numpy.flatnonzero(bad)[0])
        acc.append(Violation(f"{MODEL}.usl[{kd}]:{nm[3]}" + sfx,
                             f"trait {k} effects {model.u_a[:, k].tolist()}: a descendant has breeding value {gmx[k]!r} > usl {po.usl[k]!r} of the {nm[5]} via {how}"))
    bad = gmn < po.lsl - eps
    if bad.any():
        k = int(numpy.flatnonzero(bad)[0])
        acc.append(Violation(f"{MODEL}.lsl[{kd}]:{nm[4]}" + sfx,
                             f"trait {k} effects {model.u_a[:, k].tolist()}: a descendant has breeding value {gmn[k]!r} < lsl {po.lsl[k]!r} of the {nm[5]} via {how}"))
    return acc


def gebv_reference(pop, U):
    """(n,t) float array of sum_j z_j u_j evaluated in Fractions, rounded once."""
    out = numpy.empty((len(pop), U.shape[1]), dtype="float64")
    cols = [[Fraction(float(U[j, k])) for j in range(U.shape[0])] for k in range(U.shape[1])]
    for i, ind in enumerate(pop):
        for k, u in enumerate(cols):
            out[i, k] = float(R.gebv_ref(ind, u))
    return out


def deep_state(ctx, pop, seed, case):
    """Everything that is a function of one population: three input kinds (phased, unphased, ndarray) x
    unscale False/True x wide and narrow models x library and reference breeding values."""
    L = lib()
    m = len(pop[0][0])
    wide, narrow, U = models(m, seed)
    mat = pop_mat(pop)
    pres = presence(mat)
    fixed = bool(((pres == 1) | (pres == 2)).all())
    assert fixed == R.is_fixed(list(pop))
    n = len(pop)
    pg = make_pg(mat, seed)
    Z = mat.sum(0, dtype="int8")
    ug = L["G"](Z.copy(), ploidy=2)
    gref = gebv_reference(pop, U)
    subjects = (("phased", pg), ("unphased", ug), ("ndarray", Z))

    def one(kind, obj, model, cols):
        def body():
            g0 = model.gebv_numpy(Z)
            ctx.transitions += 5
            usl, lsl = model.usl(obj), model.lsl(obj)
            acc = check_limits(model, usl, lsl, g0, n, pres, fixed, kind, "library")
            acc += check_limits(model, usl, lsl, gref[:, cols], n, pres, fixed, kind, "reference")
            uslU, lslU = model.usl(obj, unscale=True), model.lsl(obj, unscale=True)
            bv = model.gebv(obj)
            gU = bv.unscale()
            require(gU.shape == g0.shape, f"{MODEL}.gebv[{kind}]:shape", lambda: f"{gU.shape}")
            acc += check_limits(model, uslU, lslU, gU, n, pres, fixed, kind + ",unscale", "library")
            before_ok = bool(numpy.array_equal(pg.mat, mat))
            require(before_ok, f"{MODEL}.usl[{kind}]:input-mutated", "population matrix changed")
            _raise(acc)
        guard(ctx, body, lambda: dict(case, kind=kind, traits=cols), f"{MODEL}.usl-lsl[{kind}]:")

    allc = list(range(U.shape[1]))
    for kind, obj in subjects:
        one(kind, obj, wide, allc)
    for model, cols in narrow:
        one("phased", pg, model, cols)
    ctx.count("deep-state-checks")
    if fixed:
        ctx.flag("deep:fixed-state")
    return pg


# ----------------------------------------------------------------------------
# transition alphabet
FULL = None


def events(s, nmax, level):
    """Mating events for a parent tuple of size s (indices are positions in the tuple).
    (proto, xconfig, nmating, nprogeny, nself, deviation bound or FULL).  level: 'q' quick, 'T' thorough,
    'L' light (expansion of the largest populations / history layer)."""
    slim = level == "L4"          # largest populations of the thorough tier: a covering subset of the L events
    if slim:
        level = "L"
    big = {"q": 1, "T": 2, "L": 1}[level]
    med = {"q": 2, "T": FULL, "L": 1}[level]
    two = FULL                    # 2-gamete events: every answer, at every level
    ev = []
    if s == 1:
        ev += [("SelfCross", [[0]], 1, 1, 0, two),
               ("SelfCross", [[0]], 1, 2, 0, med),
               ("SelfCross", [[0]], 1, 1, 1, med if level != "T" else 2),
               ("TwoWayDHCross", [[0, 0]], 1, 1, 0, {"q": 2, "T": FULL, "L": 1}[level]),
               ("TwoWayDHCross", [[0, 0]], 1, 2, 0, big),
               ("SelfCross", [[0]], 1, 3, 0, big),
               ("SelfCross", [[0]], 2, 2, 0, big)]
    elif s == 2:
        ev += [("TwoWayCross", [[0, 1]], 1, 1, 0, two),
               ("TwoWayCross", [[1, 0]], 1, 1, 0, two if level != "L" else 1),
               ("TwoWayCross", [[0, 1]], 1, 2, 0, med),
               ("TwoWayCross", [[0, 1], [1, 0]], 1, 1, 0, big),
               ("TwoWayCross", [[0, 1]], 1, 1, 1, big),
               ("TwoWayDHCross", [[0, 1]], 1, 1, 0, {"q": 2, "T": FULL, "L": 1}[level]),
               ("TwoWayDHCross", [[1, 0]], 1, 2, 0, big),
               ("ThreeWayCross", [[0, 0, 1]], 1, 1, 0, big),
               ("ThreeWayCross", [[1, 0, 1]], 1, 1, 0, big),
               ("ThreeWayDHCross", [[0, 1, 0]], 1, 1, 0, big),
               ("FourWayCross", [[0, 1, 1, 0]], 1, 1, 0, big),
               ("FourWayDHCross", [[0, 1, 0, 1]], 1, 1, 0, big),
               ("TwoWayCross", [[0, 1], [0, 0], [1, 1]], 1, 1, 0, big),
               ("TwoWayCross", [[0, 1]], 2, 2, 0, big)]
    elif s == 3:
        ev += [("ThreeWayCross", [[0, 1, 2]], 1, 1, 0, big if level != "T" else 2),
               ("ThreeWayCross", [[1, 0, 2]], 1, 1, 0, big),
               ("ThreeWayCross", [[2, 0, 1]], 1, 1, 0, big),
               ("ThreeWayDHCross", [[0, 1, 2]], 1, 1, 0, big),
               ("ThreeWayDHCross", [[2, 1, 0]], 1, 2, 0, big),
               ("FourWayCross", [[0, 1, 2, 0]], 1, 1, 0, big),
               ("FourWayCross", [[2, 0, 1, 1]], 1, 2, 0, big),
               ("FourWayDHCross", [[0, 1, 2, 1]], 1, 1, 0, big),
               ("TwoWayCross", [[0, 1], [1, 2], [2, 0]], 1, 1, 0, big),
               ("SelfCross", [[0], [1], [2]], 1, 1, 0, big),
               ("TwoWayCross", [[0, 1], [1, 2]], 1, [1, 2], 0, big),
               ("TwoWayDHCross", [[0, 1], [2, 0]], [1, 1], 2, 0, big)]
    if slim:
        keep = {1: (0, 1, 3, 6), 2: (0, 1, 5, 7, 10, 13), 3: (0, 3, 5, 7, 10)}[s]
        ev = [ev[i] for i in keep]
    out = []
    for e in ev:
        nm, npg = e[2], e[3]
        nc = len(e[1])
        nm_l = [nm] * nc if isinstance(nm, int) else nm
        np_l = [npg] * nc if isinstance(npg, int) else npg
        if sum(a * b for a, b in zip(nm_l, np_l)) <= nmax:
            out.append(e)
    return out


def ngametes(ev):
    """number of gametes (rows of uniform draws) an event consumes — from the protocols' pedigree diagrams."""
    proto, xrel, nm, npg, nself, _ = ev
    nc = len(xrel)
    nm_l = [nm] * nc if isinstance(nm, int) else nm
    np_l = [npg] * nc if isinstance(npg, int) else npg
    tot = 0
    for a, b in zip(nm_l, np_l):
        if proto in ("SelfCross", "TwoWayCross"):
            tot += 2 * a * b * (1 + nself)
        elif proto == "TwoWayDHCross":
            tot += 2 * a * (1 + nself) + a * b
        elif proto == "ThreeWayCross":
            tot += 2 * a + 2 * a * b * (1 + nself)
        elif proto == "ThreeWayDHCross":
            tot += 2 * a + 2 * a * (1 + nself) + a * b
        elif proto == "FourWayCross":
            tot += 4 * a + 2 * a * b * (1 + nself)
        elif proto == "FourWayDHCross":
            tot += 4 * a + 2 * a * (1 + nself) + a * b
    return tot


FULL_MAX_CELLS = 8      # "all answers" means 2^cells executions; above this the event is deviation-bounded (<=2)


def parent_sets(genos, smax=3):
    """all index tuples (increasing) of size 1..smax, one per distinct genotype multiset."""
    n = len(genos)
    seen = set()
    out = []
    for s in range(1, min(smax, n) + 1):
        for comb in itertools.combinations(range(n), s):
            k = tuple(sorted(genos[i] for i in comb))
            if k in seen:
                continue
            seen.add(k)
            out.append(comb)
    return out


def _trim(taken):
    t = list(taken)
    while t and t[-1] == 0:
        t.pop()
    return t


class XoHandler(Handler):
    """Meiosis draws uniform(0,1,(g,m)) as binary choice points per cell: answer 0 = no crossover (value
    (1+p)/2 >= p), answer 1 = crossover (value p/2 < p); a cell with p = 0 or 1 has a single answer.  Same
    classes as env.MeiosisHandler(mode='classes'), without the probability weights (not needed here); all
    values are dyadic and therefore reachable outputs of numpy's uniform(0,1)."""
    _menus = {}

    def __init__(self, ch, thr):
        super().__init__(ch)
        key = tuple(thr)
        mn = XoHandler._menus.get(key)
        if mn is None:
            mn = []
            for p in key:
                p = float(p)
                mn.append(((1.0 + p) / 2.0, p / 2.0) if 0.0 < p < 1.0 else ((0.75,) if p <= 0.0 else (0.25,)))
                for v in mn[-1]:
                    assert (Fraction(v) * (1 << 53)).denominator == 1 and 0.0 <= v < 1.0
            XoHandler._menus[key] = mn
        self.menus = mn

    def uniform(self, gen, low, high, size):
        shp = shape_of(size)
        mn = self.menus
        if not (low == 0 and high == 1 and len(shp) == 2 and shp[1] == len(mn)):
            raise UnscriptedDraw(f"uniform({low},{high},{size}) is not a meiosis draw for {len(mn)} markers")
        out = numpy.empty(shp, dtype=float)
        choose = self.ch.choose
        for i in range(shp[0]):
            for j, menu in enumerate(mn):
                out[i, j] = menu[choose(2, "xo")] if len(menu) == 2 else menu[0]
        return out


_KEYS = {}


def pop_key(cpop):
    k = _KEYS.get(cpop)
    if k is None:
        k = _KEYS[cpop] = digest(cpop)
    return k


def run_event(pg, ev, S, seed, answers=None):
    """generator of (chooser, progeny object) over every answer vector (<= bound deviations) of one event."""
    L = lib()
    proto, xrel, nm, npg, nself, bound = ev
    xc = numpy.array([[S[r] for r in row] for row in xrel], dtype="int64")
    nm_a = nm if isinstance(nm, int) else numpy.array(nm, dtype="int64")
    np_a = npg if isinstance(npg, int) else numpy.array(npg, dtype="int64")
    xop = pg.vrnt_xoprob.tolist()
    if bound is FULL and ngametes(ev) * len(xop) > FULL_MAX_CELLS:
        bound = 2

    def run(ch):
        prot = L[proto](rng=ScriptedGenerator(XoHandler(ch, xop)))
        return prot.mate(pg, xc, nm_a, np_a, nself=nself)
    if answers is not None:
        ch = Chooser(answers)
        yield ch, run(ch)
        return
    yield from explore(run, bound=bound)
    if explore.capped:
        raise RuntimeError("explore cap hit")


# ----------------------------------------------------------------------------
# layer E
def expand(ctx, pop, seed, nmax, level, only=None):
    """All transitions out of one population."""
    m = len(pop[0][0])
    wide = models(m, seed)[0]
    base = dict(layer="E", m=m, pop=[list(map(list, ind)) for ind in pop], seed=seed, nmax=nmax, level=level)
    pg = deep_state(ctx, pop, seed, dict(base, what="state"))
    mat0 = pg.mat.copy()
    box = {}
    def pbody():
        box["o"] = observe(wide, pg)
        _raise(box["o"].bad)
    guard(ctx, pbody, dict(base, what="state"), f"{MODEL}.usl-lsl[phased]:")
    if "o" not in box:
        return
    po = box["o"]
    pkey = ctx.state(pop_key(pop))
    poly = not po.fixed
    ctx.count(f"E:expanded-states:n{len(pop)}")
    ppat = tuple(po.pres.tolist())

    def edge(child, how, case, named=None):
        ctx.evaluations += 1
        cbox = {}

        def body():
            co = observe(wide, child)
            cbox["co"] = co
            acc = co.bad + check_edge(wide, po, co, how)
            if named is not None:
                acc += check_edge(wide, named, co, how, rel="named")
                ctx.count("named-parent-edges")
            _raise(acc)
        ok = guard(ctx, body, case, f"{how}:")
        co = cbox.get("co")
        if co is None:
            return
        cpop = mat_pop(child.mat)
        ckey = ctx.state(pop_key(cpop))
        if ok:
            ctx.traces += 1
        if poly:
            ctx.nontriv(ckey + bytes(ppat))
        ctx.outcome(ckey + co.usl.tobytes()[:24] + co.lsl.tobytes()[:24])
        ctx.count(f"offspring-size:{co.n}")
        lost = int(((po.pres == 3) & (co.pres != 3)).sum())
        ctx.flag("edge:allele-lost" if lost else "edge:nothing-lost")
        if co.fixed:
            ctx.flag("edge:child-fixed")
        if (co.rusl < po.rusl - 1e-9).any():
            ctx.flag("edge:usl-decreased")         # (by the reference extremes, independent of the library's answer)
        if (co.rlsl > po.rlsl + 1e-9).any():
            ctx.flag("edge:lsl-increased")
        if (numpy.abs(co.g.max(0) - co.rusl) < 1e-9).any():
            ctx.flag("bracket:tight")
        if (co.g.max(0) < co.rusl - 1e-9).any():
            ctx.flag("bracket:strict")
        if ok and not (numpy.allclose(co.usl, co.rusl, rtol=1e-9, atol=1e-12) and numpy.allclose(co.lsl, co.rlsl, rtol=1e-9, atol=1e-12)):
            ctx.count("info:limit-differs-from-attainable-extreme")
        if ctx.evaluations % 50021 == 1:
            ctx.sample(dict(case, child=[list(map(list, i)) for i in cpop], usl_parent=po.usl[:4].tolist(),
                            usl_child=co.usl[:4].tolist(), lsl_parent=po.lsl[:4].tolist(), lsl_child=co.lsl[:4].tolist()))

    # (1) plain selection: every proper sub-multiset via the real select_taxa
    n = len(pop)
    seen = set()
    for s in range(1, n):
        for comb in itertools.combinations(range(n), s):
            k = tuple(pop[i] for i in comb)
            if k in seen:
                continue
            seen.add(k)
            if only is not None and only != ("select", list(comb)):
                continue
            case = dict(base, what="select", S=list(comb))
            cb = {}
            if ctx.guard(lambda: cb.setdefault("c", pg.select_taxa(list(comb))), case=case, sig_prefix="select_taxa:"):
                ctx.transitions += 1
                edge(cb["c"], "select_taxa", case)
                ctx.count("exec:select_taxa")
    # (2) selection of parents x mating event x every answer
    for S in parent_sets(pop):
        # the breeding population of these events is the set of taxa named in xconfig; the pool object passed to
        # mate() is the whole population (indices of S point anywhere into it, incl. the highest ones)
        named = observe(wide, make_pg(pop_mat([pop[i] for i in S]), seed)) if len(S) < len(pop) else None
        for ei, ev in enumerate(events(len(S), nmax, level)):
            if only is not None and only[:3] != ("mate", list(S), ei):
                continue
            proto = ev[0]
            case0 = dict(base, what="mate", S=list(S), event=ei, proto=proto)
            try:
                it = run_event(pg, ev, S, seed, answers=(only[3] if only is not None else None))
                for ch, child in it:
                    ctx.transitions += 1
                    edge(child, f"{proto}.mate", dict(case0, answers=_trim(ch.taken)), named)
                    ctx.count(f"exec:{proto}")
                    if ch.deviations:
                        ctx.flag("answers:crossover")
            except Exception as e:  # library exception on a model-valid event
                ctx.guard(lambda e=e: (_ for _ in ()).throw(e), case=case0, sig_prefix=f"{proto}.mate:")
            ctx.flag(f"event:{len(S)}:{ei}")
    if not numpy.array_equal(pg.mat, mat0):
        ctx.violation("mate:parent-population-mutated", "the parental matrix changed during mating", dict(base, what="state"))


# ----------------------------------------------------------------------------
# layer H
def h_founders(tier, seed):
    m = 2
    U1 = universe(m, 1)
    U2 = [p for p in universe(m, 2) if len(p) == 2]
    het = ((0, 1), (1, 0))
    dh = ((0, 0), (1, 1))
    picks3 = [(((0, 0), (0, 0)), ((1, 1), (1, 1)), het), (het, dh, ((0, 1), (0, 1))), (((0, 0), (0, 1)), ((1, 0), (1, 0)), ((1, 1), (0, 0))),
              (het, het, het)]
    picks3 = [tuple(sorted(p)) for p in picks3]
    if tier == "thorough":
        deep = {(het,), (dh,), (((0, 1), (0, 0)),), (((1, 1), (1, 0)),)}
        return ([(p, 3 if p in deep else 2) for p in U1] + [(p, 2) for i, p in enumerate(U2) if i % 2 == 0]
                + [(p, 1) for i, p in enumerate(U2) if i % 2 == 1] + [(p, 2) for p in picks3])
    sub = [p for i, p in enumerate(U2) if i % 10 == 0]
    return [(p, 2) for p in U1] + [(p, 2) for p in sub] + [(p, 1) for p in picks3]


def run_history(ctx, founder, depth, seed):
    """BFS over live objects from one founder; `history` = tuple of event records, state = live pgmat."""
    m = len(founder[0][0])
    wide = models(m, seed)[0]
    fcase = dict(layer="H", m=m, founder=[list(map(list, ind)) for ind in founder], seed=seed, depth=depth)
    fpg = deep_state(ctx, founder, seed, dict(fcase, history=[]))
    ctx.count("H:founders")
    fbox = {}
    def fbody():
        fbox["o"] = observe(wide, fpg)
        _raise(fbox["o"].bad)
    guard(ctx, fbody, dict(fcase, history=[]), f"{MODEL}.usl-lsl[phased]:")
    if "o" not in fbox:
        return
    fo = fbox["o"]
    obs_cache_init = fo
    obs_cache = {id(fpg): (fpg, obs_cache_init)}

    def obs_of(state):
        k = id(state)
        if k not in obs_cache:
            obs_cache[k] = (state, observe(wide, state))
        return obs_cache[k][1]

    def hist_json(h):
        return [dict(S=list(e[0]), event=e[1], proto=e[2], answers=list(e[3])) for e in h]

    def successors(h, state):
        po = obs_of(state)
        genos = mat_pop(state.mat, sort=False)
        n = len(genos)
        nmax = 4
        for S in parent_sets(genos):
            pool = state.select_taxa(list(S))
            ctx.transitions += 1
            rel = tuple(range(len(S)))
            named = observe(wide, make_pg(pop_mat([genos[i] for i in S]), seed)) if len(S) < n else None
            for ei, ev in enumerate(events(len(S), nmax, "L")):
                proto = ev[0]
                # selection expressed either by select_taxa (even events) or by xconfig on the whole pool (odd events)
                it = run_event(pool, ev, rel, seed) if _via_select(ei) else run_event(state, ev, tuple(S), seed)
                for ch, child in it:
                    ctx.transitions += 1
                    ctx.evaluations += 1
                    rec = (tuple(S), ei, proto, tuple(_trim(ch.taken)))
                    case = dict(fcase, history=hist_json(h + (rec,)))
                    cbox = {}

                    def body():
                        co = observe(wide, child)
                        cbox["co"] = co
                        acc = co.bad + check_edge(wide, po, co, f"{proto}.mate")
                        if len(h) > 0:
                            acc += check_edge(wide, fo, co, f"{proto}.mate")    # cumulative: against the founder
                        if named is not None:
                            acc += check_edge(wide, named, co, f"{proto}.mate", rel="named")
                        _raise(acc)
                    ok = guard(ctx, body, case, f"{proto}.mate:")
                    if "co" not in cbox:
                        yield rec, None
                        continue
                    obs_cache[id(child)] = (child, cbox["co"])
                    ctx.count(f"H:exec:{proto}")
                    ctx.count(f"H:offspring-size:{cbox['co'].n}")
                    if ok:
                        ctx.traces += 1
                    yield rec, child

    def key(state):
        return pop_key(mat_pop(state.mat))

    def on_state(h, state):
        ctx.state(key(state))
        ctx.count(f"H:states-depth{len(h)}")
        if not h:
            return
        # differential oracle: replaying the whole history on fresh objects gives the same population
        case = dict(fcase, history=hist_json(h))

        def body():
            st = replay_history(founder, h, seed)
            require(bool(numpy.array_equal(st.mat, state.mat)), "history-replay:differs-from-live-object",
                    lambda: f"live {state.mat.tolist()} replayed {st.mat.tolist()}")
        ctx.guard(body, case=case, sig_prefix="history-replay:")
        ctx.count("H:histories-replayed")

    ns, ntr, maxd = bfs([((), fpg)], successors, key, depth, on_state=on_state)
    ctx.count("H:bfs-states", ns)
    ctx.flag(f"H:depth{maxd}")


def _via_select(ei):
    return ei % 2 == 0


def replay_history(founder, h, seed):
    st = make_pg(pop_mat(founder), seed)
    for (S, ei, proto, answers) in h:
        ev = events(len(S), 4, "L")[ei]
        assert ev[0] == proto
        if _via_select(ei):
            pool = st.select_taxa(list(S))
            (_, st), = list(run_event(pool, ev, tuple(range(len(S))), seed, answers=list(answers)))
        else:
            (_, st), = list(run_event(st, ev, tuple(S), seed, answers=list(answers)))
    return st


# ----------------------------------------------------------------------------
# layer S
class NoCrossover(Handler):
    """every meiosis draw answers 'no crossover' with reachable values above each threshold."""

    def __init__(self, thr):
        super().__init__(None)
        self.vals = numpy.array([(1.0 + t) / 2.0 for t in thr], dtype=float)
        assert all(0.0 < t < 1.0 for t in thr)

    def uniform(self, gen, low, high, size):
        shp = shape_of(size)
        if not (low == 0 and high == 1 and len(shp) == 2 and shp[1] == len(self.vals)):
            raise UnscriptedDraw(f"uniform({low},{high},{size})")
        return numpy.tile(self.vals, (shp[0], 1))


def sweep_N(tier):
    return 2100 if tier == "thorough" else 260


def s_model(seed):
    e0, e1, e2, e3 = effects(seed)     # negative, zero, small positive, large positive
    U = numpy.array([[e2, e0, e0, e3, e1],
                     [e3, e0, e1, e2, e0],
                     [e2, e0, e3, e0, e3],
                     [e3, e0, e2, e0, e2]], dtype="float64")       # loci x traits: all-positive, all-negative, mixed x3
    return make_model(U, seed, q=2), U


S_FIXED = ((0, 1, 1, 0), (1, 1, 1, 1), (0, 0, 0, 0), (1, 0, 0, 1))


def run_sweep(ctx, ns, seed, only=None):
    L = lib()
    model, U = s_model(seed)
    m = 4
    for n in ns:
        rr = R.reciprocal_rounds(2 * n)
        ctx.count("S:sizes")
        if rr:
            ctx.count("S:sizes-with-rounded-reciprocal")
            ctx.flag(f"S:rounding-n{n}" if n in (49, 98, 103, 107) else "S:rounding-other")
        for fi, hap in enumerate(S_FIXED):
            # (a) fixed population of n copies of a homozygote: limits = common value, three input kinds
            mat = numpy.empty((2, n, m), dtype="int8")
            mat[:] = numpy.array(hap, dtype="int8")
            pres = presence(mat)
            gref = numpy.tile(gebv_reference((((hap), (hap)),), U), (n, 1))
            pg = make_pg(mat, seed)
            Z = mat.sum(0, dtype="int8")
            for kind, obj in (("phased", pg), ("unphased", L["G"](Z.copy(), ploidy=2)), ("ndarray", Z)):
                sub = f"fixed:{fi}:{kind}"
                if only is not None and only != sub:
                    continue
                case = dict(layer="S", n=n, sub=sub, seed=seed)

                def body(obj=obj, kind=kind):
                    usl, lsl = model.usl(obj), model.lsl(obj)
                    g = model.gebv_numpy(Z)
                    ctx.transitions += 3
                    acc = check_limits(model, usl, lsl, g, n, pres, True, kind, "library")
                    acc += check_limits(model, usl, lsl, gref, n, pres, True, kind, "reference")
                    uslU, lslU = model.usl(obj, unscale=True), model.lsl(obj, unscale=True)
                    acc += check_limits(model, uslU, lslU, model.gebv(obj).unscale(), n, pres, True, kind + ",unscale", "library")
                    _raise(acc)
                ctx.evaluations += 1
                if guard(ctx, body, case, f"{MODEL}.usl-lsl[{kind}]:"):
                    ctx.traces += 1
                ctx.outcome(digest((fi, kind)))
            # (b) one copy away from fixation (taxon by seed): not fixed, bracket must hold, limits must differ
            sub = f"near:{fi}"
            if only is None or only == sub:
                mat2 = mat.copy()
                tstar = (0, n - 1, n // 2)[seed % 3]
                j = fi % m
                mat2[1, tstar, j] = 1 - mat2[1, tstar, j]
                pg2 = make_pg(mat2, seed)
                case = dict(layer="S", n=n, sub=sub, seed=seed)

                def body2():
                    o = observe(model, pg2)
                    ctx.transitions += 3
                    _raise(o.bad)
                    require(not o.fixed, "harness:near-fixed", "")
                    # the polymorphic locus has a non-zero effect in traits 0,1: both alleles are attainable there
                    uj = numpy.abs(model.u_a[j]) > 0
                    require(bool(((o.usl - o.lsl)[uj] > 0).all()), f"{MODEL}.usl-lsl[phased]:equal-at-polymorphic-population" + _suffix(n, o.pres),
                            lambda: f"usl {o.usl.tolist()} lsl {o.lsl.tolist()} with locus {j} polymorphic (effects {model.u_a[j].tolist()})")
                ctx.evaluations += 1
                if guard(ctx, body2, case, f"{MODEL}.usl-lsl[phased]:"):
                    ctx.traces += 1
        # (c) edges  single parent -> n progeny (no-crossover answers): selfing a heterozygote (progeny fixed for its
        #     first haplotype) and crossing two different homozygotes (progeny all heterozygous)
        parents = ((((1, 0, 1, 0), (0, 1, 1, 0)), ((0, 0, 1, 1), (0, 0, 1, 1))),
                   (((1, 1, 0, 1), (1, 1, 0, 1)), ((0, 1, 0, 0), (1, 1, 1, 0))))
        for pi, par in enumerate(parents):
            ppg = make_pg(pop_mat(par), seed)
            po = observe(model, ppg)
            for proto, xc in (("SelfCross", [[0]]), ("TwoWayCross", [[1, 0]]), ("TwoWayDHCross", [[0, 1]])):
                sub = f"edge:{pi}:{proto}"
                if only is not None and only != sub:
                    continue
                case = dict(layer="S", n=n, sub=sub, seed=seed)

                def body3(proto=proto, xc=xc):
                    prot = L[proto](rng=ScriptedGenerator(NoCrossover(ppg.vrnt_xoprob.tolist())))
                    child = prot.mate(ppg, numpy.array(xc, dtype="int64"), 1, n)
                    ctx.transitions += 1
                    require(child.mat.shape[1] == n, "harness:progeny-count", lambda: f"{child.mat.shape}")
                    co = observe(model, child)
                    acc = co.bad + check_edge(model, po, co, f"{proto}.mate")
                    _raise(acc)
                ctx.evaluations += 1
                # by construction (no-crossover answers): selfing / DH give n copies of one homozygote, the two-way
                # cross of different parents gives n identical heterozygotes
                ctx.flag("S:edge-child-polymorphic" if proto == "TwoWayCross" else "S:edge-child-fixed")
                if guard(ctx, body3, case, f"{proto}.mate:"):
                    ctx.traces += 1
        ctx.state(digest(("S", n)))
        ctx.nontriv(digest(("S", n)))


# ----------------------------------------------------------------------------
# layer R: every public route to a sub-population ("all selection rules"), phased and unphased, ploidy 1, 2, 4
ROUTES = ("select_taxa", "delete_taxa", "select(axis)", "delete(axis)", "select(axis<0)", "concat_taxa", "concat(axis)",
          "adjoin_taxa", "adjoin(axis)", "remove_taxa", "remove(axis)", "append_taxa", "copy+delete_taxa",
          "deepcopy+select_taxa")


def take_route(obj, name, keep, drop):
    """The sub-population of taxa `keep` (increasing indices) of `obj`, obtained through one public route."""
    import copy
    ax = obj.taxa_axis
    cls = type(obj)
    h = max(1, len(keep) // 2)
    a, b = list(keep[:h]), list(keep[h:])
    if name == "select_taxa":
        return obj.select_taxa(list(keep))
    if name == "delete_taxa":
        return obj.delete_taxa(list(drop))
    if name == "select(axis)":
        return obj.select(list(keep), axis=ax)
    if name == "delete(axis)":
        return obj.delete(list(drop), axis=ax)
    if name == "select(axis<0)":
        return obj.select(list(keep), axis=ax - obj.mat.ndim)
    if name == "concat_taxa":
        return cls.concat_taxa([obj.select_taxa([i]) for i in keep])
    if name == "concat(axis)":
        return cls.concat([obj.select_taxa(a)] + ([obj.select_taxa(b)] if b else []), axis=ax)
    if name == "adjoin_taxa":
        return obj.select_taxa(a).adjoin_taxa(obj.select_taxa(b)) if b else None
    if name == "adjoin(axis)":
        return obj.select_taxa(a).adjoin(obj.select_taxa(b), axis=ax) if b else None
    if name == "remove_taxa":
        c = copy.deepcopy(obj)
        c.remove_taxa(list(drop))
        return c
    if name == "remove(axis)":
        c = copy.deepcopy(obj)
        c.remove(list(drop), axis=ax)
        return c
    if name == "append_taxa":
        if not b:
            return None
        c = obj.select_taxa(a)
        c.append_taxa(obj.select_taxa(b))
        return c
    if name == "copy+delete_taxa":
        return copy.copy(obj).delete_taxa(list(drop))
    if name == "deepcopy+select_taxa":
        return copy.deepcopy(obj).select_taxa(list(keep))
    raise KeyError(name)


R_KINDS = (("G", 4), ("G", 1), ("G", 2), ("P", 2))


def r_individuals(cls, ploidy, m=2):
    if cls == "P":
        return individuals(m)
    return list(itertools.product(range(ploidy + 1), repeat=m))       # dosage vectors 0..ploidy


def r_universe(cls, ploidy, nmax):
    inds = r_individuals(cls, ploidy)
    out = []
    for n in range(2, nmax + 1):
        for comb in itertools.combinations_with_replacement(range(len(inds)), n):
            out.append(tuple(inds[i] for i in comb))
    return out


def r_nmax(tier):
    return 4 if tier == "thorough" else 3


def r_object(cls, ploidy, pop, seed):
    """(object, true dosage matrix Z (n,m), kind tag)"""
    L = lib()
    n = len(pop)
    if cls == "P":
        mat = pop_mat(pop)
        return make_pg(mat, seed), mat.sum(0, dtype="int8"), "phased"
    Z = numpy.array(pop, dtype="int8").reshape(n, -1)
    obj = L["G"](Z.copy(), taxa=numpy.array([f"u{i}" for i in range(n)], dtype=object),
                 taxa_grp=numpy.zeros(n, dtype="int64"), ploidy=ploidy)
    return obj, Z, f"unphased,ploidy{ploidy}"


def gebv_ref_dosage(Z, U):
    out = numpy.empty((Z.shape[0], U.shape[1]), dtype="float64")
    cols = [[Fraction(float(U[j, k])) for j in range(U.shape[0])] for k in range(U.shape[1])]
    for i, row in enumerate(Z.tolist()):
        for k, u in enumerate(cols):
            out[i, k] = float(sum((Fraction(int(z)) * uj for z, uj in zip(row, u)), Fraction(0)))
    return out


def run_routes(ctx, cls, ploidy, pops, seed, only=None):
    m = 2
    wide, _, U = models(m, seed)
    cname = "DensePhasedGenotypeMatrix" if cls == "P" else "DenseGenotypeMatrix"
    for pop in pops:
        n = len(pop)
        base = dict(layer="R", cls=cls, ploidy=ploidy, pop=[list(map(list, i)) if cls == "P" else list(i) for i in pop], seed=seed)
        obj, Z, kind = r_object(cls, ploidy, pop, seed)
        mat0 = obj.mat.copy()
        box = {}

        def pbody():
            box["o"] = observe(wide, obj, kind, ploidy, Zref=Z)
            _raise(box["o"].bad + check_limits(wide, box["o"].usl, box["o"].lsl, gebv_ref_dosage(Z, U), n, box["o"].pres,
                                               box["o"].fixed, kind, "reference", ploidy))
        guard(ctx, pbody, dict(base, what="state"), f"{MODEL}.usl-lsl[{kind}]:")
        ctx.count(f"R:populations:{cls}{ploidy}")
        ctx.state(digest(("R", cls, ploidy, pop)))
        if "o" not in box:
            continue
        po = box["o"]
        seen = set()
        for k in range(1, n):
            for keep in itertools.combinations(range(n), k):
                gk = tuple(pop[i] for i in keep)
                if gk in seen:
                    continue
                seen.add(gk)
                drop = tuple(i for i in range(n) if i not in keep)
                Zs = Z[list(keep)]
                d = ploidy * k
                af_ref = numpy.array([float(Fraction(int(c), d)) for c in Zs.sum(0).tolist()])
                gref = gebv_ref_dosage(Zs, U)
                exp_mat = mat0[:, list(keep), :] if cls == "P" else mat0[list(keep), :]
                for rname in ROUTES:
                    if only is not None and only != (list(keep), rname):
                        continue
                    case = dict(base, what="route", keep=list(keep), route=rname)
                    how = f"{cname}.{rname}"
                    cbox = {}

                    def body():
                        X = take_route(obj, rname, keep, drop)
                        if X is None:
                            return
                        cbox["ran"] = True
                        ctx.transitions += 1
                        acc = []
                        require(type(X) is type(obj), f"{how}:type", lambda: f"returned {type(X).__name__}")
                        require(X.mat.shape == exp_mat.shape and bool(numpy.array_equal(X.mat, exp_mat)), f"{how}:survivors",
                                lambda: f"kept taxa {list(keep)} of {mat0.tolist()}: got {X.mat.tolist()}")
                        if X.ploidy != ploidy:
                            acc.append(Violation(f"{how}:ploidy-not-preserved", f"sub-population of a ploidy-{ploidy} population reports ploidy {X.ploidy}"))
                        af = X.afreq()
                        if not bool(((af >= 0.0) & (af <= 1.0)).all()):
                            acc.append(Violation(f"{how}:afreq-outside-unit-interval", f"afreq {af.tolist()} of survivors {Zs.tolist()} (ploidy {ploidy})"))
                        elif not bool(numpy.allclose(af, af_ref, rtol=1e-9, atol=1e-12)):
                            acc.append(Violation(f"{how}:afreq-value", f"afreq {af.tolist()} expected {af_ref.tolist()}"))
                        co = observe(wide, X, kind, ploidy, Zref=Zs)
                        cbox["co"] = co
                        acc += co.bad
                        acc += check_limits(wide, co.usl, co.lsl, gref, k, co.pres, co.fixed, kind, "reference", ploidy)
                        acc += check_edge(wide, po, co, how)
                        if not numpy.array_equal(obj.mat, mat0):
                            acc.append(Violation(f"{how}:input-mutated", "the population object changed"))
                        _raise(acc)
                    ok = guard(ctx, body, case, f"{how}:")
                    if cbox.get("ran") or not ok:
                        ctx.evaluations += 1
                    if cbox.get("ran"):
                        ctx.count(f"R:route:{rname}")
                        if ok:
                            ctx.traces += 1
                    co = cbox.get("co")
                    if co is not None:
                        ctx.outcome(digest((cls, ploidy, gk, co.usl[:6], co.lsl[:6])))
                        if co.fixed:
                            ctx.flag("R:fixed-survivors")
                        if not po.fixed:
                            ctx.nontriv(digest(("R", cls, ploidy, pop, gk)))
                        if (co.rusl < po.rusl - 1e-9).any():
                            ctx.flag("R:usl-decreased")


# ----------------------------------------------------------------------------
# layer M: histories on ONE model object (coefficients re-assigned through the setters and edited in place)
def _op_table(m, t):
    """name -> (kind, function(model, ua, beta) -> (new expected u_a, new expected beta)).  The function applies the
    operation to the live model through its public attributes; the harness keeps its own expected arrays."""
    perm = list(range(m))[::-1]

    def set_ua(f):
        def op(model, ua, beta):
            new = numpy.ascontiguousarray(f(ua.copy()), dtype="float64")
            model.u_a = new.copy()
            return new, beta
        return op

    def inplace_ua(f):
        def op(model, ua, beta):
            f(model)                     # edits model.u_a in place (augmented assignments also re-enter the setter)
            new = ua.copy()
            holder = type("H", (), {})()
            holder.u_a = new
            f(holder)
            return holder.u_a, beta
        return op

    def neg_all(o):
        o.u_a *= -1.0

    def neg_first(o):
        o.u_a[0, :] *= -1.0

    def zero_last(o):
        o.u_a[m - 1, :] = 0.0

    def reverse_rows(o):
        o.u_a[:] = o.u_a[perm].copy()

    def neg_cell(o):
        o.u_a[m - 1, t // 2] = -o.u_a[m - 1, t // 2] - 1.0

    def set_beta(model, ua, beta):
        new = -beta.copy() + 0.5
        model.beta = new.copy()
        return ua, new

    def inplace_beta(model, ua, beta):
        model.beta += 1.0
        return ua, beta + 1.0

    return {
        "set:negate": ("u_a-setter", set_ua(lambda a: -a)),
        "set:negate-first-marker": ("u_a-setter", set_ua(lambda a: numpy.vstack([-a[:1], a[1:]]))),
        "set:permute-markers": ("u_a-setter", set_ua(lambda a: a[perm])),
        "set:zero-last-marker": ("u_a-setter", set_ua(lambda a: numpy.vstack([a[:-1], 0.0 * a[-1:]]))),
        "inplace:*=-1": ("u_a-inplace", inplace_ua(neg_all)),
        "inplace:row0*=-1": ("u_a-inplace", inplace_ua(neg_first)),
        "inplace:zero-last-row": ("u_a-inplace", inplace_ua(zero_last)),
        "inplace:reverse-rows": ("u_a-inplace", inplace_ua(reverse_rows)),
        "inplace:one-cell": ("u_a-inplace", inplace_ua(neg_cell)),
        "set:beta": ("beta-setter", set_beta),
        "inplace:beta+=1": ("beta-inplace", inplace_beta),
    }


M_OPS = tuple(_op_table(2, 16))


def m_plan(tier):
    """[(population size limit, history depth)]"""
    return [(2, 3), (3, 1)] if tier == "thorough" else [(2, 2), (3, 1)]


def m_pops(tier):
    out = []
    done = 0
    for nmax, depth in m_plan(tier):
        new = [(p, depth) for p in universe(2, nmax) if len(p) > done]
        if tier != "thorough" and nmax == 3:
            new = new[::8]               # quick: every eighth 3-individual population
        out += new
        done = nmax
    return out


def run_model_histories(ctx, pop, depth, seed, only=None):
    """Every sequence of <= depth coefficient operations on one live model, a full query after every step."""
    L = lib()
    m = len(pop[0][0])
    wide, _, U0 = models(m, seed)
    t = U0.shape[1]
    ops = _op_table(m, t)
    mat = pop_mat(pop)
    pg = make_pg(mat, seed)
    Z = mat.sum(0, dtype="int8")
    pres = presence(mat)
    fixed = bool(((pres == 1) | (pres == 2)).all())
    n = len(pop)
    trait = numpy.array([f"tr{k}" for k in range(t)], dtype=object)
    base = dict(layer="M", m=m, pop=[list(map(list, ind)) for ind in pop], seed=seed)

    def query(model):
        ctx.transitions += 6
        return (model.usl(pg), model.lsl(pg), model.usl(pg, unscale=True), model.lsl(pg, unscale=True),
                model.gebv_numpy(Z), model.gebv(pg).unscale(), model.usl(Z), model.lsl(Z))

    QN = ("usl", "lsl", "usl(unscale)", "lsl(unscale)", "gebv_numpy", "gebv", "usl[ndarray]", "lsl[ndarray]")

    def check(live, ua, beta, kind, hist):
        acc = []
        if not (numpy.array_equal(live.u_a, ua) and numpy.array_equal(live.beta, beta)):
            acc.append(Violation(f"{MODEL}.u_a-beta[after:{kind}]:coefficients-differ-from-assignment",
                                 f"after {hist}: u_a {live.u_a.tolist()} expected {ua.tolist()}; beta {live.beta.tolist()} expected {beta.tolist()}"))
            return acc
        fresh = L["M"](beta=beta.copy(), u_misc=None, u_a=ua.copy(), trait=trait)
        ql, qf = query(live), query(fresh)
        for nm, a, b in zip(QN, ql, qf):
            if not (numpy.shape(a) == numpy.shape(b) and bool(numpy.allclose(a, b, rtol=1e-9, atol=1e-12))):
                acc.append(Violation(f"{MODEL}.{nm}[after:{kind}]:differs-from-fresh-model",
                                     f"after {hist} on one model object {nm} = {numpy.asarray(a).tolist()}, a fresh model with the same "
                                     f"coefficients gives {numpy.asarray(b).tolist()} (u_a = {ua.tolist()})"))
        # the property's own clauses for the live object, against the Fraction reference for the CURRENT effects
        gref = gebv_reference(pop, ua)
        acc += check_limits(live, ql[0], ql[1], gref, n, pres, fixed, f"phased,after:{kind}", "reference")
        return acc

    seqs = [()]
    for d in range(1, depth + 1):
        seqs += list(itertools.product(M_OPS, repeat=d))
    for seq in seqs:
        if only is not None and list(seq) != only:
            continue
        ctx.evaluations += 1
        case = dict(base, ops=list(seq))

        def body():
            ua, beta = wide.u_a.copy(), wide.beta.copy()
            live = L["M"](beta=beta.copy(), u_misc=None, u_a=ua.copy(), trait=trait)
            acc = check(live, ua, beta, "construction", "construction")
            for i, name in enumerate(seq):
                kind, fn = ops[name]
                ua, beta = fn(live, ua, beta)
                acc += check(live, ua, beta, kind, list(seq[:i + 1]))
                ctx.count(f"M:op:{name}")
                if acc:
                    break
            _raise(acc)
        if guard(ctx, body, case, f"{MODEL}.usl-lsl[model-history]:"):
            ctx.traces += 1
        ctx.count("M:histories")
    ctx.state(digest(("M", pop)))
    if not fixed:
        ctx.flag("M:polymorphic-population")
        ctx.nontriv(digest(("M", pop)))


# ----------------------------------------------------------------------------
# layer G: geometric family of large populations
def big_sizes(tier):
    """2^k - 1, 2^k, 2^k + 1 for k <= 17 (up to 131 073 diploids) beyond the contiguous sweep: one copy short of
    fixation is then within 4e-6 of frequency 1, the regime in which tolerance-based comparisons misjudge fixation."""
    N = sweep_N(tier)
    return sorted({n for k in range(1, 18) for n in (2 ** k - 1, 2 ** k, 2 ** k + 1) if n > N})


G_PATTERNS = ("fixed", "one", "two")


def run_big(ctx, ns, seed, only=None):
    L = lib()
    model, U = s_model(seed)
    m = 4
    for n in ns:
        ctx.count("G:sizes")
        if n >= 65535:
            ctx.flag("G:size>=65535")
        tstar = (0, n - 1, n // 2)[seed % 3]
        t2 = (tstar + 1) % n
        for fi, hap in enumerate(S_FIXED):
            j = fi % m
            other = 1 - hap[j]
            for pat in G_PATTERNS:
                if only is not None and only != (fi, pat):
                    continue
                mat = numpy.empty((2, n, m), dtype="int8")
                mat[:] = numpy.array(hap, dtype="int8")
                genos = {(hap, hap)}
                carrier = None
                if pat != "fixed":
                    mat[0, tstar, j] = other                     # the carrier: rare allele on copy 0
                    hc = tuple(other if q == j else v for q, v in enumerate(hap))
                    carrier = (hc, hap)
                    genos.add(carrier)
                    if pat == "two":
                        mat[1, t2, j] = other
                        genos.add((hap, hc))
                pres = numpy.array([1 if v == 0 else 2 for v in hap], dtype="int8")
                if pat != "fixed":
                    pres[j] = 3
                fixed = pat == "fixed"
                assert bool((presence(mat) == pres).all())
                gref = gebv_reference(tuple(sorted(genos)), U)          # breeding values of the distinct genotypes
                pg = make_pg(mat, seed, labels=False)
                Z = mat.sum(0, dtype="int8")
                ug = L["G"](Z.copy(), ploidy=2)
                case = dict(layer="G", n=n, fi=fi, pattern=pat, seed=seed)
                ctx.evaluations += 1

                def body():
                    acc = []
                    g = model.gebv_numpy(Z)
                    for kind, obj in (("phased", pg), ("unphased", ug), ("ndarray", Z)):
                        usl, lsl = model.usl(obj), model.lsl(obj)
                        ctx.transitions += 2
                        acc += check_limits(model, usl, lsl, g, n, pres, fixed, kind, "library")
                        acc += check_limits(model, usl, lsl, gref, n, pres, fixed, kind, "reference")
                        if not fixed:
                            uj = numpy.abs(model.u_a[j]) > 0
                            if not bool(((usl - lsl)[uj] > 0).all()):
                                acc.append(Violation(f"{MODEL}.usl-lsl[{kind}]:equal-at-polymorphic-population" + _suffix(n, pres),
                                                     f"n = {n}, locus {j} carries {1 if pat == 'one' else 2} cop(ies) of the other allele "
                                                     f"(effects {model.u_a[j].tolist()}) but usl {usl.tolist()} = lsl {lsl.tolist()}"))
                    uslU, lslU = model.usl(pg, unscale=True), model.lsl(pg, unscale=True)
                    acc += check_limits(model, uslU, lslU, model.gebv(pg).unscale(), n, pres, fixed, "phased,unscale", "library")
                    if carrier is not None:
                        # edge to a small offspring population derived from the carrier (selfed, 2 progeny, no crossover):
                        # both progeny are homozygous for the carrier's copy 0, i.e. for the rare allele
                        po = observe(model, pg)
                        prot = L["SelfCross"](rng=ScriptedGenerator(NoCrossover(pg.vrnt_xoprob.tolist())))
                        child = prot.mate(pg, numpy.array([[tstar]], dtype="int64"), 1, 2)
                        ctx.transitions += 1
                        co = observe(model, child)
                        acc += co.bad + check_edge(model, po, co, "SelfCross.mate")
                        sub = observe(model, pg.select_taxa([tstar, t2] if t2 != tstar else [tstar]))
                        acc += sub.bad + check_edge(model, po, sub, "select_taxa")
                    _raise(acc)
                if guard(ctx, body, case, f"{MODEL}.usl-lsl[phased]:"):
                    ctx.traces += 1
                ctx.outcome(digest(("G", fi, pat)))
        ctx.state(digest(("G", n)))
        ctx.nontriv(digest(("G", n)))


# ----------------------------------------------------------------------------
def e_plan(tier):
    """[(m, expand populations up to n, offspring nmax, level)]"""
    if tier == "thorough":
        return [(2, 3, 4, "T"), (2, 4, 4, "L4"), (3, 2, 3, "L")]
    return [(2, 3, 3, "q")]


def shards(tier, seed):
    out = []
    for (m, nexp, nmax, level) in e_plan(tier):
        if level == "L4":
            pops = [p for p in universe(m, nexp) if len(p) == nexp]
            K = 96
        else:
            pops = universe(m, nexp)
            K = 96 if tier == "thorough" else 56
        pops = pops[::-1]      # large populations first, then interleave
        for k in range(K):
            out.append(("E", m, nmax, level, tuple(pops[k::K])))
    F = h_founders(tier, seed)
    K = 48 if tier == "thorough" else 16
    for k in range(K):
        out.append(("H", tuple(F[k::K])))
    N = sweep_N(tier)
    K = 24 if tier == "thorough" else 8
    for k in range(K):
        out.append(("S", tuple(n for n in range(1, N + 1) if n % K == k)))
    for (cls, ploidy) in R_KINDS:
        pops = r_universe(cls, ploidy, r_nmax(tier))[::-1]
        K = max(1, min(48, len(pops) // (600 if tier == "thorough" else 280)))
        for k in range(K):
            out.append(("R", cls, ploidy, tuple(pops[k::K])))
    big = big_sizes(tier)
    for k in range(6):
        out.append(("G", tuple(big[k::6])))
    mp = m_pops(tier)[::-1]
    K = 24 if tier == "thorough" else 8
    for k in range(K):
        out.append(("M", tuple(mp[k::K])))
    return out


def run_shard(spec, ctx):
    ctx.bounds.update({"E_plan(m, expand n<=, offspring<=, alphabet level)": [list(p) for p in e_plan(ctx.tier)],
                       "parents_per_selection_max": 3, "sweep_N": sweep_N(ctx.tier),
                       "deviation_bounds": {"q": "2-gamete and DH k=1 events: all answers; k=2/nself events <=2; others <=1",
                                            "T": "<=4-gamete events: all answers; others <=2", "L": "2-gamete events all answers; others <=1"},
                       "H_depth": "thorough: 3 from four 1-individual founders (incl. both double heterozygotes), 2 from the other 1-individual, "
                                  "every second 2-individual and the 3-individual founders, 1 from the rest; quick: 2 from all 1-individual and every "
                                  "tenth 2-individual founder, 1 from the 3-individual founders",
                       "effects": list(effects(ctx.seed)), "xoprob_q": q_value(ctx.seed),
                       "R_kinds(class, ploidy)": [list(k) for k in R_KINDS], "R_population_size_max": r_nmax(ctx.tier),
                       "R_routes": list(ROUTES), "G_big_sizes": big_sizes(ctx.tier), "G_patterns": list(G_PATTERNS),
                       "M_plan(population size <=, history depth)": [list(x) for x in m_plan(ctx.tier)], "M_ops": list(M_OPS)})
    if spec[0] == "E":
        _, m, nmax, level, pops = spec
        for pop in pops:
            expand(ctx, pop, ctx.seed, nmax, level)
    elif spec[0] == "H":
        for founder, depth in spec[1]:
            run_history(ctx, founder, depth, ctx.seed)
    elif spec[0] == "R":
        run_routes(ctx, spec[1], spec[2], spec[3], ctx.seed)
    elif spec[0] == "G":
        run_big(ctx, spec[1], ctx.seed)
    elif spec[0] == "M":
        for pop, depth in spec[1]:
            run_model_histories(ctx, pop, depth, ctx.seed)
    else:
        run_sweep(ctx, spec[1], ctx.seed)


def finalize(ctx, tier, seed):
    c = ctx.counters
    for p in PROTOS:
        assert c.get(f"exec:{p}", 0) > 0, p
        assert c.get(f"H:exec:{p}", 0) > 0, p
    assert c.get("exec:select_taxa", 0) > 0
    nmax = max(p[2] for p in e_plan(tier))
    for k in range(1, nmax + 1):
        assert c.get(f"offspring-size:{k}", 0) > 0, k
    for f in ("edge:allele-lost", "edge:nothing-lost", "edge:child-fixed", "edge:usl-decreased", "edge:lsl-increased",
              "bracket:tight", "bracket:strict", "answers:crossover", "deep:fixed-state",
              "S:rounding-n49", "S:rounding-n98", "S:rounding-n103", "S:rounding-n107",
              "S:edge-child-fixed", "S:edge-child-polymorphic"):
        assert f in ctx.flags, f
    for (m, nexp, nmx, level) in e_plan(tier):
        if level == "L4":
            continue
        for s in (1, 2, 3):
            for ei in range(len(events(s, nmx, level))):
                assert f"event:{s}:{ei}" in ctx.flags, (s, ei)
    exp_states = sum(len(universe(m, nexp)) if level != "L4" else sum(1 for p in universe(m, nexp) if len(p) == nexp)
                     for (m, nexp, nmx, level) in e_plan(tier))
    got = sum(v for k, v in c.items() if k.startswith("E:expanded-states:"))
    assert got == exp_states, (got, exp_states)
    assert c.get("S:sizes", 0) == sweep_N(tier)
    assert c.get("H:founders", 0) == len(h_founders(tier, seed))
    assert c.get("H:histories-replayed", 0) > 100
    assert len(ctx.outcomes) > 100, len(ctx.outcomes)
    for r in ROUTES:
        assert c.get(f"R:route:{r}", 0) > 0, r
    for (cls, ploidy) in R_KINDS:
        assert c.get(f"R:populations:{cls}{ploidy}", 0) == len(r_universe(cls, ploidy, r_nmax(tier))), (cls, ploidy)
    for f in ("R:fixed-survivors", "R:usl-decreased", "G:size>=65535"):
        assert f in ctx.flags, f
    assert c.get("G:sizes", 0) == len(big_sizes(tier))
    assert c.get("named-parent-edges", 0) > 0
    for name in M_OPS:
        assert c.get(f"M:op:{name}", 0) > 0, name
    exp_h = sum(sum(len(M_OPS) ** d for d in range(depth + 1)) for _, depth in m_pops(tier))
    assert c.get("M:histories", 0) == exp_h, (c.get("M:histories"), exp_h)
    assert "M:polymorphic-population" in ctx.flags


def replay(case, ctx):
    seed = case.get("seed", ctx.seed)
    ctx.seed = seed
    lay = case["layer"]
    if lay == "E":
        pop = tuple(tuple(tuple(h) for h in ind) for ind in case["pop"])
        what = case.get("what")
        if what == "select":
            only = ("select", list(case["S"]))
        elif what == "mate":
            only = ("mate", list(case["S"]), case["event"], list(case.get("answers", [])))
        else:
            only = ("none",)
        expand(ctx, pop, seed, case["nmax"], case["level"], only=only)
    elif lay == "H":
        founder = tuple(tuple(tuple(h) for h in ind) for ind in case["founder"])
        m = len(founder[0][0])
        wide = models(m, seed)[0]
        h = [(tuple(e["S"]), e["event"], e["proto"], tuple(e["answers"])) for e in case["history"]]
        fpg = deep_state(ctx, founder, seed, dict(case))
        if not h:
            guard(ctx, lambda: _raise(observe(wide, fpg).bad), case, f"{MODEL}.usl-lsl[phased]:")
            return
        def body():
            fo = observe(wide, fpg)
            parent = replay_history(founder, h[:-1], seed)
            po = observe(wide, parent)
            child = replay_history(founder, h, seed)
            co = observe(wide, child)
            acc = co.bad + check_edge(wide, po, co, f"{h[-1][2]}.mate")
            if len(h) > 1:
                acc += check_edge(wide, fo, co, f"{h[-1][2]}.mate")
            S = h[-1][0]
            if len(S) < parent.mat.shape[1]:
                genos = mat_pop(parent.mat, sort=False)
                named = observe(wide, make_pg(pop_mat([genos[i] for i in S]), seed))
                acc += check_edge(wide, named, co, f"{h[-1][2]}.mate", rel="named")
            _raise(acc)
        guard(ctx, body, case, f"{h[-1][2]}.mate:")
    elif lay == "R":
        cls, ploidy = case["cls"], case["ploidy"]
        pop = tuple(tuple(tuple(h) for h in ind) if cls == "P" else tuple(ind) for ind in case["pop"])
        only = (list(case["keep"]), case["route"]) if case.get("what") == "route" else ([], "none")
        run_routes(ctx, cls, ploidy, [pop], seed, only=only)
    elif lay == "G":
        run_big(ctx, [case["n"]], seed, only=(case["fi"], case["pattern"]))
    elif lay == "M":
        pop = tuple(tuple(tuple(h) for h in ind) for ind in case["pop"])
        run_model_histories(ctx, pop, len(case["ops"]), seed, only=list(case["ops"]))
    else:
        run_sweep(ctx, [case["n"]], seed, only=case["sub"])
