"""C19 — Pareto filter, feasibility-first dominance predicate, distance-to-preference-vector
transformations.

Complete small-scope input enumeration on the real functions:

  F  is_pareto_efficient : every *sequence* (order matters) of n points over a value grid
     (duplicates, single-coordinate ties, one point, collinear fronts) x every weight vector
     (signs x magnitudes; a sub-layer with zero weights) x mask form and index form, against
     the O(n^2) definition; explicit metamorphic comparison of the efficient vector sets over
     all orders of the same multiset and all positive rescalings of the same sign vector.
  D  pymoo_addon.dominates : all pairs (and, through the pair table, all triples) of
     (objective vector, constraint violation) over grid x cv alphabet.
  T  the three distance transformations : every sequence that is a front (mutually
     non-dominated under the sign vector; duplicates allowed) x every sign vector x every
     non-negative non-zero preference vector, against the geometric definition in Fractions,
     plus an exactly representable scaling + translation of the front (offsets up to 2^30,
     spreads down to 2^-20) and a dtype / layout alphabet crossed over all three arguments.
  M  the predicate as USED by the memetic operator: hillclimb() of
     MultiObjectiveStochasticHillClimberMutation (the only caller of dominates()) on tiny subset
     problems (n <= 5, k <= 2; no constraints / G / H / G+H with all 0-1 element violation
     vectors) under every answer vector of numpy.random.choice, with dominates() wrapped:
     every (objectives, violation) pair it receives must be a visited candidate's OWN evaluation
     and the returned leader must not be dominated by any visited candidate.
  N  the neighbourhood mutators MutatorA / MutatorB (they use pymoo's non-dominated sort, not
     dominates()): hillclimb() on tiny bi-objective subset problems whose first objective is a
     count (all 0-1 element codes, so minima are tied), every start chromosome, every answer of
     every numpy.random.choice call (tiled permutations + final pick): the returned chromosome is
     one of the evaluated neighbours and is not Pareto-dominated by another neighbour of that step.
"""
from __future__ import annotations
import itertools, math
from fractions import Fraction as Q
import numpy

from .. import compat  # noqa: F401
from ..core import Violation, require, digest, close
from ..ref import pareto as R

from pybrops.core.util.pareto import is_pareto_efficient
from pybrops.opt.algo.pymoo_addon import dominates
from pybrops.core.util.trans import trans_ndpt_pseudo_dist
from pybrops.breed.prot.sel.prob.trans import trans_ndpt_to_vec_dist as prob_trans_ndpt_to_vec_dist
from pybrops.breed.prot.sel.transfn import trans_ndpt_to_vec_dist as transfn_trans_ndpt_to_vec_dist

ID = "C19"
TECHNIQUE = ("complete small-scope input enumeration (every point sequence over a value grid x every weight / sign / "
             "preference / constraint-violation vector) on the real functions against an O(n^2) dominance definition "
             "and a Fraction-exact geometric definition, with explicit order / rescaling / translation metamorphic comparisons, an "
             "inputs-untouched oracle on every array argument and short call histories on one caller-owned array; stateless enumeration of "
             "every numpy.random.choice answer for the memetic hill-climber with dominates() intercepted")
RULE = ("F: one case = (point sequence, weight vector) run as a call history on ONE caller-owned point matrix (input form rotating "
        "over float64 C-order / int64 or float32 / Fortran order / non-contiguous view) and one weight array: mask form, index form, "
        "and on the first order of every multiset the mask form again under positively rescaled weights; after every call the "
        "caller's arrays must be untouched and every answer must be what the reference (= a fresh array) gives; "
        "sequences are ALL orders of ALL multisets of n grid points; a sequence is non-trivial when n >= 2 (some enumerated "
        "sign vector then makes one point dominate or equal another, so the filter must drop something); distinct by "
        "(grid, sequence); quick tier only: 3-objective fronts of >= 3 points go through the transformations in sorted and reversed "
        "order only. D: one case = (obj1, cv1, obj2, cv2), all pairs; triples through the pair table. "
        "T: one case = (front sequence, sign vector, preference vector) run through all three implementations, plain and "
        "transformed (scale, translation rotating over 11 exactly representable pairs, scales 2^-70 .. 2^40; argument dtype/layout combination rotating over 8, "
        "incl. all-int64 and all-int32); non-trivial = at least two distinct points. M: one execution = (n, k, constraint mode, element "
        "violation vectors g, h, start chromosome, answer vector of numpy.random.choice) through hillclimb(). states = distinct (layer, grid, sequence[, sign]) configurations; "
        "transitions = real function calls; traces = cases whose every observation agreed with the reference")
ASSUME = ["point coordinates, weights, preference components and translations are small dyadic rationals, so the float inputs "
          "are exact and the Fraction reference sees the same numbers",
          "is_pareto_efficient maximises the weighted objectives (docstring); weight vectors have at least one non-zero entry",
          "distance transformations: sign vector entries are +-1 (the docstrings call anything else undefined), preference "
          "vectors are non-negative and non-zero; inputs are fronts (mutually non-dominated under the sign vector, duplicates allowed)",
          "a constant objective is scaled to 0 (the convention of the guarded implementation core/util/trans.py; "
          "(x - min) times any finite scale gives this)",
          "argument roles of the two trans_ndpt_to_vec_dist functions are the documented ones (2nd argument = objective "
          "signs, 3rd = the preference vector)",
          "integer, float32, Fortran-ordered and non-contiguous point matrices are valid numpy.ndarray arguments; a function of this "
          "family must not modify any array the caller passed in (points, weights, signs, preference vector) — mask/index agreement, "
          "repeatability and rescaling invariance of the property are stated about the caller's array, which must therefore survive a call",
          "a caller who passes a float32 array gets single-precision answers (tolerance 4e-6 then); all other forms 1e-9",
          "layer M: numpy.random.choice(m) may return any of range(m) (all enumerated); a candidate's total violation is sum(G) + sum(H) "
          "as the operator computes it, with G, H >= 0 in the harness problems; dominates() is intercepted by rebinding the module global",
          "mc/compat.py restores removed numpy names only"]

# ---------------------------------------------------------------------------- alphabets (VERIF_SEED rotates values only)
GRID3 = [(0, 1, 2), (-1, 0.5, 3), (1, 2, 4)]
GRID4 = [(0, 1, 2, 3), (-1, 0.5, 2, 3), (1, 2, 4, 5)]
MAGS = [(1, 2), (1, 3), (0.5, 2)]
PREFS = [(0, 1, 2), (0, 1, 3), (0, 0.5, 2)]
CVS = [(-1, 0, 1, 2), (-0.5, 0, 0.25, 3), (-2, 0, 1, 1.5)]
TRANSL = [(5, -3, 7), (-2.5, 0.25, 1)]
# (scale, translation) of a front: min-max scaling makes the distances invariant under every one of them.  All values are
# exactly representable together with the grid values, so the transformed front is exact and "constant objective" stays an
# exact notion (all values equal).  Large offsets relative to the spread (unit front moved by 2^20 / 2^30; front shrunk to
# 2^-20 and moved by 1 or 2^10) expose any tolerance-based "is this objective constant" test.
TRANSF = [(1, (5, -3, 7)), (1, (-2.5, 0.25, 1)), (1, (2 ** 10, -2 ** 10, 2 ** 10)), (1, (2 ** 20, 2 ** 20, -2 ** 20)),
          (1, (-2 ** 30, 2 ** 20, 2 ** 30)), (2.0 ** -20, (0, 0, 0)), (2.0 ** -20, (1, -1, 1)), (2.0 ** -20, (2 ** 10, 0, -2 ** 10)),
          # objectives expressed in very small / very large units (spread far below any absolute tolerance such as 1e-8)
          (2.0 ** -40, (0, 0, 0)), (2.0 ** -70, (0, 0, 0)), (2.0 ** 40, (0, 0, 0))]
# argument dtype / layout combinations (points / sign-or-objective weights / preference vector); integer forms fall back to
# float32 for an array that holds a non-integral value, so the all-integer combination occurs in every seed
ARGFORMS = [("f8C", "f8", "f8"), ("i8", "i8", "i8"), ("f8F", "i4", "f4"), ("f8view", "f8", "i8"),
            ("i4", "i4", "i4"), ("f4", "f4", "f4"), ("i8", "f8", "i8"), ("f8C", "i8", "f8")]

IMPLS = {
    "core.util.trans.trans_ndpt_pseudo_dist": trans_ndpt_pseudo_dist,
    "sel.prob.trans.trans_ndpt_to_vec_dist": prob_trans_ndpt_to_vec_dist,
    "sel.transfn.trans_ndpt_to_vec_dist": transfn_trans_ndpt_to_vec_dist,
}
PF = "core.util.pareto.is_pareto_efficient:"
PD = "pymoo_addon.dominates:"


class Grid:
    """k-dimensional grid of points over a value alphabet; exact and float forms; dominance tables."""
    _cache = {}

    def __init__(self, name, seed):
        self.name = name
        self.k = int(name[0])
        vals = (GRID4 if name.endswith("g4") else GRID3)[seed % 3]
        self.vals = vals
        self.pts = [tuple(Q(v) for v in p) for p in itertools.product(vals, repeat=self.k)]
        self.fl = numpy.array([[float(v) for v in p] for p in self.pts], dtype="float64")
        self.base = len(self.pts)
        self._tab = {}

    @classmethod
    def get(cls, name, seed):
        key = (name, seed % 3)
        if key not in cls._cache:
            cls._cache[key] = Grid(name, seed)
        return cls._cache[key]

    def tables(self, sg):
        """GE, DOM for a sign pattern (entries -1/0/+1)."""
        t = self._tab.get(sg)
        if t is None:
            t = self._tab[sg] = R.tables(self.pts, sg)
        return t

    def code(self, seq):
        c = 0
        for i in seq:
            c = c * self.base + i
        return c

    def multisets(self, n):
        return list(itertools.combinations_with_replacement(range(self.base), n))


GRIDS = {"2g3": 0, "3g3": 1, "2g4": 2, "1g3": 3, "1g4": 4}


def _nperm(ms):
    n = math.factorial(len(ms))
    for _, g in itertools.groupby(ms):
        n //= math.factorial(len(list(g)))
    return n


def weight_sets(k, seed):
    m1, m2 = MAGS[seed % 3]
    signs = list(itertools.product((1, -1), repeat=k))
    mags = list(itertools.product((m1, m2), repeat=k))
    allw = [[tuple(s * m for s, m in zip(sv, mv)) for mv in mags] for sv in signs]       # grouped by sign vector
    signw = [[tuple(s * m1 for s in sv), tuple(s * m2 for s in sv)] for sv in signs]      # uniform magnitudes only
    zero = [[tuple(w)] for w in itertools.product((0, 1, -1), repeat=k) if 0 in w and any(w)]
    return {"all": allw, "sign": signw, "zero": zero}


def _sid(tag, gname, n, code, extra=0):
    """Exact (not hashed) 9-byte identifier of a configuration."""
    return bytes([ord(tag), GRIDS[gname], n, extra]) + int(code).to_bytes(5, "big")


# ---------------------------------------------------------------------------- shards
def _plan(tier):
    T = tier == "thorough"
    # filter layers: (grid, number of points, weight set)
    F = []
    for n in range(1, (6 if T else 5) + 1):
        F.append(("1g3", n, "all"))              # single objective: weights {+-m1, +-m2}
        F.append(("1g4", n, "all"))
    for n in range(1, (6 if T else 5) + 1):
        F.append(("2g3", n, "all"))
    for n in range(1, 3 + 1):
        F.append(("3g3", n, "all" if (T or n <= 2) else "sign"))
    if T:
        F.append(("3g3", 4, "sign"))
    for n in range(1, (4 if T else 3) + 1):
        F.append(("2g4", n, "all" if T else "sign"))
    if T:
        F.append(("2g4", 5, "sign"))
    for n in range(1, (5 if T else 4) + 1):
        F.append(("2g3", n, "zero"))
    for n in range(1, (3 if T else 2) + 1):
        F.append(("3g3", n, "zero"))
    # transform layers: (grid, number of points)
    Tl = []
    for n in range(1, 3 + 1):
        Tl.append(("1g3", n))                    # single objective: a front is one point, possibly repeated
    for n in range(1, (6 if T else 5) + 1):
        Tl.append(("2g3", n))
    for n in range(1, (5 if T else 4) + 1):
        Tl.append(("2g4", n))
    for n in range(1, (4 if T else 3) + 1):
        Tl.append(("3g3", n))
    return F, Tl


def shards(tier, seed):
    F, Tl = _plan(tier)
    out = [("D", 2), ("D", 3)]
    for n, k in ((3, 1), (3, 2), (4, 1), (4, 2), (5, 1), (5, 2)):
        for mode in ("", "G", "H", "GH"):
            out.append(("M", n, k, mode))
    for cls in ("MutatorA", "MutatorB"):
        for n, k, nstep in ((4, 2, 2), (4, 2, 3), (5, 2, 2)):
            out.append(("N", cls, n, k, nstep))
    for gname, n, wset in F:
        G = Grid.get(gname, seed)
        nw = sum(len(g) for g in weight_sets(G.k, seed)[wset])
        ms = G.multisets(n)
        target = 60000 if tier == "quick" else 250000     # (sequence, weight) cases per shard
        start, acc = 0, 0
        for i, m in enumerate(ms):
            acc += _nperm(m) * nw
            if acc >= target or i == len(ms) - 1:
                out.append(("F", gname, n, wset, start, i + 1))
                start, acc = i + 1, 0
    for gname, n in Tl:
        G = Grid.get(gname, seed)
        ms = G.multisets(n)
        step = 400 if G.k == 3 else 4000
        for i in range(0, len(ms), step):
            out.append(("T", gname, n, i, min(i + step, len(ms))))
    return out


# ---------------------------------------------------------------------------- layer F
class W:
    """One weight vector, prepared once: exact value, float array, sign pattern, tables, canonical representatives."""
    __slots__ = ("wt", "arr", "sg", "GE", "DOM", "canon", "lst")

    def __init__(self, G, wt):
        self.wt = tuple(wt)
        self.lst = [float(x) for x in wt]
        self.arr = numpy.array(self.lst, dtype="float64")
        self.sg = tuple(R.sgn(Q(x)) for x in wt)
        self.GE, self.DOM = G.tables(self.sg)
        # smallest grid index with the same sign-weighted vector (identity unless a weight is zero): the
        # "efficient objective vector" of the property lives in weighted space
        self.canon = [min(b for b in range(G.base) if self.GE[a][b] and self.GE[b][a]) for a in range(G.base)]


FORMS = ("f8C", "i8", "f8F", "f8view", "i4", "f4")      # point-matrix forms of the filter layer
WFORMS = ("f8", "i8", "f4", "i4")                          # weight / sign / preference / objective vector forms


def _integral(a):
    return bool(numpy.all(a == numpy.round(a)))


def vec_form(pristine, form):
    """A caller-owned copy of a float64 array in the given dtype (integer forms fall back to float32 when a value is
    not integral; every value used is exactly representable in float32)."""
    dt = {"f8": "float64", "f4": "float32", "i8": "int64", "i4": "int32"}[form]
    if dt.startswith("int") and not _integral(pristine):
        dt = "float32"
    return pristine.astype(dt)


def make_form(G, pristine, form):
    """The caller's point matrix in one of the input forms (dtype / memory layout alphabet)."""
    if form == "f8C":
        return pristine.copy()
    if form == "f8F":
        return numpy.asfortranarray(pristine)
    if form == "f8view":                       # non-contiguous float64 view into a larger array
        n, k = pristine.shape
        big = numpy.full((2 * n, k + 1), 7.5)
        big[::2, :k] = pristine
        return big[::2, :k]
    return vec_form(pristine, form)


def untouched(sig, what, arr, pristine, desc):
    """Inputs-untouched oracle: an argument array the caller passed in still holds the caller's values."""
    if arr.shape != pristine.shape or not numpy.array_equal(numpy.asarray(arr, dtype="float64"), pristine):
        raise Violation(sig + "input-mutated",
                        f"{desc}: the caller's {what} array was modified in place by the call: now {numpy.asarray(arr).tolist()}, "
                        f"was {pristine.tolist()}")


def f_history(G, seq, w, parity, form, w_next, wform="f8"):
    """One case = a short call history on ONE caller-owned point matrix and ONE weight array:
    mask form, then index form (same weights twice), then (if w_next) the mask form with positively rescaled weights.
    After every call the caller's arrays must be untouched; every answer is judged by the reference, which is what a
    fresh array would give."""
    pristine = G.fl[list(seq)]
    A = make_form(G, pristine, form)
    wa = vec_form(w.arr, wform)
    desc = f"points {pristine.tolist()} ({form}, dtype {A.dtype}) wt {w.lst} (dtype {wa.dtype})"
    mask = is_pareto_efficient(A, wa, True) if parity else is_pareto_efficient(A, wa)
    untouched(PF, "fitness", A, pristine, desc + " [mask form]")
    untouched(PF, "weight", wa, w.arr, desc + " [mask form]")
    index = is_pareto_efficient(A, wa, return_mask=False)
    untouched(PF, "fitness", A, pristine, desc + " [index form]")
    untouched(PF, "weight", wa, w.arr, desc + " [index form]")
    nm, e = f_oracle(G, seq, w, mask, index)
    if w_next is not None:
        wb = vec_form(w_next.arr, wform)
        mask3 = is_pareto_efficient(A, wb, True)
        untouched(PF, "fitness", A, pristine, desc + f" [then wt {w_next.lst}]")
        untouched(PF, "weight", wb, w_next.arr, desc + f" [then wt {w_next.lst}]")
        index3 = numpy.flatnonzero(mask3) if isinstance(mask3, numpy.ndarray) and mask3.dtype == numpy.bool_ else numpy.array([-1])
        nm3, e3 = f_oracle(G, seq, w_next, mask3, index3)
        if e3 != e:
            raise Violation(PF + "history-rescaled-weights",
                            f"{desc}: on the same array, efficient vectors {_vecs(G, w, e)} under wt {w.lst} but {_vecs(G, w, e3)} "
                            f"under the positively rescaled wt {w_next.lst}")
    return nm, e


def f_observe(G, seq, w, form):
    fmat = G.fl[list(seq)]
    if form == "mask":
        return is_pareto_efficient(fmat, w.arr.copy(), True)
    return is_pareto_efficient(fmat, w.arr.copy(), return_mask=False)


def f_oracle(G, seq, w, mask, index):
    """The per-case oracle: definition of non-dominated filtering + mask/index agreement.
    Returns (number of marked points, frozenset of canonical efficient vectors)."""
    n = len(seq)
    GE, DOM = w.GE, w.DOM
    if not (isinstance(mask, numpy.ndarray) and mask.dtype == numpy.bool_ and mask.shape == (n,)):
        raise Violation(PF + "mask-shape", f"mask form returned {type(mask).__name__} dtype {getattr(mask, 'dtype', None)} "
                                           f"shape {getattr(mask, 'shape', None)} for {n} points")
    if not (isinstance(index, numpy.ndarray) and index.dtype.kind in "iu" and index.ndim == 1):
        raise Violation(PF + "index-shape", f"index form returned {type(index).__name__} dtype {getattr(index, 'dtype', None)} "
                                            f"shape {getattr(index, 'shape', None)}")
    ml = mask.tolist()
    marked = [i for i in range(n) if ml[i]]
    ix = index.tolist()
    if sorted(ix) != marked:      # (also excludes repeated and out-of-range indices)
        raise Violation(PF + "mask-index-disagree", f"points {_pts(G, seq)} wt {w.lst}: mask marks {marked}, index form returns {ix}")
    mpts = [seq[i] for i in marked]
    for i in range(n):
        p = seq[i]
        if ml[i]:
            for j in range(n):
                if DOM[seq[j]][p]:
                    raise Violation(PF + "marked-point-dominated",
                                    f"points {_pts(G, seq)} wt {w.lst}: point {i} is marked efficient but point {j} is at least as good "
                                    f"in every weighted objective and strictly better in one (mask {ml})")
        else:
            for q in mpts:
                if GE[q][p]:
                    break
            else:
                raise Violation(PF + "unmarked-point-not-covered",
                                f"points {_pts(G, seq)} wt {w.lst}: point {i} is not marked, yet no marked point equals or dominates it "
                                f"(mask {ml})")
    cn = w.canon
    return len(marked), frozenset([cn[q] for q in mpts])


def _pts(G, seq):
    return [[float(x) for x in G.pts[i]] for i in seq]


def _vecs(G, w, e):
    return sorted([float(s * x) for s, x in zip(w.sg, G.pts[q])] for q in e)


def f_case(ctx, G, seq, w, parity, form="f8C", w_next=None, wform="f8"):
    """Run one (sequence, weight) case; returns (efficient vector set, number marked) or (None, None) on violation."""
    ctx.evaluations += 1
    ncall = 2 if w_next is None else 3
    try:
        nm, e = f_history(G, seq, w, parity, form, w_next, wform)
        ctx.transitions += ncall
    except Exception:
        # slow path: let Ctx.guard classify (Violation or library exception on a valid input)
        case = dict(layer="F", grid=G.name, seq=list(seq), wt=w.lst, parity=parity, form=form, wform=wform,
                    wt_next=None if w_next is None else w_next.lst, seed=ctx.seed)
        ok = ctx.guard(lambda: f_history(G, seq, w, parity, form, w_next, wform), case=case, sig_prefix=PF)
        assert not ok, "non-deterministic observation"
        return None, None
    ctx.traces += 1
    return e, nm


def run_F(spec, ctx):
    _, gname, n, wset, a, b = spec
    G = Grid.get(gname, ctx.seed)
    groups = [[W(G, wt) for wt in grp] for grp in weight_sets(G.k, ctx.seed)[wset]]
    ms_all = G.multisets(n)[a:b]
    ctx.flag(f"F:{gname}:n{n}:{wset}")
    parity = 0
    ocache = set()
    ndrop = 0
    nmust = 0
    nform = 0
    for ms in ms_all:
        perms = R.unique_perms(ms)
        for seq in perms:
            sid = _sid("F", gname, n, G.code(seq))
            ctx.states.add(sid)
            if n >= 2:
                ctx.nontrivial.add(sid)
        if len(set(ms)) < n:
            ctx.flag("F:duplicate-points")
        for grp in groups:
            base = None   # (effset, seq, weight) of the first case of this (multiset, sign vector)
            DOM0 = grp[0].DOM
            uniq = sorted(set(ms))
            if any(DOM0[r][q] for r in uniq for q in uniq):
                nmust += len(grp) * len(perms)       # reference: some point is dominated, the filter has to drop it
            if sum(1 for q in uniq if not any(DOM0[r][q] for r in uniq)) > 1:
                ctx.flag("F:front-with-several-points")
            for wi, w in enumerate(grp):
                for pi, seq in enumerate(perms):
                    parity ^= 1
                    nform += 1
                    form = FORMS[nform % 6]
                    wform = WFORMS[(nform // 6) % 4]
                    # "weights, then rescaled weights" on the same array: first order of every multiset
                    w_next = grp[(wi + 1) % len(grp)] if (pi == 0 and len(grp) > 1) else None
                    ctx.count("F:form:" + form)
                    ctx.count("F:wform:" + wform)
                    if w_next is not None:
                        ctx.count("F:histories-with-rescaled-weights")
                    e, nm = f_case(ctx, G, seq, w, parity, form, w_next, wform)
                    if e is None:
                        continue
                    if nm < n:
                        ndrop += 1
                    key = (w.sg, e)
                    if key not in ocache:
                        ocache.add(key)
                        ctx.outcome(("F", G.name, _vecs(G, w, e)))
                    if base is None:
                        base = (e, seq, w)
                    elif e != base[0]:
                        kind = "order-dependence" if w is base[2] else "rescaling-dependence"
                        ctx.violation(PF + kind,
                                      f"efficient vector set {_vecs(G, w, e)} (sign-weighted) for points {_pts(G, seq)} wt {w.lst} differs from "
                                      f"{_vecs(G, w, base[0])} for points {_pts(G, base[1])} wt {base[2].lst}",
                                      dict(layer="F2", grid=gname, seq=list(seq), wt=w.lst,
                                           base_seq=list(base[1]), base_wt=base[2].lst, seed=ctx.seed))
            if len(grp) > 1:
                ctx.count("F:rescaling-groups-compared")
        if len(perms) > 1:
            ctx.count("F:multisets-with-several-orders-compared")
    ctx.count("F:cases-with-a-dropped-point", ndrop)
    ctx.count("F:cases-with-a-dominated-point(reference)", nmust)


# ---------------------------------------------------------------------------- layer D
def run_D(spec, ctx):
    k = spec[1]
    G = Grid.get(f"{k}g3", ctx.seed)
    cvs = CVS[ctx.seed % 3]
    st = [(p, cv) for p in range(G.base) for cv in cvs]
    tab = {}
    for a, (p1, c1) in enumerate(st):
        for b, (p2, c2) in enumerate(st):
            case = dict(layer="D", k=k, o1=[float(x) for x in G.pts[p1]], cv1=float(c1),
                        o2=[float(x) for x in G.pts[p2]], cv2=float(c2), npfloat=bool((a + b) % 2),
                        oform=WFORMS[(a + 3 * b) % 4], seed=ctx.seed)
            box = {}
            ctx.evaluations += 1
            ctx.state(bytes([ord("D"), k, a, b]))
            ctx.count(f"D:{'feasible' if c1 <= 0 else 'infeasible'}-vs-{'feasible' if c2 <= 0 else 'infeasible'}:"
                      f"{R.dominates_ref(G.pts[p1], Q(c1), G.pts[p2], Q(c2))}")
            ok = ctx.guard(lambda: box.update(r=d_case(ctx, case, box)), case=case, sig_prefix=PD)
            if "raw" in box:
                tab[(a, b)] = box["raw"]          # the order laws below are checked on whatever the predicate answered
            if ok:
                ctx.traces += 1
                ctx.outcome(("D", box["r"], c1 <= 0, c2 <= 0))
                if p1 != p2 or c1 != c2:
                    ctx.nontriv(bytes([ord("D"), k, a, b]))
                ctx.count(f"D:observed-{'feasible' if c1 <= 0 else 'infeasible'}-vs-{'feasible' if c2 <= 0 else 'infeasible'}:{box['r']}")
    # strict partial order on the complete pair table
    ns = len(st)
    if True:
        for a in range(ns):
            for b in range(ns):
                if not tab.get((a, b)):
                    continue
                if tab.get((b, a)):
                    ctx.violation(PD + "not-asymmetric", f"dominates(x,y) and dominates(y,x) both true for x={_st(G, st[a])} y={_st(G, st[b])}",
                                  dict(layer="D3", k=k, states=[_st(G, st[a]), _st(G, st[b])], seed=ctx.seed))
                for c in range(ns):
                    if tab.get((b, c)) and tab.get((a, c)) is False:
                        ctx.violation(PD + "not-transitive",
                                      f"x dominates y, y dominates z, x does not dominate z: x={_st(G, st[a])} y={_st(G, st[b])} z={_st(G, st[c])}",
                                      dict(layer="D3", k=k, states=[_st(G, st[a]), _st(G, st[b]), _st(G, st[c])], seed=ctx.seed))
                    ctx.count("D:triples-checked")
        ctx.flag(f"D:order-laws:k{k}")


def _st(G, s):
    return [[float(x) for x in G.pts[s[0]]], float(s[1])]


def d_call(o1, cv1, o2, cv2, npfloat, oform="f8"):
    """dominates() called twice on the same argument objects: inputs untouched, same answer."""
    p1 = numpy.array(o1, dtype="float64")
    p2 = numpy.array(o2, dtype="float64")
    a1, a2 = vec_form(p1, oform), vec_form(p2, oform)
    c1, c2 = (numpy.float64(cv1), numpy.float64(cv2)) if npfloat else (float(cv1), float(cv2))
    r = dominates(a1, c1, a2, c2)
    desc = f"dominates({o1}, {cv1}, {o2}, {cv2})"
    untouched(PD, "obj1", a1, p1, desc)
    untouched(PD, "obj2", a2, p2, desc)
    r2 = dominates(a1, c1, a2, c2)
    if isinstance(r, (bool, numpy.bool_)) and bool(r2) != bool(r):
        raise Violation(PD + "history-repeat", f"{desc} answered {bool(r)} and then {bool(r2)} on the same arguments")
    return r


def d_case(ctx, case, box=None):
    o1, cv1, o2, cv2 = case["o1"], case["cv1"], case["o2"], case["cv2"]
    r = d_call(o1, cv1, o2, cv2, case["npfloat"], case.get("oform", "f8"))
    ctx.transitions += 2
    require(isinstance(r, (bool, numpy.bool_)), PD + "return-type", f"dominates returned {type(r).__name__}")
    if box is not None:
        box["raw"] = bool(r)
    exp = R.dominates_ref([Q(x) for x in o1], Q(cv1), [Q(x) for x in o2], Q(cv2))
    feas = cv1 <= 0 and cv2 <= 0
    require(bool(r) == exp, PD + ("feasible-pair" if feas else "infeasible-pair"),
            lambda: f"dominates({o1}, {cv1}, {o2}, {cv2}) = {bool(r)}, expected {exp} "
                    f"({'Pareto dominance of two feasible points (minimisation)' if feas else 'smaller constraint violation wins'})")
    if o1 == o2 and cv1 == cv2:
        require(not r, PD + "not-irreflexive", f"a solution dominates itself: {o1}, cv {cv1}")
    return bool(r)


# ---------------------------------------------------------------------------- layer T
def _close_list(a, b, single=False):
    """core.close for two short python lists (rel 1e-9, abs 1e-12, NaN == NaN); single=True: the library answered in
    float32 because every argument was float32 — single-precision tolerance (abs 4e-6 on the [0, sqrt(nobj)] scale)."""
    if len(a) != len(b):
        return False
    ab, rl = (4e-6, 4e-6) if single else (1e-12, 1e-9)
    for x, y in zip(a, b):
        if x != x or y != y:
            if not (x != x and y != y):
                return False
        elif not abs(x - y) <= ab + rl * abs(y):
            return False
    return True


def t_expected(scaled, pref):
    rows, xx, const = scaled
    vq = [Q(c) for c in pref]
    vv = sum(c * c for c in vq)
    out = []
    for r, rr in zip(rows, xx):
        xv = sum(a * c for a, c in zip(r, vq) if c)
        out.append(math.sqrt(float(rr - xv * xv / vv)))      # |x|^2 - (x.v)^2/(v.v), exact, then one sqrt
    return out


def t_scaled(G, seq, sign):
    rows, const = R.scaled_front([G.pts[i] for i in seq], sign)
    return rows, [sum(a * a for a in r) for r in rows], const


def t_check(name, fn, G, seq, P, s, v, tf, exp, const, sign, pref, form="f8C/f8/f8", repeat=False):
    """One case = a call history on caller-owned arrays: the front, then the transformed (scaled + translated) front with
    the SAME sign and preference array objects, then (repeat) the first front again; inputs must be untouched after every
    call.  form = "<points>/<signs>/<preference>" dtype-layout combination."""
    pf, sf, vf = form.split("/")
    sc, tr = TRANSF[tf]
    t = numpy.array([float(x) for x in tr[:G.k]])
    desc = f"front {_pts(G, seq)} signs {list(map(float, sign))} preference {list(map(float, pref))} (argument forms {form})"
    P1 = make_form(G, P, pf)
    s1, v1 = vec_form(s, sf), vec_form(v, vf)
    d = fn(P1, s1, v1)
    untouched(name + ":", "point", P1, P, desc)
    untouched(name + ":", "sign/weight", s1, s, desc)
    untouched(name + ":", "preference", v1, v, desc)
    Pt = P * sc + t                              # exact: every value is a small dyadic rational
    P2 = make_form(G, Pt, pf) if pf in ("f8C", "f8F", "f8view") else Pt.copy()
    d2 = fn(P2, s1, v1)
    untouched(name + ":", "point", P2, Pt, desc + " [transformed]")
    untouched(name + ":", "sign/weight", s1, s, desc + " [transformed]")
    untouched(name + ":", "preference", v1, v, desc + " [transformed]")
    if repeat:
        d3 = fn(P1, s1, v1)
        if not (isinstance(d3, numpy.ndarray) and isinstance(d, numpy.ndarray) and numpy.array_equal(d3, d, equal_nan=True)):
            raise Violation(name + ":history-repeat", f"{desc}: first call {getattr(d, 'tolist', lambda: d)()}, the same call repeated on "
                                                      f"the same arrays {getattr(d3, 'tolist', lambda: d3)()}")
    if not (isinstance(d, numpy.ndarray) and d.shape == (len(seq),)):
        raise Violation(name + ":shape", f"returned {type(d).__name__} of shape {getattr(d, 'shape', None)} for {len(seq)} points")
    dl = d.tolist()
    # single precision is all a caller can expect when one of the arguments is float32 (numpy then rounds intermediates to float32)
    single = any(getattr(z, "dtype", None) == numpy.float32 for z in (P1, s1, v1, d, d2))
    if const and not all(math.isfinite(x) for x in dl):
        raise Violation(name + ":non-finite-constant-objective",
                        f"front {_pts(G, seq)} signs {list(map(float, sign))} preference {list(map(float, pref))}: objective(s) {const} "
                        f"are constant over the front and the distances are {dl} (expected finite {exp})")
    if not _close_list(dl, exp, single):
        raise Violation(name + ":geometric-definition",
                        f"front {_pts(G, seq)} signs {list(map(float, sign))} preference {list(map(float, pref))}: distances {dl} "
                        f"differ from the geometric definition {exp} (sign-adjust, min-max scale each objective, "
                        f"orthogonal distance to the line through 0 along the preference vector)")
    if not (isinstance(d2, numpy.ndarray) and _close_list(d2.tolist(), dl, single)):
        raise Violation(name + ":translation-dependence",
                        f"{desc}: distances {dl} change to {getattr(d2, 'tolist', lambda: d2)()} when every objective of the front is "
                        f"multiplied by {sc} and translated by {t.tolist()} (front becomes {Pt.tolist()}; min-max scaling makes the "
                        f"distances invariant; tolerance 1e-9 in units of the scaled [0,1] spread)")


def t_case(ctx, G, seq, sign, pref, tf, record=True, scaled=None, cache=None, form="f8C/f8/f8", repeat=False):
    """All three implementations on one (front, sign vector, preference vector), plain and translated by `tr`."""
    if scaled is None:
        scaled = t_scaled(G, seq, sign)
    const = scaled[2]
    exp = t_expected(scaled, pref)
    P = G.fl[list(seq)]
    s = numpy.array([float(x) for x in sign])
    v = numpy.array([float(x) for x in pref])
    allok = True
    for name, fn in IMPLS.items():
        ctx.transitions += 3 if repeat else 2
        try:
            t_check(name, fn, G, seq, P, s, v, tf, exp, const, sign, pref, form, repeat)
        except Violation as e:
            # count every failing case, keep the smallest case per signature (what Ctx.merge would keep anyway)
            allok = False
            case = dict(layer="T", grid=G.name, seq=list(seq), sign=[float(x) for x in sign], pref=[float(x) for x in pref],
                        tf=tf, impl=name, form=form, repeat=repeat, seed=ctx.seed)
            ctx.violation(e.sig, e.detail, case)
        except Exception:
            allok = False
            case = dict(layer="T", grid=G.name, seq=list(seq), sign=[float(x) for x in sign], pref=[float(x) for x in pref],
                        tf=tf, impl=name, form=form, repeat=repeat, seed=ctx.seed)
            ctx.guard(lambda: t_check(name, fn, G, seq, P, s, v, tf, exp, const, sign, pref, form, repeat), case=case, sig_prefix=name + ":")
    if record:
        key = tuple(round(x, 9) for x in exp)
        if cache is None or key not in cache:
            if cache is not None:
                cache.add(key)
            ctx.outcome(("T", key))
    return allok, const


def run_T(spec, ctx):
    _, gname, n, a, b = spec
    G = Grid.get(gname, ctx.seed)
    k = G.k
    signs = list(itertools.product((1, -1), repeat=k))
    prefs = [p for p in itertools.product(PREFS[ctx.seed % 3], repeat=k) if any(p)]
    ctx.flag(f"T:{gname}:n{n}")
    cnt = 0
    ocache = set()
    for ms in G.multisets(n)[a:b]:
        perms = None
        for si, sign in enumerate(signs):
            GE, DOM = G.tables(sign)
            if any(DOM[x][y] for x in ms for y in ms):
                ctx.count("T:skipped-not-a-front(multiset,sign)")
                continue
            if perms is None:
                perms = R.unique_perms(ms)
                if ctx.tier == "quick" and G.k == 3 and n >= 3:
                    # quick tier: the transformations treat rows independently, so for the largest 3-objective fronts
                    # only the sorted order and its reverse are run (thorough runs every order)
                    perms = sorted({tuple(ms), tuple(ms[::-1])})
                    ctx.flag("T:quick-tier-two-orders-only(3g3,n>=3)")
            for seq in perms:
                scaled = t_scaled(G, seq, sign)
                sid = _sid("T", gname, n, G.code(seq), extra=si + 1)
                ctx.state(sid)
                if len(set(ms)) > 1:
                    ctx.nontriv(sid)
                for pref in prefs:
                    cnt += 1
                    ctx.evaluations += 1
                    form = "/".join(ARGFORMS[(cnt // 8) % 8])
                    tf = (cnt + cnt // 8) % len(TRANSF)
                    ctx.count("T:form:" + form)
                    ctx.count(f"T:transformation:{tf}")
                    if form == "i8/i8/i8" and _integral(G.fl[list(seq)]) and _integral(numpy.array([float(x) for x in pref])):
                        ctx.count("T:all-integer-argument-cases")
                    if cnt % 3 == 0:
                        ctx.count("T:histories-with-a-repeated-call")
                    ok, const = t_case(ctx, G, seq, sign, pref, tf, scaled=scaled, cache=ocache, form=form, repeat=(cnt % 3 == 0))
                    if ok:
                        ctx.traces += 1
                    ctx.count("T:calls-per-implementation", 3 if cnt % 3 == 0 else 2)
                    if const:
                        ctx.count("T:cases-with-a-constant-objective")
                        if len(set(ms)) > 1:
                            ctx.flag("T:constant-objective-with-distinct-points")
                    if 0 in pref:
                        ctx.flag("T:preference-with-zero-component")
                    if len(set(pref)) > 1 and 0 not in pref:
                        ctx.flag("T:unequal-positive-preference")
                    if -1 in sign:
                        ctx.flag("T:minimised-objective")
                    if n == 1:
                        ctx.flag("T:single-point-front")
                    if len(set(ms)) < n:
                        ctx.flag("T:duplicate-points")
                    if cnt % 5003 == 7:
                        ctx.sample(dict(layer="T", front=_pts(G, seq), sign=list(sign), pref=[float(x) for x in pref],
                                        expected=R.geo_dist([G.pts[i] for i in seq], sign, pref)[0]))


# ---------------------------------------------------------------------------- layer M (the predicate as USED by the memetic operator)
PM = "pymoo_addon.MultiObjectiveStochasticHillClimberMutation.hillclimb:"
M_B = [(3, 0, 4, 1, 2), (1, 4, 0, 3, 2), (2, 3, 1, 0, 4)]      # second-objective element codes (seed rotates)


def m_tables(n, k, mode, g, h, seed):
    """Objective / violation tables over all k-subsets of range(n): F is injective (first objective = sum of 2^i), so an
    objective vector handed to dominates() identifies the candidate it belongs to."""
    b = M_B[seed % 3]
    F, CV, Gt, Ht = {}, {}, {}, {}
    for sub in itertools.combinations(range(n), k):
        F[sub] = (float(sum(2 ** i for i in sub)), float(sum(b[i] for i in sub)))
        Gt[sub] = float(sum(g[i] for i in sub)) if "G" in mode else None
        Ht[sub] = float(sum(h[i] for i in sub)) if "H" in mode else None
        CV[sub] = (Gt[sub] or 0.0) + (Ht[sub] or 0.0)       # the operator's documented total: sum of G + sum of H (both >= 0 here)
    return F, CV, Gt, Ht


def m_case(ctx, case):
    """One execution of hillclimb() on a tiny subset problem under one scripted answer vector of numpy.random.choice."""
    import pybrops.opt.algo.pymoo_addon as PA
    from pymoo.core.problem import Problem
    n, k, mode, start, answers = case["n"], case["k"], case["mode"], case["start"], list(case["answers"])
    F, CV, Gt, Ht = m_tables(n, k, mode, case["g"], case["h"], case["seed"])
    visited, calls = [], []

    class TableProblem(Problem):
        def __init__(self):
            super().__init__(n_var=k, n_obj=2, n_ieq_constr=int("G" in mode), n_eq_constr=int("H" in mode), xl=0, xu=n - 1)

        def _evaluate(self, x, out, *a, **kw):
            subs = [tuple(sorted(int(v) for v in r)) for r in x]
            visited.extend(subs)
            out["F"] = numpy.array([F[c] for c in subs])
            if "G" in mode:
                out["G"] = numpy.array([[Gt[c]] for c in subs])
            if "H" in mode:
                out["H"] = numpy.array([[Ht[c]] for c in subs])

    real_dom, real_choice = PA.dominates, numpy.random.choice

    def rec_dom(o1, c1, o2, c2):
        calls.append((tuple(float(v) for v in o1), float(c1), tuple(float(v) for v in o2), float(c2)))
        return real_dom(o1, c1, o2, c2)

    def choice(a, *args, **kw):
        require(not args and not kw and isinstance(a, int) and answers, PM + "unexpected-random-call", f"choice({a}, {args}, {kw})")
        j = answers.pop(0)
        assert 0 <= j < a, "scripted answer not reachable"
        return j
    setspace = numpy.arange(n)
    x0 = numpy.array(start, dtype="int64")
    mut = PA.MultiObjectiveStochasticHillClimberMutation(setspace=setspace, p_hillclimb=1.0)
    PA.dominates, numpy.random.choice = rec_dom, choice
    try:
        out = mut.hillclimb(TableProblem(), x0)
    finally:
        PA.dominates, numpy.random.choice = real_dom, real_choice
    ctx.transitions += 1
    desc = (f"setspace range({n}), start {list(start)}, choice answers {case['answers']}, constraints '{mode or 'none'}' "
            f"g {case['g']} h {case['h']}; candidates visited {visited}")
    require(numpy.array_equal(x0, numpy.array(start)) and numpy.array_equal(setspace, numpy.arange(n)), PM + "input-mutated",
            f"{desc}: the caller's chromosome / setspace was modified")
    byF = {F[c]: c for c in F}
    for o1, c1, o2, c2 in calls:
        for o, c in ((o1, c1), (o2, c2)):
            cand = byF.get(o)
            require(cand is not None and cand in visited, PM + "dominates-argument-objectives",
                    f"{desc}: dominates() received objective vector {o}, which is not the evaluation of a visited candidate")
            require(c == CV[cand], PM + "dominates-argument-cv",
                    f"{desc}: dominates() received constraint violation {c} for candidate {list(cand)} (objectives {o}) whose own "
                    f"total violation is {CV[cand]} (G {Gt[cand]}, H {Ht[cand]})")
    res = tuple(sorted(int(v) for v in numpy.asarray(out).ravel()))
    require(len(res) == k and len(set(res)) == k and res in F and res in visited, PM + "returned-not-a-visited-subset",
            f"{desc}: returned {numpy.asarray(out).tolist()}")
    for c in visited:
        require(not R.dominates_ref(F[c], CV[c], F[res], CV[res]), PM + "returned-leader-dominated",
                f"{desc}: returned {list(res)} (objectives {F[res]}, violation {CV[res]}) is dominated, by the feasibility-first "
                f"predicate with each candidate's own violation, by the visited candidate {list(c)} (objectives {F[c]}, violation {CV[c]})")
    return res, len(calls), len(set(visited))


def run_M(spec, ctx):
    _, n, k, mode = spec
    ctx.flag(f"M:n{n}:k{k}:{mode or 'none'}")
    bits = list(itertools.product((0, 1), repeat=n))
    gs = bits if "G" in mode else [(0,) * n]
    hs = [tuple(2 * v for v in hb) for hb in bits] if "H" in mode else [(0,) * n]
    if mode == "GH" and n == 5:
        gs = [bits[i] for i in (0, 5, 18, 31)]
    for g in gs:
        for h in hs:
            for start in itertools.permutations(range(n), k):
                for answers in itertools.product(range(n - k), repeat=k):
                    case = dict(layer="M", n=n, k=k, mode=mode, g=list(g), h=list(h), start=list(start), answers=list(answers), seed=ctx.seed)
                    ctx.evaluations += 1
                    ctx.state(("M", n, k, mode, g, h, start, answers))
                    box = {}
                    if ctx.guard(lambda: box.update(r=m_case(ctx, case)), case=case, sig_prefix=PM):
                        ctx.traces += 1
                        res, ncalls, nvis = box["r"]
                        ctx.outcome(("M", n, k, res))
                        ctx.count("M:dominates-calls-observed", ncalls)
                        if tuple(sorted(start)) != res:
                            ctx.count("M:executions-where-the-leader-changed")
                        if nvis > 1 and ncalls:
                            ctx.nontriv(("M", n, k, mode, g, h, start, answers))
                    F, CV, Gt, Ht = m_tables(n, k, mode, g, h, ctx.seed)
                    if "H" in mode and len({Ht[c] for c in F}) > 1:
                        ctx.count("M:executions-with-H-varying-between-subsets")


# ---------------------------------------------------------------------------- layer N (neighbourhood mutators MutatorA / MutatorB)
PN = "pymoo_addon.{}.hillclimb:"


def _choice_menu(a, size, replace):
    """All answers numpy.random.choice(a, size, replace) can give (a: int or 1-D array)."""
    pop = list(range(a)) if isinstance(a, (int, numpy.integer)) else list(numpy.asarray(a).tolist())
    if size is None:
        return [v for v in pop]
    assert replace is False
    return [numpy.array(t, dtype="int64") for t in itertools.permutations(pop, int(size))]


def n_run(case, prefix):
    """One execution of MutatorA/B.hillclimb under the answer prefix (then first answers); returns (taken, menu sizes, result)."""
    import pybrops.opt.algo.pymoo_addon as PA
    from pymoo.core.problem import Problem
    n, k, cvec, nstep = case["n"], case["k"], case["c"], case["nhcstep"]
    b = M_B[case["seed"] % 3]
    Ft = {sub: (float(sum(cvec[i] for i in sub)), float(sum(b[i] for i in sub))) for sub in itertools.combinations(range(n), k)}
    batches, taken, menus = [], [], []

    class TableProblem(Problem):
        def __init__(self):
            super().__init__(n_var=k, n_obj=2, xl=0, xu=n - 1)

        def _evaluate(self, x, out, *a, **kw):
            rows = [tuple(int(v) for v in r) for r in numpy.atleast_2d(x)]
            batches.append(rows)
            out["F"] = numpy.array([Ft[tuple(sorted(r))] for r in rows])

    real = numpy.random.choice

    def choice(a, size=None, replace=True, p=None):
        menu = _choice_menu(a, size, replace)
        i = prefix[len(taken)] if len(taken) < len(prefix) else 0
        taken.append(i)
        menus.append(len(menu))
        return menu[i]
    cls = getattr(PA, case["cls"])
    mut = cls(setspace=numpy.arange(n), phc=1.0, nhcstep=nstep)
    numpy.random.choice = choice
    try:
        out = mut.hillclimb(TableProblem(), numpy.array(case["start"], dtype="int64"))
    finally:
        numpy.random.choice = real
    return taken, menus, out, batches, Ft


def n_oracle(case, taken, out, batches, Ft):
    P = PN.format(case["cls"])
    nb = batches[-1]                      # the neighbours evaluated in this step
    res = tuple(int(v) for v in numpy.asarray(out).ravel())
    desc = f"{case['cls']} setspace range({case['n']}) start {case['start']} first-objective codes {case['c']} nhcstep {case['nhcstep']} " \
           f"answers {taken}: neighbours {[(list(r), Ft[tuple(sorted(r))]) for r in nb]}"
    require(res in nb, P + "returned-not-a-neighbour", f"{desc}: returned {list(res)}")
    fr = Ft[tuple(sorted(res))]
    for r in nb:
        fo = Ft[tuple(sorted(r))]
        require(not (all(x <= y for x, y in zip(fo, fr)) and any(x < y for x, y in zip(fo, fr))), P + "returned-neighbour-dominated",
                f"{desc}: returned {list(res)} with objectives {fr} is dominated by the evaluated neighbour {list(r)} with {fo}")


def run_N(spec, ctx):
    _, cls, n, k, nstep = spec
    ctx.flag(f"N:{cls}:n{n}:k{k}:s{nstep}")
    for cvec in itertools.product((0, 1), repeat=n):
        for start in itertools.permutations(range(n), k):
            base = dict(layer="N", cls=cls, n=n, k=k, nhcstep=nstep, c=list(cvec), start=list(start), seed=ctx.seed)
            stack = [[]]
            while stack:
                prefix = stack.pop()
                taken, menus, out, batches, Ft = n_run(base, prefix)
                for i in range(len(prefix), len(menus)):
                    for alt in range(1, menus[i]):
                        stack.append(taken[:i] + [alt])
                case = dict(base, answers=list(taken))
                ctx.evaluations += 1
                ctx.transitions += 1
                ctx.state(("N", cls, n, k, nstep, cvec, start, tuple(taken)))
                if len({Ft[tuple(sorted(r))][0] for r in batches[-1]}) < len(set(batches[-1])):
                    ctx.count("N:executions-with-a-tied-first-objective-among-neighbours")
                    ctx.nontriv(("N", cls, n, k, nstep, cvec, start, tuple(taken)))
                if ctx.guard(lambda: n_oracle(case, taken, out, batches, Ft), case=case, sig_prefix=PN.format(cls)):
                    ctx.traces += 1
                    ctx.outcome(("N", cls, tuple(int(v) for v in numpy.asarray(out).ravel())))


# ---------------------------------------------------------------------------- driver
def run_shard(spec, ctx):
    F, Tl = _plan(ctx.tier)
    ctx.bounds.update({
        "filter_layers(grid,npoints,weightset)": [list(x) for x in F],
        "transform_layers(grid,npoints)": [list(x) for x in Tl],
        "grid_values_3": list(GRID3[ctx.seed % 3]), "grid_values_4": list(GRID4[ctx.seed % 3]),
        "weight_magnitudes": list(MAGS[ctx.seed % 3]), "preference_components": list(PREFS[ctx.seed % 3]),
        "cv_alphabet": list(CVS[ctx.seed % 3]), "front_transformations(scale,translation)": [[sc, list(t)] for sc, t in TRANSF],
        "argument_forms(points/signs/preference)": ["/".join(a) for a in ARGFORMS], "filter_point_forms": list(FORMS),
        "weight_vector_forms": list(WFORMS),
        "dominates_dims": [2, 3],
    })
    if spec[0] == "F":
        before = ctx.evaluations
        run_F(spec, ctx)
        ctx.count(f"F:cases:{spec[1]}:{spec[3]}", ctx.evaluations - before)
        if spec[4] == 0 and spec[2] == 3:
            # one actual case per 3-point layer as a sample (an extra, uncounted call)
            G = Grid.get(spec[1], ctx.seed)
            ms = next((m for m in G.multisets(3) if len(set(m)) == 3 and m[0] > 0), G.multisets(3)[-2])
            w = W(G, weight_sets(G.k, ctx.seed)[spec[3]][1][0])
            ctx.sample(dict(layer="F", points=_pts(G, ms), wt=w.lst, mask=f_observe(G, ms, w, "mask").tolist(),
                            index=f_observe(G, ms, w, "index").tolist(),
                            note="every order of every multiset and every weight vector of the layer was run"))
    elif spec[0] == "D":
        run_D(spec, ctx)
    elif spec[0] == "T":
        run_T(spec, ctx)
    elif spec[0] == "M":
        run_M(spec, ctx)
    elif spec[0] == "N":
        run_N(spec, ctx)
    else:
        raise ValueError(spec)


def finalize(ctx, tier, seed):
    F, Tl = _plan(tier)
    for gname, n, wset in F:
        assert f"F:{gname}:n{n}:{wset}" in ctx.flags, (gname, n, wset)
    for gname, n in Tl:
        assert f"T:{gname}:n{n}" in ctx.flags, (gname, n)
    for f in ("F:duplicate-points", "F:front-with-several-points", "D:order-laws:k2", "D:order-laws:k3",
              "T:constant-objective-with-distinct-points", "T:preference-with-zero-component", "T:unequal-positive-preference",
              "T:minimised-objective", "T:single-point-front", "T:duplicate-points"):
        assert f in ctx.flags, f
    c = ctx.counters
    for n_, k_ in ((3, 1), (3, 2), (4, 1), (4, 2), (5, 1), (5, 2)):
        for mode in ("none", "G", "H", "GH"):
            assert f"M:n{n_}:k{k_}:{mode}" in ctx.flags, (n_, k_, mode)
    assert c.get("M:executions-with-H-varying-between-subsets", 0) > 1000
    for cls in ("MutatorA", "MutatorB"):
        for n_, k_, st_ in ((4, 2, 2), (4, 2, 3), (5, 2, 2)):
            assert f"N:{cls}:n{n_}:k{k_}:s{st_}" in ctx.flags, (cls, n_, k_, st_)
    assert c.get("N:executions-with-a-tied-first-objective-among-neighbours", 0) > 1000
    assert c.get("F:cases-with-a-dominated-point(reference)", 0) > 1000, c.get("F:cases-with-a-dominated-point(reference)")
    assert c.get("F:multisets-with-several-orders-compared", 0) > 100
    assert c.get("F:rescaling-groups-compared", 0) > 100
    assert c.get("T:cases-with-a-constant-objective", 0) > 100
    # every branch of the dominance predicate taken with both answers
    for a in ("feasible", "infeasible"):
        for b in ("feasible", "infeasible"):
            got = {r for r in (True, False) if c.get(f"D:{a}-vs-{b}:{r}", 0) > 0}
            want = {("infeasible", "feasible"): {False}, ("feasible", "infeasible"): {True}}.get((a, b), {True, False})
            assert got == want, (a, b, got)      # counted by the reference's answer: both answers are demanded of the library
    assert c.get("T:calls-per-implementation", 0) > 1000
    for f in FORMS:
        assert c.get("F:form:" + f, 0) > 1000, f
    for f in WFORMS:
        assert c.get("F:wform:" + f, 0) > 1000, f
    for a_ in ARGFORMS:
        assert c.get("T:form:" + "/".join(a_), 0) > 100, a_
    for i in range(len(TRANSF)):
        assert c.get(f"T:transformation:{i}", 0) > 100, i
    assert c.get("T:all-integer-argument-cases", 0) > 100, c.get("T:all-integer-argument-cases")
    assert c.get("F:histories-with-rescaled-weights", 0) > 1000 and c.get("T:histories-with-a-repeated-call", 0) > 1000
    from ..core import load_known, match_known
    known = load_known()
    unknown = [sg for sg in ctx.violations if not match_known(ID, sg, known)]
    assert len(ctx.outcomes) > 50 or unknown, len(ctx.outcomes)     # (observed outcomes depend on the library; a broken library fails above)
    # exact expected sizes of the sequence spaces (nothing silently skipped)
    exp = 0
    for gname, n, wset in F:
        G = Grid.get(gname, seed)
        exp += G.base ** n * sum(len(g) for g in weight_sets(G.k, seed)[wset])
    got = sum(v for k_, v in c.items() if k_.startswith("F:cases:"))
    assert got == exp, (got, exp)


# ---------------------------------------------------------------------------- replay
def replay(case, ctx):
    seed = case.get("seed", ctx.seed)
    ctx.seed = seed
    lay = case["layer"]
    if lay == "F":
        G = Grid.get(case["grid"], seed)
        wn = case.get("wt_next")
        f_case(ctx, G, tuple(case["seq"]), W(G, tuple(Q(x) for x in case["wt"])), case["parity"], case.get("form", "f8C"),
               None if wn is None else W(G, tuple(Q(x) for x in wn)), case.get("wform", "f8"))
    elif lay == "F2":
        G = Grid.get(case["grid"], seed)
        e1, _ = f_case(ctx, G, tuple(case["seq"]), W(G, tuple(Q(x) for x in case["wt"])), 1)
        e0, _ = f_case(ctx, G, tuple(case["base_seq"]), W(G, tuple(Q(x) for x in case["base_wt"])), 1)
        if e1 is not None and e0 is not None and e1 != e0:
            kind = "order-dependence" if case["wt"] == case["base_wt"] else "rescaling-dependence"
            ctx.violation(PF + kind, f"efficient vector sets (canonical grid indices) differ: {sorted(e1)} vs {sorted(e0)}", case)
    elif lay == "D":
        ctx.guard(lambda: d_case(ctx, case), case=case, sig_prefix=PD)
    elif lay == "D3":
        sts = case["states"]
        r = [[bool(d_call(a[0], a[1], b[0], b[1], False)) for b in sts] for a in sts]
        if len(sts) == 2 and r[0][1] and r[1][0]:
            ctx.violation(PD + "not-asymmetric", f"both directions true for {sts}", case)
        if len(sts) == 3 and r[0][1] and r[1][2] and not r[0][2]:
            ctx.violation(PD + "not-transitive", f"x>y, y>z, not x>z for {sts}", case)
    elif lay == "M":
        ctx.guard(lambda: m_case(ctx, case), case=case, sig_prefix=PM)
    elif lay == "N":
        taken, menus, out, batches, Ft = n_run(case, case["answers"])
        ctx.guard(lambda: n_oracle(case, taken, out, batches, Ft), case=case, sig_prefix=PN.format(case["cls"]))
    elif lay == "T":
        G = Grid.get(case["grid"], seed)
        global IMPLS
        keep = IMPLS
        IMPLS = {case["impl"]: keep[case["impl"]]}
        try:
            t_case(ctx, G, tuple(case["seq"]), tuple(int(x) for x in case["sign"]), tuple(Q(x) for x in case["pref"]),
                   case["tf"], record=False, form=case.get("form", "f8C/f8/f8"), repeat=case.get("repeat", False))
        finally:
            IMPLS = keep
    else:
        raise ValueError(lay)
