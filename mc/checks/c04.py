"""C04 — linear genomic models: prediction, summaries, rrBLUP.

Complete small-scope input enumeration.  A *state* is one (model, genotype)
configuration, a *transition* is one application of a public model method to it.
Every public method of the three dense linear model classes (introspected; a method
that is on the class but not in TABLE/EXCLUDED is reported as ``uncovered:``) is
evaluated on every configuration in scope, for every input form (phased matrix,
unphased projection, raw dosage ndarray), and compared with the per-taxon definition
evaluated in exact arithmetic (mc/ref/linmod.py).  Metamorphic layers on top: all
taxon permutations, all 2-way marker partitions, and short histories that re-assign the
coefficients of one model object (setters / in-place) and demand the behaviour of a fresh model.  Second part: every small training
set through rrBLUPModel0.fit_numpy with the four clauses of the property.  Third part: a
population-size sweep (every n up to 260 / 2100) of the allele statistics, whose
fixed / polymorphic flags and boundary frequencies must be exact for every size.
"""
from __future__ import annotations
import hashlib, importlib, itertools, math
from fractions import Fraction as Fr
import numpy

from .. import compat  # noqa: F401
from ..core import Violation, require, close
from ..ref import linmod as R

ID = "C04"
TECHNIQUE = ("complete small-scope input enumeration of (model, genotype) configurations x every public model "
             "method x every input form on the real classes, against per-taxon definitions in exact rational "
             "arithmetic; all taxon permutations and all 2-way marker partitions as metamorphic layers; "
             "exhaustive enumeration of small rrBLUP training sets")
RULE = ("one evaluation = one (model class, effects, intercept rows, ploidy, genotype matrix) configuration on which "
        "every covered public method is applied in every applicable input form (phased / unphased / ndarray), plus "
        "taxon permutations (all n! for n<=3; thorough: all 24 for n=4), all 2-way marker splits and (every second "
        "configuration) a 2-step history that re-assigns the coefficients of the same model object through the "
        "public setters / in place and re-checks the value methods; or one training "
        "set (Z,y) through rrBLUPModel0.fit_numpy. Genotypes: ALL phased matrices {0,1}^(2 x n x m) for "
        "(n,m) in {(1,1),(1,2),(2,1),(2,2),(3,1)} in both tiers and for (3,2) in thorough (quick: every 3rd), "
        "pairwise-covering strided sets for (3,3),(4,2) (asserted), all haploid / tetraploid matrices of the listed "
        "small shapes. Effects: ALL vectors over a 4-letter alphabet {neg,0,pos-fraction,pos} per marker (second "
        "trait: rotated alphabet, reversed marker order); dominance: full (a,d) product for one marker, 4-fold covering "
        "(every marker sees all 16 letter pairs, asserted) otherwise; for the large shapes k effect vectors per "
        "genotype rotating through all of them (bounds.model_blocks lists every block). Training sets: ALL Z in "
        "{0,1,2}^(n x p) x ALL y in a 3-letter alphabet for the listed (n,p) (one representative per multiset of "
        "records where marked 'sorted'; strides as listed in bounds.fit_blocks). "
        "Population-size sweep: for EVERY n = 1..260 (thorough 2100) x ploidy 1/2/4 x 4 classes x phased/unphased the "
        "fa*/da*/na* statistics on loci {fixed-1, fixed-0, one copy short, half} x effects {pos, neg, 0} against integer "
        "counting; flags exact, frequencies exactly 0/1 iff absent/fixed. "
        "states = distinct configurations (digest of class, ploidy, genotype, effects, intercept); transitions = "
        "method applications; traces = configurations on which every oracle agreed; non-trivial = configuration "
        "with positive additive genetic variance or a heterozygous locus with non-zero dominance effect, or a "
        "training set with non-constant response; outcomes = digest of the per-taxon values and allele counts the "
        "library returned / of the fitted coefficients")
ASSUME = ["mc/compat.py restores removed numpy names only",
          "effect / intercept alphabets are dyadic rationals (exact in float64), rotated by VERIF_SEED; nothing is "
          "claimed for values outside them beyond linearity",
          "DenseLinearGenomicModel is abstract on this tree (16 abstract members); it is exercised through a harness "
          "subclass that only stubs the abstract members, the stubs are never called",
          "intercept contrast is the documented one: X* = [1, 1/q, ..., 1/q]",
          "raw ndarray input to the dominance model is diploid {0,1,2} coded as its docstring demands; other "
          "ploidies are given as genotype matrix objects",
          "rrBLUP variance ratio is the one reported by the library's own rrBLUP_ML0 for that fit (captured by "
          "wrapping the module-level function inside the harness process)",
          "normal-equation clause for every training set with n > #polymorphic markers (tolerance 1e-6 x scale); sets whose "
          "polymorphic columns are linearly dependent are reported under the separate signature suffix @collinear-markers"]

# ----------------------------------------------------------------------------
# alphabets (rotated by VERIF_SEED; all dyadic so float64 holds them exactly)
EFF = [(Fr(-1), Fr(0), Fr(1, 2), Fr(2)),
       (Fr(-2), Fr(0), Fr(1, 4), Fr(3)),
       (Fr(-1, 2), Fr(0), Fr(3, 2), Fr(4))]
BETA = [[[Fr(3, 2), Fr(-2)], [Fr(4), Fr(1, 2)], [Fr(-1), Fr(6)]],
        [[Fr(-3), Fr(1, 4)], [Fr(2), Fr(-8)], [Fr(5), Fr(1)]],
        [[Fr(10), Fr(3, 4)], [Fr(-1, 2), Fr(3)], [Fr(7), Fr(-4)]]]
MISC = [[Fr(7, 4), Fr(-3)], [Fr(-5, 2), Fr(1)], [Fr(6), Fr(1, 8)]]
TAXA = [["tx2", "tx0", "tx1", "tx3"], ["dup", "alpha", "dup", "Beta"], ["10", "9", "x", "A"]]
TGRP = [[2, 1, 2, 1], [5, 5, 3, 9], [0, 7, 0, 7]]
TRAIT = [["yield", "ht"], ["b", "a"], ["T1", "T0"]]
YV = [(Fr(0), Fr(1), Fr(3)), (Fr(-1), Fr(1, 2), Fr(2)), (Fr(10), Fr(11), Fr(14))]
XV = (Fr(2), Fr(1, 2), Fr(-1))

# The normal-equation clause is applied whenever n > #polymorphic markers, as the property says.  Training sets whose
# polymorphic marker columns are linearly dependent (markers in complete LD) get their own signature suffix
# "@collinear-markers"; set to False to restrict the clause to full-column-rank sets.
NORMAL_EQ_ON_COLLINEAR = True

CLSNAME = {"A": "DenseAdditiveLinearGenomicModel", "D": "DenseAdditiveDominanceLinearGenomicModel",
           "L": "DenseLinearGenomicModel", "R": "rrBLUPModel0"}
_cache = {}


def lib(name):
    if name not in _cache:
        mods = {"PG": "pybrops.popgen.gmat.DensePhasedGenotypeMatrix:DensePhasedGenotypeMatrix",
                "G": "pybrops.popgen.gmat.DenseGenotypeMatrix:DenseGenotypeMatrix",
                "BV": "pybrops.popgen.bvmat.DenseBreedingValueMatrix:DenseBreedingValueMatrix",
                "GEBV": "pybrops.popgen.bvmat.DenseGenomicEstimatedBreedingValueMatrix:DenseGenomicEstimatedBreedingValueMatrix",
                "TBV": "pybrops.breed.prot.bv.TrueBreedingValue:TrueBreedingValue",
                "RRMOD": "pybrops.model.gmod.rrBLUPModel0:"}
        if name in CLSNAME:
            mod = importlib.import_module(f"pybrops.model.gmod.{CLSNAME[name]}")
            c = getattr(mod, CLSNAME[name])
            if name == "L" and getattr(c, "__abstractmethods__", None):
                # harness subclass: supplies ONLY the members the class leaves abstract; never called by the check
                def _stub(nm):
                    def f(self, *a, **k):
                        raise NotImplementedError(f"{nm} is abstract on DenseLinearGenomicModel (harness stub)")
                    return f
                _cache["L_abstract"] = frozenset(c.__abstractmethods__)
                c = type("ConcreteDenseLinearGenomicModel", (c,), {nm: _stub(nm) for nm in sorted(c.__abstractmethods__)})
            _cache[name] = c
        else:
            m, _, a = mods[name].partition(":")
            mod = importlib.import_module(m)
            _cache[name] = getattr(mod, a) if a else mod
    return _cache[name]


def owner(code, meth):
    """Name of the library class that defines `meth` for model class `code` (signatures name the defining class)."""
    key = ("owner", code, meth)
    if key not in _cache:
        c = lib(code)
        o = next((k.__name__ for k in c.__mro__ if meth in k.__dict__ and k.__module__.startswith("pybrops")), CLSNAME[code])
        _cache[key] = o
    return _cache[key]


# ----------------------------------------------------------------------------
# enumeration
def effect_specs(code, m, t, dmode):
    """List of (ua, ud) with ua/ud = tuple over markers of tuple over traits of alphabet indices."""
    out = []
    for v in itertools.product(range(4), repeat=m):
        ua = tuple((v[j],) if t == 1 else (v[j], (v[m - 1 - j] + 1) % 4) for j in range(m))
        if code != "D":
            out.append((ua, None))
            continue
        if dmode == "full":
            ws = list(itertools.product(range(4), repeat=m))
        else:   # 4-fold covering: every marker sees all 16 (a,d) letter pairs over the enumeration
            ws = [tuple(((v[m - 1 - j] if r % 2 else v[j]) + r) % 4 for j in range(m)) for r in range(4)]
        for w in ws:
            ud = tuple((w[j],) if t == 1 else (w[j], (w[m - 1 - j] + 3) % 4) for j in range(m))
            out.append((ua, ud))
    return out


def geno_count(kind, P, n, m):
    return 2 ** (P * n * m) if kind == "ph" else (P + 1) ** (n * m)


def geno_decode(kind, P, n, m, g):
    """code -> (phased nested list or None, dosage nested list)."""
    if kind == "ph":
        ph = [[[(g >> ((p * n + i) * m + j)) & 1 for j in range(m)] for i in range(n)] for p in range(P)]
        return ph, R.dosage_from_phased(ph)
    A, x = [[0] * m for _ in range(n)], g
    for i in range(n):
        for j in range(m):
            A[i][j] = x % (P + 1)
            x //= (P + 1)
    return None, A


def pairwise_covered(codes, nbits):
    """True iff every pair of cells takes all four value combinations over the set."""
    for a in range(nbits):
        for b in range(a + 1, nbits):
            seen = 0
            for g in codes:
                seen |= 1 << ((((g >> a) & 1) << 1) | ((g >> b) & 1))
                if seen == 15:
                    break
            if seen != 15:
                return False
    return True


def blocks(tier):
    """(code, kind, P, n, m, t, q, misc, gstride, dmode, esel) blocks of the model part (misc = 1: the model also
    carries one miscellaneous random effect, which only the *_numpy prediction/score methods may use).
    gstride == 1: ALL genotype matrices of that shape.  esel > 0: every esel-th effect specification for every
    genotype (1 = ALL); esel < 0: -esel effect specifications per genotype, rotating through ALL of them along the
    genotype enumeration (every effect specification is used, every genotype is used)."""
    T = tier == "thorough"
    B = []
    for code in ("A", "D", "L"):
        isD = code == "D"
        # --- complete genotype sets of the small shapes, ALL effect vectors -------------------------
        # (for the dominance class and one marker: the full (a,d) product; otherwise the 4-fold covering)
        for (n, m) in ((1, 1), (1, 2), (2, 1), (3, 1)):
            for ci, (t, q) in enumerate(((1, 2), (2, 3), (2, 1), (1, 1), (2, 2), (1, 3)) if T else ((1, 2), (2, 3), (2, 1))):
                full = t == 1 and m == 1
                B.append((code, "ph", 2, n, m, t, q, 0, 1, "full" if full else "cover", 3 if (isD and not T and ci) else 1))
        # (2,2): all 256 matrices
        if T:
            B.append((code, "ph", 2, 2, 2, 1, 2, 0, 1, "cover", 1))
            for t, q in ((1, 1), (2, 2), (2, 3), (1, 3), (2, 1)):
                B.append((code, "ph", 2, 2, 2, t, q, 0, 1, "cover", -4))
        else:
            B.append((code, "ph", 2, 2, 2, 1, 2, 0, 1, "cover", -4))
            B.append((code, "ph", 2, 2, 2, 2, 3, 0, 3, "cover", -2))
        # (3,2): 4096 matrices (thorough: all of them)
        if T:
            B.append((code, "ph", 2, 3, 2, 1, 2, 0, 1, "cover", -8 if isD else -4))
            B.append((code, "ph", 2, 3, 2, 2, 1, 0, 5, "cover", -2))
            B.append((code, "ph", 2, 3, 2, 2, 3, 0, 7, "cover", -2))
        else:
            B.append((code, "ph", 2, 3, 2, 1, 2, 0, 3, "cover", -1))
            B.append((code, "ph", 2, 3, 2, 2, 3, 0, 23, "cover", -2))
        # --- pairwise-covering sets for (3,3) and (4,2) ------------------------------------------------
        B.append((code, "ph", 2, 3, 3, 1, 1, 0, 263 if T else 1019, "cover", -4 if T else -1))
        B.append((code, "ph", 2, 4, 2, 1, 2, 0, 67 if T else 263, "cover", -2 if T else -1))
        B.append((code, "ph", 2, 4, 2, 2, 1, 0, 263 if T else 521, "cover", -2 if T else -1))
        # --- other ploidies: haploid phased, tetraploid phased and unphased ---------------------------
        B.append((code, "ph", 1, 2, 2, 1, 1, 0, 1, "cover", (3 if isD else 1) if T else -4))
        B.append((code, "ph", 1, 3, 1, 2, 2, 0, 1, "cover", 1))
        B.append((code, "ph", 4, 2, 1, 1, 2, 0, 1 if T else 3, "full", 1 if T else -2))
        B.append((code, "ph", 4, 1, 2, 2, 1, 0, 1 if T else 3, "cover", -4 if T else -2))
        B.append((code, "un", 4, 2, 2, 1, 1, 0, 1 if T else 2, "cover", -4 if T else -1))
        B.append((code, "un", 4, 3, 1, 2, 3, 0, 1, "cover", 1 if T else -2))
    # miscellaneous random effects and the rrBLUP class used as a plain model
    for (n, m) in ((2, 2), (3, 1)) + (((3, 2),) if T else ()):
        st = 1 if n * m < 6 else 3
        es = -2 if m > 1 else 1
        B.append(("A", "ph", 2, n, m, 2, 2, 1, st if T else 3, "cover", es))
        B.append(("D", "ph", 2, n, m, 1, 3, 1, st if T else 3, "cover", -2 if T or m > 1 else 3))
        B.append(("R", "ph", 2, n, m, 1, 1, 0, st if T else 3, "cover", es))
        B.append(("R", "ph", 2, n, m, 2, 2, 0, st if T else 3, "cover", es))
    return B


def effects_for(effs, esel, gi):
    """the effect specifications used with the gi-th genotype of a block (see blocks())"""
    if esel > 0:
        return effs[::esel]
    k, ne = -esel, len(effs)
    k = min(k, ne)
    return [effs[(gi * 7 + r * (ne // k)) % ne] for r in range(k)]


def fit_blocks(tier):
    """(n, p, zmode, zstride, ystride, t) blocks of the rrBLUP part; zmode 'all' | 'sorted' (Z with rows in
    non-decreasing order: one representative per multiset of records).  n <= p blocks only get the three
    unconditional clauses."""
    if tier == "thorough":
        return [(3, 1, "all", 1, 1, 1), (3, 2, "all", 1, 1, 1), (4, 1, "all", 1, 1, 1), (4, 2, "sorted", 1, 1, 1),
                (5, 1, "sorted", 1, 1, 1), (5, 2, "sorted", 1, 13, 1), (3, 2, "all", 7, 5, 2), (4, 2, "sorted", 5, 7, 2),
                (2, 2, "all", 1, 1, 1), (2, 3, "all", 1, 1, 1), (3, 3, "sorted", 7, 1, 1)]
    return [(3, 1, "all", 1, 1, 1), (3, 2, "all", 1, 11, 1), (4, 1, "all", 1, 9, 1), (4, 2, "sorted", 1, 29, 1),
            (5, 1, "sorted", 1, 7, 1), (5, 2, "sorted", 5, 61, 1), (3, 2, "all", 31, 7, 2),
            (2, 2, "all", 1, 2, 1), (2, 3, "all", 7, 2, 1), (3, 3, "sorted", 23, 5, 1)]


def z_codes(n, p, zmode):
    rows = 3 ** p
    if zmode == "all":
        return list(range(3 ** (n * p)))
    out = []
    for combo in itertools.combinations_with_replacement(range(rows), n):
        code = 0
        for i, r in enumerate(combo):
            code += r * rows ** i
        out.append(code)
    return out


def z_decode(n, p, code):
    rows = 3 ** p
    Z = []
    for i in range(n):
        r = (code // rows ** i) % rows
        Z.append([(r // 3 ** j) % 3 for j in range(p)])
    return Z


def case_weight(code, n, m):
    """rough relative cost of one configuration (method sweep + permutations + partitions)"""
    return (1.0 + 0.12 * (math.factorial(n) - 1) + 0.15 * (2 ** (m - 1) - 1)) * (1.2 if code == "D" else 1.0)


def shards(tier, seed):
    out = []
    target = 250 if tier == "quick" else 1500        # weighted cases per shard (roughly equal cost)
    for bi, blk in enumerate(blocks(tier)):
        code, kind, P, n, m, t, q, misc, gstride, dmode, esel = blk
        ng = len(range(0, geno_count(kind, P, n, m), gstride))
        ne = len(effects_for(effect_specs(code, m, t, dmode), esel, 0))
        per = max(1, int(target / (ne * case_weight(code, n, m))))
        for g0 in range(0, ng, per):
            out.append(("model", blk, g0, min(ng, g0 + per)))
    for blk in fit_blocks(tier):
        n, p, zmode, zstride, ystride, t = blk
        nz = len(range(0, len(z_codes(n, p, zmode)), zstride))
        ny = len(range(0, 3 ** n, ystride))
        per = max(1, int((260 if tier == "quick" else 1200) / (ny * t)))
        for z0 in range(0, nz, per):
            out.append(("fit", blk, z0, min(nz, z0 + per)))
    step = 52 if tier == "quick" else 100
    for P in (1, 2, 4):
        for n0 in range(1, sweep_nmax(tier) + 1, step):
            out.append(("sweep", P, n0, min(sweep_nmax(tier) + 1, n0 + step)))
    out.append(("introspect",))
    return out


# ----------------------------------------------------------------------------
def fclose(a, b):
    """core.close semantics (rel 1e-9, abs 1e-12, NaN==NaN) with a fast path for small finite arrays"""
    if a.shape != b.shape:
        return False
    if (numpy.abs(a - b) <= 1e-12 + 1e-9 * numpy.abs(b)).all():
        return True
    return close(a, b)


def fl(x):
    """nested Fractions (or 'nan') -> float64 ndarray"""
    if isinstance(x, list):
        return numpy.array([fl(v) for v in x], dtype="float64")
    return numpy.float64("nan") if x == R.NAN else numpy.float64(float(x))


def perms_for(n, tier):
    allp = [p for p in itertools.permutations(range(n)) if p != tuple(range(n))]
    if n <= 3 or tier == "thorough":
        return allp
    keep = [p for p in allp if sum(1 for i in range(n) if p[i] != i) == 2]      # all transpositions
    keep += [tuple(reversed(range(n))), tuple((i + 1) % n for i in range(n))]
    return keep


def splits_for(m):
    out = []
    for mask in range(1, 2 ** m - 1):
        S = [j for j in range(m) if (mask >> j) & 1]
        Sc = [j for j in range(m) if not (mask >> j) & 1]
        if 0 in S:          # unordered: marker 0 always in the first part
            out.append((S, Sc))
    return out


class Cfg:
    """Everything about one (model, genotype) configuration: library objects + exact reference values."""

    def __init__(self, case, reuse=None):
        self.case = case
        c = self.code = case["cls"]
        self.kind, self.P, self.n, self.m = case["kind"], case["P"], case["n"], case["m"]
        self.t, self.q, self.misc, self.seed = case["t"], case["q"], case.get("misc", 0), case["seed"]
        s = self.seed % 3
        al = EFF[s]
        self.Ua = [[al[i] for i in row] for row in case["ua"]]
        self.Ud = None if case.get("ud") is None else [[al[i] for i in row] for row in case["ud"]]
        sb = case.get("bseed", self.seed) % 3          # history layer: intercept re-assigned from another alphabet
        self.beta = [[BETA[sb][r][k] for k in range(self.t)] for r in range(self.q)]
        self.Umisc = [[MISC[s][k] for k in range(self.t)]] if self.misc else []
        self.ph, self.A = geno_decode(self.kind, self.P, self.n, self.m, case["g"])
        self.H = R.het(self.A, self.P)
        self.taxa = TAXA[s][: self.n]
        self.grp = TGRP[s][: self.n]
        self.trait = TRAIT[s][: self.t]
        self.xvar = case.get("xvar", 0)
        self.fcache, self.fkeep, self.obs = {}, [], []
        self._ref()
        if reuse is None:
            self.build()
        else:               # same library objects as an earlier configuration (history layer)
            self.mod, self.forms, self.objforms = reuse.mod, reuse.forms, reuse.objforms
            self.Zf, self.Hf, self.pf, self.snap0 = reuse.Zf, reuse.Hf, reuse.pf, None

    # -- exact reference values ------------------------------------------------
    def _ref(self):
        A, P, Ua, Ud = self.A, self.P, self.Ua, self.Ud
        self.loc = R.location(self.beta)
        self.p = R.afreq(A, P)
        self.bv0 = R.linear_values(A, Ua)                                  # no intercept
        self.bv = R.linear_values(A, Ua, self.loc)
        if self.code == "D":
            self.gv0 = R.linear_values(A, Ua, None, self.H, Ud)
            self.gv = R.linear_values(A, Ua, self.loc, self.H, Ud)
        else:
            self.gv0, self.gv = self.bv0, self.bv
        self.varA = R.popvar(self.bv0)
        self.varG = R.popvar(self.gv0)
        self.vara = R.genic_var(Ua, self.p, P)
        self.bulmer = R.ratio(self.varA, self.vara)
        self.usl0, self.lsl0 = R.selection_limits(A, Ua, P)
        self.usl1, self.lsl1 = R.selection_limits(A, Ua, P, self.loc)
        self.astats = R.allele_stats(A, Ua, P)
        n, q = self.n, self.q
        self.X = [[[Fr(1) if r == 0 else Fr(1 if i % (r + 1) == 0 else 0) for r in range(q)] for i in range(n)],
                  [[Fr(1) if r == 0 and i != 1 else XV[(i + 2 * r) % 3] for r in range(q)] for i in range(n)]]
        self.zmisc = [[Fr((i + 1) % 3)] for i in range(n)] if self.misc else None
        mz = R.linear_values([[int(v[0])] for v in self.zmisc], self.Umisc) if self.misc else None
        self.pred = []
        for X in self.X:
            v = R.add(R.fixed_part(X, self.beta), self.gv0)
            self.pred.append(R.add(v, mz) if self.misc else v)
        yv = YV[self.seed % 3]
        self.Y = [[[yv[(i + k) % 3] for k in range(self.t)] for i in range(n)]]
        self.Y.append([[self.pred[0][i][k] + (k + 1 if i == 0 else 0) for k in range(self.t)] for i in range(n)])
        self.Y.append([row[:] for row in self.pred[0]])
        self.rsq = [R.rsq(Y, self.pred[0]) for Y in self.Y]
        self.Xf = [fl(X).reshape(n, q) for X in self.X]
        self.Yf = [fl(Y).reshape(n, self.t) for Y in self.Y]

    # -- library objects ---------------------------------------------------------
    def new_model(self, Ua=None, Ud=None, beta=None, cols=None):
        Ua = self.Ua if Ua is None else Ua
        Ud = self.Ud if Ud is None else Ud
        if cols is not None:
            Ua = [Ua[j] for j in cols]
            Ud = None if Ud is None else [Ud[j] for j in cols]
        beta = self.beta if beta is None else beta
        t = self.t
        kw = dict(beta=fl(beta).reshape(len(beta), t), trait=numpy.array(self.trait, dtype=object))
        ua = fl(Ua).reshape(len(Ua), t)
        if self.code == "L":
            return lib("L")(u=ua, **kw)
        um = fl(self.Umisc).reshape(1, t) if self.misc else None
        if self.code == "D":
            return lib("D")(u_misc=um, u_a=ua, u_d=fl(Ud).reshape(len(Ud), t), **kw)
        return lib(self.code)(u_misc=um, u_a=ua, **kw)

    def new_geno(self, form, rows=None, cols=None):
        rows = list(range(self.n)) if rows is None else list(rows)
        cols = list(range(self.m)) if cols is None else list(cols)
        taxa = numpy.array([self.taxa[i] for i in rows], dtype=object)
        grp = numpy.array([self.grp[i] for i in rows], dtype="int64")
        if form == "ph":
            mat = numpy.array([[[self.ph[p][i][j] for j in cols] for i in rows] for p in range(self.P)], dtype="int8")
            return lib("PG")(mat=mat.reshape(self.P, len(rows), len(cols)), taxa=taxa, taxa_grp=grp)
        A = numpy.array([[self.A[i][j] for j in cols] for i in rows], dtype="int8").reshape(len(rows), len(cols))
        if form == "un":
            return lib("G")(mat=A, taxa=taxa, taxa_grp=grp, ploidy=self.P)
        return A.astype(("int8", "int64", "float64")[(self.case["g"] + self.n) % 3])

    def build(self):
        self.mod = self.new_model()
        self.forms = {}
        if self.kind == "ph":
            self.forms["ph"] = self.new_geno("ph")
        self.forms["un"] = self.new_geno("un")
        self.forms["nd"] = self.new_geno("nd")
        self.objforms = [f for f in ("ph", "un") if f in self.forms]
        self.Zf = numpy.array(self.A, dtype="float64").reshape(self.n, self.m)
        self.Hf = numpy.array(self.H, dtype="float64").reshape(self.n, self.m)
        self.pf = fl(self.p)
        self.snap0 = self.snapshot()

    def snapshot(self):
        mod = self.mod
        s = [mod.beta.tobytes()]
        for f in ("u_misc", "u_a", "u_d") if self.code != "L" else ("u",):
            if hasattr(mod, f):
                s.append(getattr(mod, f).tobytes())
        s.append(repr(None if mod.trait is None else mod.trait.tolist()))
        for k in ("ph", "un"):
            if k in self.forms:
                o = self.forms[k]
                s += [o.mat.tobytes(), repr(o.taxa.tolist()), repr(o.taxa_grp.tolist())]
        s.append(self.forms["nd"].tobytes())
        s += [a.tobytes() for a in self.Xf] + [a.tobytes() for a in self.Yf] + [self.Zf.tobytes(), self.pf.tobytes()]
        return s

    # design matrices the *_numpy methods expect (documented layout per class)
    def Z_full(self):
        parts = []
        if self.misc:
            parts.append(fl(self.zmisc).reshape(self.n, 1))
        parts.append(self.Zf)
        if self.code == "D":
            parts.append(self.Hf)
        return numpy.concatenate(parts, axis=1) if len(parts) > 1 else self.Zf.copy()

    def Z_gv(self):
        return numpy.concatenate([self.Zf, self.Hf], axis=1) if self.code == "D" else self.Zf.copy()

    def nd_ok_for_dominance(self):
        return self.code != "D" or self.P == 2

    def digest(self):
        c = self.case
        h = hashlib.blake2b(repr((c["cls"], c["kind"], c["P"], c["n"], c["m"], c["g"], c["t"], c["q"], c.get("misc", 0),
                                  c["ua"], c.get("ud"))).encode(), digest_size=8)
        return h.digest()


# ----------------------------------------------------------------------------
# oracles: one handler per public method name
def _sites(cfg, bad):
    """classify the failing cells of a (markers x traits) result: all at zero-effect markers, all at non-zero-effect
    markers, or both (part of the signature: the neutral-allele convention is its own root cause)"""
    kinds = set()
    for j, k in zip(*numpy.nonzero(bad)):
        kinds.add("zero-effect" if cfg.Ua[int(j)][int(k)] == 0 else "nonzero-effect")
    return "mixed-effects" if len(kinds) > 1 else "".join(kinds)


def _F(cfg, exp, shape=None):
    """cached float64 image of an exact reference value (keyed by object identity within one configuration)"""
    k = id(exp)
    v = cfg.fcache.get(k)
    if v is None:
        v = fl(exp)
        if shape is not None:
            v = v.reshape(shape)
        cfg.fcache[k] = v
        cfg.fkeep.append(exp)
    return v


def want_float(cfg, sig, got, exp, what):
    e = _F(cfg, exp)
    if isinstance(got, numpy.ndarray) and got.dtype.kind == "f" and fclose(got, e):
        return
    require(isinstance(got, numpy.ndarray), sig + ":type", lambda: f"{what}: returned {type(got).__name__}, expected ndarray")
    require(got.shape == e.shape, sig + ":shape", lambda: f"{what}: shape {got.shape}, expected {e.shape}")
    require(got.dtype.kind == "f", sig + ":dtype", lambda: f"{what}: dtype {got.dtype}, expected floating")
    require(False, sig + ":value", lambda: f"{what}: got {got.tolist()} expected {e.tolist()} (exact {[str(v) for v in exp]}; "
            f"dosages {cfg.A} ploidy {cfg.P} a={_s(cfg.Ua)} d={_s(cfg.Ud)} beta={_s(cfg.beta)})")


def _s(M):
    return None if M is None else [[str(x) for x in r] for r in M]


_KIND = {"i": "int64", "b": "bool"}


def want_sites(cfg, sig, got, exp, kind, what):
    """per-marker (m x t) results: exact for ints / bools, tolerance for frequencies"""
    k = id(exp)
    e = cfg.fcache.get(k)
    if e is None:
        e = (fl(exp) if kind == "f" else numpy.array(exp, dtype=_KIND[kind])).reshape(cfg.m, cfg.t)
        cfg.fcache[k] = e
        cfg.fkeep.append(exp)
    if isinstance(got, numpy.ndarray) and got.shape == e.shape and (got.dtype.kind == kind or (kind == "i" and got.dtype.kind == "u")):
        if kind == "f":
            if fclose(got, e):
                return
        elif (got == e).all():
            if kind == "i" and len(cfg.obs) < 8:
                cfg.obs.append(got.tobytes())
            return
    require(isinstance(got, numpy.ndarray), sig + ":type", lambda: f"{what}: returned {type(got).__name__}")
    require(got.shape == e.shape, sig + ":shape", lambda: f"{what}: shape {got.shape}, expected {e.shape}")
    require(got.dtype.kind == kind or (kind == "i" and got.dtype.kind == "u"), sig + ":dtype",
            lambda: f"{what}: dtype {got.dtype}, expected kind {kind}")
    bad = ~numpy.isclose(got, e, rtol=1e-9, atol=1e-12) if kind == "f" else (got != e)
    raise Violation(sig + ":value@" + _sites(cfg, bad),
                    f"{what}: got {got.tolist()} expected {e.tolist()} with effects {_s(cfg.Ua)} "
                    f"dosages {cfg.A} ploidy {cfg.P}")


def want_bvmat(cfg, sig, out, exp, form, what, rows=None):
    require(isinstance(out, lib("GEBV")), sig + ":type",
            lambda: f"{what}: returned {type(out).__name__}, expected DenseGenomicEstimatedBreedingValueMatrix")
    vals = out.unscale()
    e = _F(cfg, exp, (cfg.n, cfg.t))
    if rows is not None:
        e = e[list(rows)]
    else:
        rows = range(cfg.n)
    require(vals.shape == e.shape, sig + ":shape", lambda: f"{what}: shape {vals.shape} expected {e.shape}")
    require(fclose(vals, e), sig + ":value", lambda: f"{what}: taxon values {vals.tolist()} expected {e.tolist()} "
            f"(dosages {cfg.A}, ploidy {cfg.P}, a={_s(cfg.Ua)}, d={_s(cfg.Ud)}, intercept {[str(x) for x in cfg.loc]})")
    back = out.location + out.scale * out.mat
    require(fclose(back, e), sig + ":scaled-inconsistent",
            lambda: f"{what}: location + scale*mat = {back.tolist()} expected {e.tolist()}")
    if form != "nd" and len(cfg.obs) < 8:
        cfg.obs.append((numpy.round(vals, 9) + 0.0).tobytes())
    if form == "nd":
        require(out.taxa is None and out.taxa_grp is None, sig + ":labels",
                lambda: f"{what}: ndarray input has no labels but output carries taxa={out.taxa} taxa_grp={out.taxa_grp}")
    else:
        et = [cfg.taxa[i] for i in rows]
        eg = [cfg.grp[i] for i in rows]
        require(out.taxa is not None and out.taxa.tolist() == et, sig + ":labels",
                lambda: f"{what}: output taxa {None if out.taxa is None else out.taxa.tolist()} expected {et} (input order)")
        require(out.taxa_grp is not None and out.taxa_grp.tolist() == eg, sig + ":labels",
                lambda: f"{what}: output taxa_grp {None if out.taxa_grp is None else out.taxa_grp.tolist()} expected {eg}")
    require(out.trait is not None and out.trait.tolist() == cfg.trait, sig + ":trait-labels",
            lambda: f"{what}: output trait {None if out.trait is None else out.trait.tolist()} expected {cfg.trait}")


def h_gebv_numpy(cfg, sig, call):
    want_float(cfg, sig, call(lambda: cfg.mod.gebv_numpy(cfg.Zf.copy())), cfg.bv0, "gebv_numpy(dosage)")
    want_float(cfg, sig, call(lambda: cfg.mod.gebv_numpy(cfg.forms["nd"].copy())), cfg.bv0, "gebv_numpy(raw dosage dtype)")


def h_gebv(cfg, sig, call):
    for f, g in cfg.forms.items():
        want_bvmat(cfg, sig, call(lambda: cfg.mod.gebv(g)), cfg.bv, f, f"gebv({f})")


def h_gegv_numpy(cfg, sig, call):
    want_float(cfg, sig, call(lambda: cfg.mod.gegv_numpy(cfg.Z_gv())), cfg.gv0, "gegv_numpy([A|D])")


def h_gegv(cfg, sig, call):
    for f, g in cfg.forms.items():
        if f == "nd" and not cfg.nd_ok_for_dominance():
            continue
        want_bvmat(cfg, sig, call(lambda: cfg.mod.gegv(g)), cfg.gv, f, f"gegv({f})")
    if cfg.code == "D" and cfg.xvar == 0:
        # documented default: u_d = None means "no dominance effects" -> genotypic value == breeding value
        m0 = lib("D")(beta=cfg.mod.beta.copy(), u_misc=None, u_a=cfg.mod.u_a.copy(), u_d=None, trait=cfg.mod.trait)
        f = cfg.objforms[0]
        want_bvmat(cfg, sig + ":default-u_d", call(lambda: m0.gegv(cfg.forms[f])), cfg.bv, f, f"gegv({f}) with u_d=None")


def h_predict_numpy(cfg, sig, call):
    for xi in range(len(cfg.X)):
        want_float(cfg, sig, call(lambda: cfg.mod.predict_numpy(cfg.Xf[xi], cfg.Z_full())), cfg.pred[xi], f"predict_numpy(X{xi},Z)")


def h_predict(cfg, sig, call):
    if cfg.misc:
        return      # Z built from a genotype object has no miscellaneous columns: not a valid call
    xi = cfg.xvar
    for f, g in cfg.forms.items():
        if f == "nd" and not cfg.nd_ok_for_dominance():
            continue
        want_bvmat(cfg, sig, call(lambda: cfg.mod.predict(cfg.Xf[xi], g)), cfg.pred[xi], f, f"predict(X{xi},{f})")


def h_score_numpy(cfg, sig, call):
    Xf = cfg.Xf[0]
    for yi, e in enumerate(cfg.rsq):
        if e is None:
            cfg.skipped += 1
            continue
        Yf = cfg.Yf[yi]
        want_float(cfg, sig, call(lambda: cfg.mod.score_numpy(Yf.copy(), Xf, cfg.Z_full())), e, f"score_numpy(Y{yi})")
        cfg.rsq_seen.add(yi)


def h_score(cfg, sig, call):
    if cfg.misc:
        return
    Xf = cfg.Xf[0]
    for yi, e in enumerate(cfg.rsq):
        if e is None:
            cfg.skipped += 1
            continue
        Yf = cfg.Yf[yi]
        pts = [("ndarray", Yf.copy())]
        if yi == (cfg.case["g"] % 3):
            pts.append(("bvmat", lib("BV").from_numpy(Yf.copy(), taxa=numpy.array(cfg.taxa, dtype=object),
                                                      taxa_grp=numpy.array(cfg.grp, dtype="int64"),
                                                      trait=numpy.array(cfg.trait, dtype=object))))
        for pn, pt in pts:
            for f, g in cfg.forms.items():
                if f == "nd" and not cfg.nd_ok_for_dominance():
                    continue
                want_float(cfg, sig, call(lambda: cfg.mod.score(pt, Xf, g)), e, f"score({pn} Y{yi},X0,{f})")


def h_var_G_numpy(cfg, sig, call):
    want_float(cfg, sig, call(lambda: cfg.mod.var_G_numpy(cfg.Z_gv())), cfg.varG, "var_G_numpy")


def h_var_G(cfg, sig, call):
    for f, g in cfg.forms.items():
        if f == "nd" and not cfg.nd_ok_for_dominance():
            continue
        want_float(cfg, sig, call(lambda: cfg.mod.var_G(g)), cfg.varG, f"var_G({f})")


def h_var_A_numpy(cfg, sig, call):
    want_float(cfg, sig, call(lambda: cfg.mod.var_A_numpy(cfg.Zf.copy())), cfg.varA, "var_A_numpy")


def h_var_A(cfg, sig, call):
    for f, g in cfg.forms.items():
        want_float(cfg, sig, call(lambda: cfg.mod.var_A(g)), cfg.varA, f"var_A({f})")


def h_var_a_numpy(cfg, sig, call):
    want_float(cfg, sig, call(lambda: cfg.mod.var_a_numpy(cfg.pf.copy(), cfg.P)), cfg.vara, "var_a_numpy(p,ploidy)")


def _with_ploidy(cfg, fn, what, sig, exp, call, **kw):
    for f, g in cfg.forms.items():
        if f != "nd":
            want_float(cfg, sig, call(lambda: fn(g, **kw)), exp, f"{what}({f})")
        else:
            want_float(cfg, sig, call(lambda: fn(g, ploidy=cfg.P, **kw)), exp, f"{what}(nd, ploidy={cfg.P})")
            if cfg.P == 2:
                want_float(cfg, sig, call(lambda: fn(g, **kw)), exp, f"{what}(nd, default ploidy)")


def h_var_a(cfg, sig, call):
    _with_ploidy(cfg, cfg.mod.var_a, "var_a", sig, cfg.vara, call)


def h_bulmer_numpy(cfg, sig, call):
    want_float(cfg, sig, call(lambda: cfg.mod.bulmer_numpy(cfg.Zf.copy(), cfg.pf.copy(), cfg.P)), cfg.bulmer, "bulmer_numpy")


def h_bulmer(cfg, sig, call):
    _with_ploidy(cfg, cfg.mod.bulmer, "bulmer", sig, cfg.bulmer, call)


def _limit(cfg, sig, call, name, e0, e1):
    fn = getattr(cfg.mod, name)
    fnn = getattr(cfg.mod, name + "_numpy")
    if cfg.code == "L":      # no `unscale` argument on this class
        want_float(cfg, sig + "_numpy", call(lambda: fnn(cfg.pf.copy(), cfg.P)), e0, f"{name}_numpy")
        _with_ploidy(cfg, fn, name, sig, e0, call)
        return
    want_float(cfg, sig + "_numpy", call(lambda: fnn(cfg.pf.copy(), cfg.P)), e0, f"{name}_numpy")
    want_float(cfg, sig + "_numpy", call(lambda: fnn(cfg.pf.copy(), cfg.P, True)), e1, f"{name}_numpy(unscale)")
    _with_ploidy(cfg, fn, name, sig, e0, call)
    _with_ploidy(cfg, fn, name + "[unscale]", sig, e1, call, unscale=True)


def h_usl(cfg, sig, call):
    _limit(cfg, sig, call, "usl", cfg.usl0, cfg.usl1)


def h_lsl(cfg, sig, call):
    _limit(cfg, sig, call, "lsl", cfg.lsl0, cfg.lsl1)


def _astat(name, kind):
    def h(cfg, sig, call):
        for f in cfg.objforms:
            g = cfg.forms[f]
            want_sites(cfg, sig, call(lambda: getattr(cfg.mod, name)(g)), cfg.astats[name], kind, f"{name}({f})")
    return h


def h_tbv(cfg, sig, call):
    prot = lib("TBV")(gpmod=cfg.mod)
    for f, g in cfg.forms.items():
        want_bvmat(cfg, sig, call(lambda: prot.estimate(None, g)), cfg.bv, f, f"TrueBreedingValue.estimate({f})")


TABLE = {
    "gebv_numpy": h_gebv_numpy, "gebv": h_gebv, "gegv_numpy": h_gegv_numpy, "gegv": h_gegv,
    "predict_numpy": h_predict_numpy, "predict": h_predict, "score_numpy": h_score_numpy, "score": h_score,
    "var_G_numpy": h_var_G_numpy, "var_G": h_var_G, "var_A_numpy": h_var_A_numpy, "var_A": h_var_A,
    "var_a_numpy": h_var_a_numpy, "var_a": h_var_a, "bulmer_numpy": h_bulmer_numpy, "bulmer": h_bulmer,
    "usl": h_usl, "lsl": h_lsl,
    "facount": _astat("facount", "i"), "fafreq": _astat("fafreq", "f"), "faavail": _astat("faavail", "b"),
    "fafixed": _astat("fafixed", "b"), "fapoly": _astat("fapoly", "b"),
    "dacount": _astat("dacount", "i"), "dafreq": _astat("dafreq", "f"), "daavail": _astat("daavail", "b"),
    "dafixed": _astat("dafixed", "b"), "dapoly": _astat("dapoly", "b"),
    "nafixed": _astat("nafixed", "b"), "napoly": _astat("napoly", "b"),
}
ALSO_COVERS = {"usl": ("usl_numpy",), "lsl": ("lsl_numpy",)}     # handler exercises these names too
EXCLUDED = {
    "copy": "object copying is property C16", "deepcopy": "object copying is property C16",
    "to_hdf5": "persistence is property C16", "from_hdf5": "persistence is property C16",
    "to_pandas_dict": "persistence is property C16", "from_pandas_dict": "persistence is property C16",
    "to_csv_dict": "persistence is property C16", "from_csv_dict": "persistence is property C16",
    "fit": "documented as unsupported on the fixed-effect classes (raises AttributeError); rrBLUPModel0.fit is "
           "covered by the training-set part",
    "fit_numpy": "documented as unsupported on the fixed-effect classes; rrBLUPModel0.fit_numpy is covered by the "
                 "training-set part",
}


def method_sets(code):
    """(covered, abstract, excluded, uncovered) public callables of a model class."""
    c = lib(code)
    abstract = _cache.get("L_abstract", frozenset()) if code == "L" else frozenset(getattr(c, "__abstractmethods__", ()))
    covered_names = set(TABLE)
    for k, v in ALSO_COVERS.items():
        covered_names |= set(v)
    pub = sorted(n for n in dir(c) if not n.startswith("_") and callable(getattr(c, n, None)))
    cov = [n for n in pub if n in covered_names and n not in abstract]
    ab = [n for n in pub if n in abstract]
    ex = [n for n in pub if n in EXCLUDED and n not in abstract and n not in covered_names]
    un = [n for n in pub if n not in covered_names and n not in EXCLUDED and n not in abstract]
    return cov, ab, ex, un


# ----------------------------------------------------------------------------
def run_case(ctx, case, tier=None):
    tier = tier or ctx.tier
    code = case["cls"]
    short = code
    try:
        cfg = Cfg(case)
    except Exception as e:      # constructing valid library objects failed
        ctx.guard(lambda: (_ for _ in ()).throw(e), case=case, sig_prefix=f"{CLSNAME[code]}:construct:")
        return
    cfg.skipped = 0
    cfg.rsq_seen = set()
    ctx.evaluations += 1
    ctx.state(cfg.digest())
    ok_all = True
    cov, ab, ex, un = method_sets(code)

    def mk_call(name):
        def call(fn):
            ctx.transitions += 1
            ctx.counters[key] = ctx.counters.get(key, 0) + 1
            return fn()
        key = f"calls:{short}.{name}"
        return call

    for name in cov:
        h = TABLE.get(name)
        if h is None:
            continue        # covered through another handler (ALSO_COVERS)
        sig = f"{owner(code, name)}.{name}"
        ok = ctx.guard(lambda: h(cfg, sig, mk_call(name)), case=case, sig_prefix=sig + ":")
        ok_all = ok_all and ok
    # the protocol wrapper and the matrix class of the outputs
    ok = ctx.guard(lambda: h_tbv(cfg, "TrueBreedingValue.estimate", mk_call("TrueBreedingValue.estimate")),
                   case=case, sig_prefix="TrueBreedingValue.estimate:")
    ok_all = ok_all and ok

    # ---- metamorphic layer 1: every taxon permutation ------------------------
    base = "ph" if cfg.kind == "ph" else "un"
    pmeths = [m_ for m_ in ("gebv", "gegv") if m_ in cov]
    for pi in (perms_for(cfg.n, tier) if case.get("perm", True) else ()):
        gp = cfg.new_geno(base, rows=pi)
        for name in pmeths:
            sig = f"{owner(code, name)}.{name}"
            exp = cfg.bv if name == "gebv" else cfg.gv
            call = mk_call(name)
            ok = ctx.guard(lambda: want_bvmat(cfg, sig + ":perm", call(lambda: getattr(cfg.mod, name)(gp)), exp, base,
                                              f"{name}(taxa permuted {list(pi)})", rows=list(pi)),
                           case=case, sig_prefix=sig + ":perm:")
            ok_all = ok_all and ok
        for name, exp, kind in (("var_A", cfg.varA, "f"), ("facount", cfg.astats["facount"], "i")):
            if name not in cov:
                continue
            sig = f"{owner(code, name)}.{name}"
            call = mk_call(name)
            if kind == "f":
                ok = ctx.guard(lambda: want_float(cfg, sig + ":perm", call(lambda: getattr(cfg.mod, name)(gp)), exp,
                                                  f"{name}(taxa permuted {list(pi)})"), case=case, sig_prefix=sig + ":perm:")
            else:
                ok = ctx.guard(lambda: want_sites(cfg, sig + ":perm", call(lambda: getattr(cfg.mod, name)(gp)), exp, kind,
                                                  f"{name}(taxa permuted {list(pi)})"), case=case, sig_prefix=sig + ":perm:")
            ok_all = ok_all and ok
        ctx.count("perm-instances")

    # ---- metamorphic layer 2: every 2-way marker partition -------------------
    zero_beta = [[Fr(0)] * cfg.t for _ in range(cfg.q)]
    for S, Sc in splits_for(cfg.m):
        def part():
            m1 = cfg.new_model(cols=S)
            m2 = cfg.new_model(cols=Sc, beta=zero_beta)
            g1, g2 = cfg.new_geno(base, cols=S), cfg.new_geno(base, cols=Sc)
            for name in pmeths:
                sig = f"{owner(code, name)}.{name}:partition"
                call = mk_call(name)
                whole = call(lambda: getattr(cfg.mod, name)(cfg.forms[base])).unscale()
                a = call(lambda: getattr(m1, name)(g1))
                b = call(lambda: getattr(m2, name)(g2))
                require(close(a.unscale() + b.unscale(), whole), sig,
                        lambda: f"{name} over markers {S} (with intercept) + markers {Sc} (zero intercept) = "
                                f"{(a.unscale() + b.unscale()).tolist()} but {name} over all markers = {whole.tolist()}")
                require(a.taxa.tolist() == cfg.taxa and b.taxa.tolist() == cfg.taxa, sig + "-labels",
                        f"partial {name} outputs carry taxa {a.taxa.tolist()} / {b.taxa.tolist()} expected {cfg.taxa}")
            sig = f"{owner(code, 'gebv_numpy')}.gebv_numpy:partition"
            call = mk_call("gebv_numpy")
            s = call(lambda: m1.gebv_numpy(cfg.Zf[:, S].copy())) + call(lambda: m2.gebv_numpy(cfg.Zf[:, Sc].copy()))
            w = call(lambda: cfg.mod.gebv_numpy(cfg.Zf.copy()))
            require(close(s, w), sig, lambda: f"gebv_numpy parts {S}+{Sc} sum to {s.tolist()} but whole = {w.tolist()}")
        ok = ctx.guard(part, case=case, sig_prefix=f"{CLSNAME[code]}:partition:")
        ok_all = ok_all and ok
        ctx.count("partition-instances")

    # ---- inputs must be untouched --------------------------------------------
    if cfg.snapshot() != cfg.snap0:
        ok_all = False
        _attribute_mutation(ctx, case, cov)

    # ---- history layer: coefficients re-assigned on the same model object ------
    if case.get("hist", False):
        ok_all = run_history(ctx, cfg, case, cov, mk_call) and ok_all

    # ---- bookkeeping ---------------------------------------------------------
    if ok_all:
        ctx.traces += 1
    nontriv = any(v > 0 for v in cfg.varA) or (cfg.Ud is not None and any(
        cfg.H[i][j] and cfg.Ud[j][k] != 0 for i in range(cfg.n) for j in range(cfg.m) for k in range(cfg.t)))
    if nontriv:
        ctx.nontriv(cfg.digest())
    # observed outcome of the configuration: the per-taxon values and allele counts the library returned
    ctx.outcome(hashlib.blake2b(b"|".join(cfg.obs), digest_size=8).digest())
    ctx.count(f"cases:{short}")
    if cfg.skipped:
        ctx.count("skipped-invalid:score-with-constant-response", cfg.skipped)
    for yi in cfg.rsq_seen:
        ctx.flag(f"rsq-response-variant-{yi}")
    # coverage flags for the vacuity guards
    ctx.flag(f"ploidy-{cfg.P}")
    ctx.flag(f"q-{cfg.q}")
    ctx.flag(f"t-{cfg.t}")
    ctx.flag(f"kind-{cfg.kind}")
    if cfg.misc:
        ctx.flag("misc-random-effects")
    flat = [u for row in cfg.Ua for u in row]
    for nm, pr in (("eff-neg", lambda u: u < 0), ("eff-zero", lambda u: u == 0), ("eff-pos", lambda u: u > 0)):
        if any(pr(u) for u in flat):
            ctx.flag(nm)
    if any(v == R.NAN for v in cfg.bulmer):
        ctx.flag("bulmer-undefined")
    if any(v != R.NAN and v > 0 for v in cfg.bulmer):
        ctx.flag("bulmer-positive")
    if any(h for row in cfg.H for h in row):
        ctx.flag("heterozygous-locus")
    if any(pj == 1 for pj in cfg.p):
        ctx.flag("fixed-locus")
    if any(pj == 0 for pj in cfg.p):
        ctx.flag("lost-locus")
    if ctx.evaluations % 997 == 1:
        ctx.sample(dict(case, dosage=cfg.A, gebv=[[str(v) for v in r] for r in cfg.bv],
                        gegv=[[str(v) for v in r] for r in cfg.gv], var_A=[str(v) for v in cfg.varA],
                        facount=cfg.astats["facount"]))


HIST_METHODS = ("gebv", "gegv_numpy", "gegv", "predict_numpy", "var_G", "var_A", "bulmer", "facount")


def run_history(ctx, cfg, case, cov, mk_call):
    """Histories of length 1-2 on ONE model object: coefficients re-assigned through the public setters (and edited in
    place); afterwards the model must behave exactly like a freshly built model with those coefficients."""
    code = cfg.code
    ufield = "u" if code == "L" else "u_a"
    shift = lambda M, d: [[(i + d) % 4 for i in row] for row in M]
    c1 = dict(case, ua=shift(case["ua"], 1))
    steps = [("after-%s-setter" % ufield, c1, lambda mod, c: setattr(mod, ufield, fl(c.Ua).reshape(c.m, c.t)))]
    pick = (case["g"] + sum(sum(r) for r in case["ua"])) % 3
    if pick == 0 and code == "D":
        c2 = dict(c1, ud=shift(case["ud"], 2))
        steps.append(("after-u_d-setter", c2, lambda mod, c: setattr(mod, "u_d", fl(c.Ud).reshape(c.m, c.t))))
    elif pick <= 1:
        c2 = dict(c1, bseed=case["seed"] + 1)
        steps.append(("after-beta-setter", c2, lambda mod, c: setattr(mod, "beta", fl(c.beta).reshape(c.q, c.t))))
    else:
        c2 = dict(c1, ua=shift(case["ua"], 3))

        def edit(mod, c):
            getattr(mod, ufield)[...] = fl(c.Ua).reshape(c.m, c.t)
        steps.append(("after-inplace-edit", c2, edit))
    prev, ok_all = cfg, True
    for label, ck, op in steps:
        cur = Cfg(ck, reuse=prev)
        cur.skipped, cur.rsq_seen = 0, set()
        try:
            op(cur.mod, cur)
        except Exception as e:
            ctx.violation(f"{CLSNAME[code]}:{label}:exception:{type(e).__name__}", f"{label}: {e}", case)
            return False
        for name in HIST_METHODS:
            if name not in cov or name not in TABLE:
                continue
            sig = f"{owner(code, name)}.{name}:{label}"
            ok = ctx.guard(lambda: TABLE[name](cur, sig, mk_call(name)), case=case, sig_prefix=sig + ":")
            ok_all = ok_all and ok
        ctx.count("history-steps:" + label)
        prev = cur
    return ok_all


def _attribute_mutation(ctx, case, cov):
    """An input changed during the case: re-run method by method on fresh objects to name the culprit."""
    code = case["cls"]
    for name in cov:
        h = TABLE.get(name)
        if h is None:
            continue
        cfg = Cfg(case)
        cfg.skipped, cfg.rsq_seen = 0, set()
        try:
            h(cfg, "x", lambda fn: fn())
        except Exception:
            pass
        if cfg.snapshot() != cfg.snap0:
            ctx.violation(f"{owner(code, name)}.{name}:input-mutated",
                          f"{name} changed one of its inputs (model coefficients, genotype matrix or labels)", case)
            return
    ctx.violation(f"{CLSNAME[code]}:input-mutated", "an input object changed during the method sweep", case)


# ----------------------------------------------------------------------------
# population-size sweep of the allele statistics (exactness at the boundaries 0 and 1 for EVERY n)
SWEEP_METHODS = (("facount", "i"), ("fafreq", "f"), ("faavail", "b"), ("fafixed", "b"), ("fapoly", "b"),
                 ("dacount", "i"), ("dafreq", "f"), ("daavail", "b"), ("dafixed", "b"), ("dapoly", "b"),
                 ("nafixed", "b"), ("napoly", "b"))
SWEEP_TRAITS = ["s0", "s1", "s2"]


def sweep_nmax(tier):
    return 2100 if tier == "thorough" else 260


def sweep_dosage(P, n):
    """n x 4 dosage matrix: locus 0 fixed for allele 1, locus 1 fixed for allele 0, locus 2 one copy short of fixation,
    locus 3 half of the copies (floor)."""
    half = (P * n) // 2
    A = []
    for i in range(n):
        A.append([P, 0, P - 1 if i == 0 else P, min(P, max(0, half - P * i))])
    return A


def run_sweep(ctx, case):
    code, P, n, s = case["cls"], case["P"], case["n"], case["seed"] % 3
    al = EFF[s]
    U = [[al[3], al[0], al[1]] for _ in range(4)]       # every locus: favourable in trait 0, deleterious in 1, neutral in 2
    A = sweep_dosage(P, n)
    exp = R.allele_stats(A, U, P)                       # integer counting, exact fractions
    Uf = fl(U).reshape(4, 3)
    kw = dict(beta=numpy.zeros((1, 3)), trait=numpy.array(SWEEP_TRAITS, dtype=object))
    if code == "L":
        mod = lib("L")(u=Uf, **kw)
    elif code == "D":
        mod = lib("D")(u_misc=None, u_a=Uf, u_d=None, **kw)
    else:
        mod = lib(code)(u_misc=None, u_a=Uf, **kw)
    An = numpy.array(A, dtype="int8").reshape(n, 4)
    ph = numpy.zeros((P, n, 4), dtype="int8")
    for p in range(P):
        ph[p] = (An > p)
    forms = {"ph": lib("PG")(mat=ph), "un": lib("G")(mat=An.copy(), ploidy=P)}
    cov = method_sets(code)[0]
    ctx.evaluations += 1
    ctx.state(hashlib.blake2b(repr(("sweep", code, P, n)).encode(), digest_size=8).digest())
    ok_all, obs = True, []
    for name, kind in SWEEP_METHODS:
        if name not in cov:
            continue
        sig = f"{owner(code, name)}.{name}:size-sweep"
        E = exp[name]

        def one():
            for f, g in forms.items():
                ctx.transitions += 1
                ctx.counters[ck] = ctx.counters.get(ck, 0) + 1
                got = getattr(mod, name)(g)
                what = f"{name}({f}) n={n} ploidy={P} loci [fixed-1, fixed-0, one-short, half] x effects [pos, neg, 0]"
                require(isinstance(got, numpy.ndarray) and got.shape == (4, 3), sig + ":shape",
                        lambda: f"{what}: returned {type(got).__name__} shape {getattr(got, 'shape', None)}")
                require(got.dtype.kind == kind or (kind == "i" and got.dtype.kind == "u"), sig + ":dtype",
                        lambda: f"{what}: dtype {got.dtype}")
                if kind != "f":
                    e = numpy.array(E, dtype=_KIND[kind])
                    require(bool((got == e).all()), sig + ":value", lambda: f"{what}: got {got.tolist()} expected {e.tolist()}")
                else:
                    for j in range(4):
                        for k in range(3):
                            v, x = float(got[j, k]), E[j][k]
                            if x == 0 or x == 1:
                                # the property's flags are defined on exact boundaries: a fixed / absent allele has
                                # frequency exactly 1 / 0 for every population size
                                require(v == float(x), sig + ":inexact-boundary",
                                        lambda: f"{what}: frequency {v!r} at locus {j} trait {k} but the exact value is {x} "
                                                f"(count {exp[name[:2] + 'count'][j][k]} of {P * n})")
                            else:
                                require(0.0 < v < 1.0 and abs(v - float(x)) <= 1e-12 + 1e-9 * float(x), sig + ":value",
                                        lambda: f"{what}: frequency {v!r} at locus {j} trait {k}, exact value {x}")
                if f == "ph":
                    obs.append(got.tobytes())
        ck = f"calls:{code}.{name}"
        ok = ctx.guard(one, case=case, sig_prefix=sig + ":")
        ok_all = ok_all and ok
    if ok_all:
        ctx.traces += 1
    ctx.outcome(hashlib.blake2b(b"|".join(obs), digest_size=8).digest())
    ctx.nontriv(hashlib.blake2b(repr(("sweep", code, P, n)).encode(), digest_size=8).digest())
    ctx.count(f"sweep-cases:{code}")
    if P * n in (49, 98, 103, 107, 196):
        ctx.flag(f"sweep-copies-{P * n}")
    if n == sweep_nmax(ctx.tier):
        ctx.flag("sweep-nmax")


# ----------------------------------------------------------------------------
# rrBLUP part
class _Capture:
    """Wrap the module-level rrBLUP_ML0 so that the variance components it reports for a fit are observable."""

    def __init__(self):
        self.mod = lib("RRMOD")
        self.orig = self.mod.rrBLUP_ML0
        self.outs = []

    def __enter__(self):
        def wrapped(*a, **k):
            o = self.orig(*a, **k)
            self.outs.append(o)
            return o
        self.mod.rrBLUP_ML0 = wrapped
        return self

    def __exit__(self, *exc):
        self.mod.rrBLUP_ML0 = self.orig
        return False


def fit_oracle(ctx, model, outs, Y, Z, sigp, what):
    """The four clauses of the property for one fitted model; Y: n x t nested floats, Z: n x p ints."""
    n, p, t = len(Z), len(Z[0]), len(Y[0])
    cls = lib("R")
    require(isinstance(model, cls), sigp + "type", f"{what}: returned {type(model).__name__}")
    require(model.beta.shape == (1, t) and model.u_a.shape == (p, t), sigp + "shape",
            f"{what}: beta {model.beta.shape} u_a {model.u_a.shape}, expected (1,{t}) and ({p},{t})")
    require(bool(numpy.all(numpy.isfinite(model.beta)) and numpy.all(numpy.isfinite(model.u_a))), sigp + "non-finite",
            lambda: f"{what}: non-finite coefficients beta={model.beta.tolist()} u_a={model.u_a.tolist()}")
    poly = R.polymorphic(Z)
    cols = [j for j in range(p) if poly[j]]
    Zp = [[Z[i][j] for j in cols] for i in range(n)]
    for k in range(t):
        y = [Y[i][k] for i in range(n)]
        mean = sum(y) / n
        b = float(model.beta[0, k])
        u = [float(model.u_a[j, k]) for j in range(p)]
        require(abs(b - mean) <= 1e-8 * max(1.0, abs(mean)), sigp + "intercept",
                f"{what}: intercept {b!r} but training mean is {mean!r} (y={y})")
        for j in range(p):
            if not poly[j]:
                require(u[j] == 0.0, sigp + "monomorphic-effect",
                        f"{what}: marker {j} is monomorphic in Z={Z} but its effect is {u[j]!r}")
        if len(outs) == t:
            lam = float(outs[k]["varE"]) / float(outs[k]["varU"])
            uh = [float(v) for v in outs[k]["uhat"]]
            require(uh == [u[j] for j in cols], sigp + "effects-differ-from-solver",
                    f"{what}: u_a on polymorphic markers {[u[j] for j in cols]} differs from rrBLUP_ML0's uhat {uh}")
        else:
            lam = None
        require(lam is not None and R.isfinite(lam) and lam > 0, sigp + "variance-ratio",
                f"{what}: reported variance ratio varE/varU = {lam!r}")
        up = [u[j] for j in cols]
        q1 = R.ridge_criterion(y, Zp, b, up, lam)
        q0 = R.ridge_criterion(y, Zp, b, [0.0] * len(cols), lam)
        require(q1 <= q0 + 1e-12 * max(1.0, q0), sigp + "worse-than-zero",
                f"{what}: penalised criterion {q1!r} at the solution exceeds {q0!r} at u=0 (lambda={lam!r}, Z={Z}, y={y}, u={u})")
        if n > len(cols):
            # the property's condition is "more training records than polymorphic markers"; failures are
            # classified by whether the polymorphic columns are linearly independent (Z'Z non-singular) or not
            full = R.column_rank(Zp) == len(cols)
            if full or NORMAL_EQ_ON_COLLINEAR:
                res, scale = R.normal_eq_residual(y, Zp, b, up, lam)
                ctx.count("fit:normal-equation-clause-checked" + ("" if full else ":collinear-markers"))
                require(res <= 1e-6 * scale, sigp + "normal-equations" + ("" if full else "@collinear-markers"),
                        f"{what}: |Z'(y-b) - (Z'Z + lambda I)u|_inf = {res!r} > 1e-6*{scale!r} (lambda={lam!r}, Z={Z}, y={y}, u={u}"
                        + ("" if full else "; polymorphic marker columns are linearly dependent") + ")")
            else:
                ctx.count("fit:normal-equation-clause-not-applicable")
        else:
            ctx.count("fit:normal-equation-clause-not-applicable")


def run_fit(ctx, case):
    n, p, t, s = case["n"], case["p"], case["t"], case["seed"] % 3
    Z = z_decode(n, p, case["z"])
    yv = YV[s]
    ycodes = [case["y"]] + ([case["y2"]] if t == 2 else [])
    Y = [[float(yv[(yc // 3 ** i) % 3]) for yc in ycodes] for i in range(n)]
    poly = R.polymorphic(Z)
    if not any(poly):
        ctx.count("skipped-invalid:fit-without-polymorphic-marker")
        return
    ctx.evaluations += 1
    ctx.state(hashlib.blake2b(repr(("fit", n, p, case["z"], tuple(ycodes))).encode(), digest_size=8).digest())
    Zf = numpy.array(Z, dtype=("float64", "int8", "int64")[case["z"] % 3]).reshape(n, p)
    Yf = numpy.array(Y, dtype="float64").reshape(n, t)
    res = {}

    def go():
        with _Capture() as cap:
            ctx.transitions += 1
            model = lib("R").fit_numpy(Yf.copy(), None, Zf.copy())
        res["m"] = model
        fit_oracle(ctx, model, cap.outs, Y, Z, "rrBLUPModel0.fit_numpy:", "fit_numpy")
        require(numpy.array_equal(Zf, numpy.array(Z).reshape(n, p)) and numpy.array_equal(Yf, numpy.array(Y).reshape(n, t)),
                "rrBLUPModel0.fit_numpy:input-mutated", "fit_numpy changed its Y or Z argument")
    ok = ctx.guard(go, case=case, sig_prefix="rrBLUPModel0.fit_numpy:")
    ctx.count("fits:fit_numpy")
    if case.get("objfit") and ok:
        def go2():
            g = lib("G")(mat=numpy.array(Z, dtype="int8").reshape(n, p), ploidy=2)
            pt = Yf.copy() if case["z"] % 2 else lib("BV").from_numpy(Yf.copy())
            with _Capture() as cap:
                ctx.transitions += 1
                model = lib("R").fit(pt, None, g, trait=numpy.array(TRAIT[s][:t], dtype=object))
            fit_oracle(ctx, model, cap.outs, Y, Z, "rrBLUPModel0.fit:", "fit")
            require(model.trait is not None and model.trait.tolist() == TRAIT[s][:t], "rrBLUPModel0.fit:trait-labels",
                    f"fit: trait {model.trait} expected {TRAIT[s][:t]}")
            if t == 1 and case["z"] % 2:
                require(numpy.array_equal(model.u_a, res["m"].u_a) and numpy.array_equal(model.beta, res["m"].beta),
                        "rrBLUPModel0.fit:differs-from-fit_numpy",
                        f"fit on the same data gives {model.u_a.tolist()} but fit_numpy gave {res['m'].u_a.tolist()}")
        ok = ctx.guard(go2, case=case, sig_prefix="rrBLUPModel0.fit:") and ok
        ctx.count("fits:fit")
    if t == 2 and ok:
        # independent traits: each column must equal the single-trait fit
        def go3():
            for k in range(2):
                ctx.transitions += 1
                m1 = lib("R").fit_numpy(Yf[:, [k]].copy(), None, Zf.copy())
                require(numpy.array_equal(m1.u_a[:, 0], res["m"].u_a[:, k]) and m1.beta[0, 0] == res["m"].beta[0, k],
                        "rrBLUPModel0.fit_numpy:traits-not-independent",
                        f"trait {k} fitted alone gives {m1.u_a[:, 0].tolist()} but jointly {res['m'].u_a[:, k].tolist()}")
        ok = ctx.guard(go3, case=case, sig_prefix="rrBLUPModel0.fit_numpy:") and ok
    if ok:
        ctx.traces += 1
        m_ = res["m"]
        ctx.outcome(hashlib.blake2b(numpy.round(m_.u_a, 9).tobytes() + m_.beta.tobytes(), digest_size=8).digest())
        if any(len({Y[i][k] for i in range(n)}) > 1 for k in range(t)):
            ctx.nontriv(hashlib.blake2b(repr(("fit", n, p, case["z"], tuple(ycodes))).encode(), digest_size=8).digest())
        if bool(numpy.any(m_.u_a != 0.0)):
            ctx.flag("fit-nonzero-effect")
        if not all(poly):
            ctx.flag("fit-with-monomorphic-marker")
        if len({Y[i][0] for i in range(n)}) == 1:
            ctx.flag("fit-constant-response")
        if n <= sum(poly):
            ctx.flag("fit-underdetermined")
        if ctx.evaluations % 499 == 1:
            ctx.sample(dict(case, Z=Z, Y=Y, beta=m_.beta.tolist(), u_a=m_.u_a.tolist()))
    ctx.flag(f"fit-n{n}-p{p}")


# ----------------------------------------------------------------------------
def run_shard(spec, ctx):
    ctx.bounds.update({"taxa_max": 4, "markers_max": 3, "traits_max": 2, "fixed_effect_rows_max": 3,
                       "ploidies": [1, 2, 4], "fit_records": [2, 3, 4, 5], "fit_markers_max": 3,
                       "float_rel_tol": 1e-9})
    if spec[0] == "introspect":
        ctx.bounds["model_blocks"] = ["cls=%s %s ploidy=%d n=%d m=%d t=%d q=%d misc=%d genotype_stride=%d dominance=%s effects=%s"
                                      % (b[0], "phased" if b[1] == "ph" else "unphased", b[2], b[3], b[4], b[5], b[6], b[7], b[8], b[9],
                                         ("every %d-th for each genotype" % b[10]) if b[10] > 0 else ("%d per genotype, rotating through all" % -b[10]))
                                      for b in blocks(ctx.tier)]
        ctx.bounds["size_sweep"] = ("allele statistics: every n = 1..%d x ploidy 1/2/4 x 4 classes x phased/unphased, loci "
                                    "{fixed-1, fixed-0, one copy short, half} x effects {pos, neg, 0}" % sweep_nmax(ctx.tier))
        ctx.bounds["fit_blocks"] = ["n=%d p=%d Z=%s z_stride=%d y_stride=%d traits=%d" % b for b in fit_blocks(ctx.tier)]
        for code in ("A", "D", "L", "R"):
            cov, ab, ex, un = method_sets(code)
            for n_ in cov:
                ctx.flag(f"covered:{CLSNAME[code]}.{n_}")
            for n_ in ab:
                ctx.flag(f"abstract-on-class:{CLSNAME[code]}.{n_}")
            for n_ in ex:
                ctx.flag(f"excluded:{CLSNAME[code]}.{n_}")
            for n_ in un:
                ctx.flag(f"uncovered:{CLSNAME[code]}.{n_}")
        return
    if spec[0] == "model":
        _, blk, g0, g1 = spec
        code, kind, P, n, m, t, q, misc, gstride, dmode, esel = blk
        gcodes = list(range(0, geno_count(kind, P, n, m), gstride))[g0:g1]
        effs_all = effect_specs(code, m, t, dmode)
        for gi, g in enumerate(gcodes, start=g0):
            for ei, (ua, ud) in enumerate(effects_for(effs_all, esel, gi)):
                case = dict(part="model", cls=code, kind=kind, P=P, n=n, m=m, g=g, t=t, q=q, misc=misc,
                            ua=[list(r) for r in ua], ud=None if ud is None else [list(r) for r in ud],
                            xvar=(g + ei) % 2, seed=ctx.seed,
                            perm=bool(n <= 2 or (ctx.tier == "thorough" and n <= 3) or (g + ei) % 3 == 0),
                            hist=bool((g + ei) % 2 == 0))
                run_case(ctx, case)
        if gstride > 1:
            ctx.flag(f"covering-set:{kind}{P}x{n}x{m}/stride{gstride}")
        return
    if spec[0] == "sweep":
        _, P, n0, n1 = spec
        for n in range(n0, n1):
            for code in ("A", "D", "L", "R"):
                run_sweep(ctx, dict(part="sweep", cls=code, P=P, n=n, seed=ctx.seed))
        return
    if spec[0] == "fit":
        _, blk, z0, z1 = spec
        n, p, zmode, zstride, ystride, t = blk
        zc = z_codes(n, p, zmode)[::zstride][z0:z1]
        for zi, z in enumerate(zc):
            for yi, y in enumerate(range(0, 3 ** n, ystride)):
                case = dict(part="fit", n=n, p=p, z=z, y=y, t=t, seed=ctx.seed, objfit=((zi + yi) % 5 == 0))
                if t == 2:
                    case["y2"] = (y * 7 + 5) % (3 ** n)
                run_fit(ctx, case)
        return
    raise ValueError(spec)


def finalize(ctx, tier, seed):
    # method coverage: every covered method of every class was really applied
    for code in ("A", "D", "L", "R"):
        cov, ab, ex, un = method_sets(code)
        assert ctx.counters.get(f"cases:{code}", 0) > 0, code
        for name in cov:
            if name in TABLE:
                assert ctx.counters.get(f"calls:{code}.{name}", 0) > 0, (code, name)
        assert ctx.counters.get(f"calls:{code}.TrueBreedingValue.estimate", 0) > 0
    ctx.counters["methods:covered"] = len([f for f in ctx.flags if f.startswith("covered:")])
    ctx.counters["methods:uncovered"] = len([f for f in ctx.flags if f.startswith("uncovered:")])
    ctx.counters["methods:abstract-on-class"] = len([f for f in ctx.flags if f.startswith("abstract-on-class:")])
    ctx.counters["methods:excluded-other-property"] = len([f for f in ctx.flags if f.startswith("excluded:")])
    assert ctx.counters["methods:covered"] >= 3 * 25, ctx.counters["methods:covered"]
    for f in ("ploidy-1", "ploidy-2", "ploidy-4", "q-1", "q-2", "q-3", "t-1", "t-2", "kind-ph", "kind-un",
              "misc-random-effects", "eff-neg", "eff-zero", "eff-pos", "bulmer-undefined", "bulmer-positive",
              "heterozygous-locus", "fixed-locus", "lost-locus", "rsq-response-variant-0", "rsq-response-variant-1",
              "rsq-response-variant-2", "fit-nonzero-effect", "fit-with-monomorphic-marker", "fit-constant-response",
              "fit-underdetermined", "fit-n2-p2", "fit-n2-p3", "fit-n3-p3", "fit-n3-p1", "fit-n3-p2", "fit-n4-p1", "fit-n4-p2", "fit-n5-p1", "fit-n5-p2"):
        assert f in ctx.flags, f
    assert ctx.counters.get("perm-instances", 0) > 0 and ctx.counters.get("partition-instances", 0) > 0
    for lab in ("after-u_a-setter", "after-u-setter", "after-u_d-setter", "after-beta-setter", "after-inplace-edit"):
        assert ctx.counters.get("history-steps:" + lab, 0) > 0, lab
    for code in ("A", "D", "L", "R"):
        assert ctx.counters.get(f"sweep-cases:{code}", 0) == 3 * sweep_nmax(tier), code
    for f in ("sweep-copies-49", "sweep-copies-98", "sweep-copies-103", "sweep-copies-107", "sweep-copies-196", "sweep-nmax"):
        assert f in ctx.flags, f
    assert ctx.counters.get("fit:normal-equation-clause-checked", 0) > 0
    assert ctx.counters.get("fit:normal-equation-clause-not-applicable", 0) > 0
    assert ctx.counters.get("fits:fit", 0) > 0
    assert len(ctx.outcomes) > 100, len(ctx.outcomes)
    assert len(ctx.nontrivial) > 100, len(ctx.nontrivial)
    # the dominance effect covering really shows every marker all 16 (a,d) letter pairs
    for m in (1, 2, 3):
        specs = effect_specs("D", m, 1, "cover")
        for j in range(m):
            assert len({(ua[j][0], ud[j][0]) for ua, ud in specs}) == 16, (m, j)
    # the covering sets really are pairwise covering
    for blk in blocks(tier):
        code, kind, P, n, m, t, q, misc, gstride, dmode, esel = blk
        if gstride > 1 and kind == "ph" and code == "A" and P * n * m >= 12:
            assert pairwise_covered(list(range(0, geno_count(kind, P, n, m), gstride)), P * n * m), blk


def replay(case, ctx):
    if case.get("part") == "sweep":
        run_sweep(ctx, case)
    elif case.get("part") == "fit":
        run_fit(ctx, case)
    else:
        run_case(ctx, case)
