"""C05 — selection objectives mean what they say in every decision encoding.

Complete small-scope enumeration of decision vectors x encodings x weights/transformations for every concrete
problem class of pybrops.breed.prot.sel.prob (discovered by introspection), against the independent definitions in
mc/ref/criteria.py.  States = distinct (class, data, decision) configurations, transitions = applications of
latentfn / evalfn / evaluate / _evaluate / factory methods on the real objects.
"""
from __future__ import annotations
import importlib
import inspect
import itertools
import pkgutil
import numpy

from .. import compat  # noqa: F401
from ..core import Violation, require, digest, same
from ..ref import criteria as R
from ..ref import selfix as FX
from ..ref import selfam as FM
from ..ref.selfix import A, Fx

ID = "C05"
TECHNIQUE = ("complete small-scope enumeration of decision vectors x encodings x weights x transformations per problem "
             "class (classes discovered by introspection) on the real latentfn/evalfn/evaluate and factory methods, "
             "against independent criterion definitions (exact rationals) + cross-encoding agreement")
RULE = ("one case = (problem class, data fixture, construction mode [direct | factory method + options + row permutation of the "
        "population], decision vector, evaluation configuration); decisions: all ordered k-subsets (k<=3, distinct members), all "
        "ordered k-sequences with a repeated member, all integer count vectors with sum<=4, all binary vectors !=0, all real vectors "
        "on {0,1/4,1/2,1}^N !=0 and their rescalings x{1/2,3}; configurations: every (objective, inequality, equality) transformation "
        "triple x a cyclic walk through every weight form (None, scalar, array over the weight alphabet); non-trivial = at least two "
        "candidates contribute or the decision is a permutation / rescaling of another one; the (decision x configuration) product "
        "of oracle (iv) runs on every 3rd decision (quick) / on all decisions, strided to <=300 per encoding for the large cross "
        "spaces (thorough), oracles (i)-(iii) on every decision; on every problem object additionally: each decision evaluated a "
        "second time in reverse order (exact repeat), decision / constructor arrays untouched, and a problem pre-loaded with other "
        "data + evaluated + re-loaded through every public setter must score like a fresh one; matrix layer: "
        "DenseExpectedMaximumBreedingValueMatrix.from_gmod with nprogeny/nrep as scalars and as per-taxon arrays with unequal "
        "entries x all row permutations of 2-/3-taxon populations x all generator answers with <=1 (thorough, smallest scope: <=2) "
        "non-default crossover answers, DenseWeightedGenomicEstimatedBreedingValueMatrix.from_algmod; every factory additionally "
        "on SHARED input objects (bvmat with location!=0, scale!=1, unscale True/False): inputs untouched after construction and "
        "after evaluation, a second build (same encoding, then another encoding) equals the isolated build, the first problem's "
        "data and answers unchanged afterwards; chunked data: OHV _calc_ohvmat for every chunk size mem in {None,1..nconfig+1,1024} "
        "and the OHV factories of all encodings on populations of 45/46/47/65 taxa (990..2145 crosses, every ohvmat row + decisions on "
        "chunk-boundary and tail rows), numpy.empty NaN-poisoned during factory calls; large decisions: every class on 130 taxa "
        "(int8 genotypes, one locus fixed for 2) with selections of 63/64/65/127/128/129 members in every encoding; distinct by digest of "
        "(class, fixture, mode, decision)")
ASSUME = ["mc/compat.py restores removed numpy names only",
          "numpy.linalg.cholesky / float arithmetic are correct (the kinship factor handed to directly constructed problems is "
          "numpy's Cholesky factor of the reference K, asserted to satisfy C'C = K)",
          "progeny variance matrices (property C12), coancestry formulas (C13), mate() (C01), gebv() (C04) and the haplotype "
          "binning helpers (C18) are other properties' subjects: UC uses the variance factory's own output, EMBV the pedigree "
          "model of C01, block designs are restricted to unambiguous ones (no marker on an inner bin boundary)",
          "the EMBV matrix factory simulates taxon by taxon, replicate by replicate (the documented loop): its gamete draws are "
          "attributed to (taxon, replicate) in that order",
          "factory sharing: input objects are compared field by field (matrix values, labels, location/scale, model coefficients, "
          "array arguments) before / after construction and after evaluation; objects a factory may legitimately cache inside "
          "an input (none found) would need an exemption",
          "mean expected heterozygosity is taken in the library's documented form -(1-||Cc||_2) (DESIGN C05), not 1-c'Kc",
          "a subset decision may list a member twice (the subset sampler has replace=True as an option); such decisions are "
          "reported under their own ':repeated-members' signatures",
          "the plain weighted-GEBV factories are only driven where every favourable-allele frequency is positive (the criterion "
          "divides by its square root)"]

TOL_REL, TOL_ABS = 1e-9, 1e-12


# ----------------------------------------------------------------------------------------------------------
def near(a, b, rel=TOL_REL, abs_=TOL_ABS):
    """a (list of floats from the library) ~ b (reference list); NaN matches only NaN."""
    if len(a) != len(b):
        return False
    for u, v in zip(a, b):
        if u == v:
            continue
        if u != u or v != v:
            if u != u and v != v:
                continue
            return False
        if not abs(u - v) <= abs_ + rel * abs(v):
            return False
    return True


def definer(obj, name):
    """Name of the class that defines method `name` of obj (signatures name the call site, not every heir)."""
    fn = getattr(type(obj), name, None)
    qn = getattr(fn, "__qualname__", None)
    return qn.split(".")[0] if qn and "." in qn else type(obj).__name__


def aslist(v):
    return numpy.asarray(v, dtype=float).ravel().tolist()


def discover():
    """Every concrete SelectionProblem subclass defined in the package -> {name: (module, class)}; import failures
    are returned separately."""
    import pybrops.breed.prot.sel.prob as P
    from pybrops.breed.prot.sel.prob.SelectionProblem import SelectionProblem
    found, failed = {}, []
    for m in sorted(pkgutil.iter_modules(P.__path__), key=lambda m: m.name):
        try:
            mod = importlib.import_module(P.__name__ + "." + m.name)
        except Exception as e:  # pragma: no cover
            failed.append((m.name, f"{type(e).__name__}: {e}"))
            continue
        for nme, c in inspect.getmembers(mod, inspect.isclass):
            if c.__module__ == mod.__name__ and issubclass(c, SelectionProblem) and not inspect.isabstract(c):
                found[nme] = (m.name, c)
    return found, failed


def table_classes():
    return {cn: (f, enc) for f in FM.FAMILIES for enc, cn in f.classes.items()}


# ----------------------------------------------------------------------------------------------------------
def shards(tier, seed):
    Tt = tier == "thorough"
    ns = (3, 4) if Tt else (3,)
    variants = (0, 1, 2) if Tt else (0, 1)
    out = [("discover",)]
    for n in (2, 3):
        for v in variants:
            out.append(("matrix", n, v))
    for n in LARGE_N:
        out.append(("large", n))
    for f in FM.FAMILIES:
        out.append(("bigdecision", f.name))
    for n in ns:
        for v in variants:
            out.append(("chunks", n, v))
    for f in FM.FAMILIES:
        for n in ns:
            for v in variants:
                nopt = len(f.ctor_options(tier))
                for oi in range(nopt):
                    for part in range(len(FX.OBJ_KINDS)):
                        out.append(("ctor", f.name, n, v, oi, part))
                encs = [e for e in FM.ENCS if e in f.classes]
                for enc in encs:
                    out.append(("factory", f.name, n, v, enc))
    return out


# ----------------------------------------------------------------------------------------------------------
def space_kwargs(enc, N, k):
    if enc == "subset":
        return dict(ndecn=k, decn_space=numpy.arange(N, dtype="int64"), decn_space_lower=numpy.repeat(0, k),
                    decn_space_upper=numpy.repeat(N - 1, k))
    if enc == "integer":
        lo, up = numpy.repeat(0, N), numpy.repeat(4, N)
        return dict(ndecn=N, decn_space=numpy.stack([lo, up]), decn_space_lower=lo, decn_space_upper=up)
    if enc == "binary":
        lo, up = numpy.repeat(0, N), numpy.repeat(1, N)
        return dict(ndecn=N, decn_space=numpy.stack([lo, up]), decn_space_lower=lo, decn_space_upper=up)
    lo, up = numpy.repeat(0.0, N), numpy.repeat(3.0, N)
    return dict(ndecn=N, decn_space=numpy.stack([lo, up]), decn_space_lower=lo, decn_space_upper=up)


def eval_kwargs(cfg, L, alphabet):
    """Constructor keyword arguments of an evaluation configuration + its reference description."""
    ok, ik, ek, w = cfg
    explicit = bool(w % 2)
    spec = {}
    kw = {}
    for bi, (blk, kind, nkey) in enumerate((("obj", ok, "nobj"), ("ineqcv", ik, "nineqcv"), ("eqcv", ek, "neqcv"))):
        fn, fkw, ln, ref = FX.trans_spec(kind, L, explicit or (kind == "id" and blk != "obj"))
        menu = FX.weight_menu(ln, alphabet)
        form = menu[(w + bi) % len(menu)]
        wt, wref = FX.weight_value(form, ln)
        if form[0] == "array" and ln == 0:
            wt = numpy.empty((0,), dtype=float)
        kw[nkey] = ln if (blk == "obj" or ln > 0 or explicit) else None
        kw[blk + "_wt"] = wt
        kw[blk + "_trans"] = fn
        kw[blk + "_trans_kwargs"] = fkw
        spec[blk] = (ref, wref, ln, kind, form[0])
    return kw, spec


DEFAULT_CFG = ("id", "none", "none", 0)


class Unit:
    """All problems of one family on one data set, in direct-construction mode."""

    def __init__(self, fam, fx, opt, tier):
        self.fam, self.fx, self.opt, self.tier = fam, fx, opt, tier
        self.d = fam.data(fx, opt)
        self.N = self.d["N"]
        self.L = fam.nlatent(self.d)
        self._cls = {}

    def cls(self, enc):
        if enc not in self._cls:
            self._cls[enc] = FM.load(self.fam.module, self.fam.classes[enc])
        return self._cls[enc]

    def build(self, enc, k, cfg):
        kw, spec = eval_kwargs(cfg, self.L, self.fx.wts)
        prob = self.cls(enc)(**self.fam.ctor_kwargs(self.d, enc), **space_kwargs(enc, self.N, k), **kw)
        return prob, spec


def decisions_for(fam, enc, N, d, tier):
    """-> list of (k, x tuple, tag) with tag in {'', 'repeat', 'scaled'}."""
    out = []
    if enc == "subset":
        kmin = fam.kmin(d) if hasattr(fam, "kmin") else 1
        for k, x, rep in FX.subset_decisions(N):
            if k >= kmin:
                out.append((k, x, "repeat" if rep else ""))
    elif enc == "integer":
        out = [(N, x, "") for x in FX.integer_decisions(N)]
    elif enc == "binary":
        out = [(N, x, "") for x in FX.binary_decisions(N)]
    else:
        ms = None if N <= 4 else 3
        out = [(N, x, "" if s == 1 else "scaled") for x, s in FX.real_decisions(N, ms)]
    return out


def jx(x):
    return [float(v) if not isinstance(v, int) else v for v in x]


# ----------------------------------------------------------------------------------------------------------
# oracle (i): latent = definition
def check_latent(ctx, fam, d, L, clsname, prob, enc, x, tag, case, rec=None):
    xa = FX.to_array(enc, x)
    lat = prob.latentfn(xa)
    ctx.transitions += 1
    P = definer(prob, "latentfn") + ".latentfn:"
    require(isinstance(lat, numpy.ndarray) and lat.ndim == 1 and len(lat) == L, P + "shape",
            f"latentfn returned {type(lat).__name__} shape {getattr(lat, 'shape', None)}, the criterion has {L} components", case)
    if fam.kind == "set":
        ref = fam.ref(d, members=R.members_of(enc, x))
    else:
        ref = fam.ref(d, c=R.contributions(enc, x, d["N"]))
    ll = lat.tolist()
    if rec is not None:
        rec[(enc, x)] = ll
    if getattr(prob, "nlatent", L) != L:
        # outside the property's words (it speaks about the latent vector, not its advertised size): reported, not judged
        ctx.flag(f"observation:nlatent={prob.nlatent}-but-latent-vector-has-{L}-components:{clsname}")
    suffix = ":repeated-members" if tag == "repeat" else ""
    require(near(ll, ref), P + "definition" + suffix,
            lambda: f"{enc} decision {jx(x)}: latentfn = {ll}, definition from the data = {ref}", case)
    return ll


KW2ATTR = {"wgebv": "gwgebv"}


def other_data(name, v):
    """A different, still valid value of the same shape for data attribute `name` (used to pre-load a problem before
    its public setters are used to install the real data)."""
    if not isinstance(v, numpy.ndarray):
        return v
    if name == "C":
        return numpy.triu(numpy.ones_like(v)) + 0.0
    if name == "tfreq":
        return 1.0 - v[::-1]
    if v.dtype.kind == "f":
        return v[::-1] * 0.5 + 1.0
    return v[::-1].copy()


def identical(a, b):
    return len(a) == len(b) and all(u == v or (u != u and v != v) for u, v in zip(a, b))


def check_history(ctx, fam, U, enc, cn, k, prob, decs, latents, case, focus):
    """(a) a second evaluation of every decision, in reverse order on the same object, repeats the first one exactly and
    leaves the decision array untouched; (b) a fresh problem leaves the arrays it was constructed from untouched;
    (c) a problem pre-loaded with other data, evaluated, and then given the real data through every public setter scores
    every decision exactly like a freshly constructed problem."""
    P = definer(prob, "latentfn") + ".latentfn:"
    todo = [(x, latents[(enc, x)]) for _, x, _ in decs if (enc, x) in latents]
    if focus and focus.get("xs") is not None:
        todo = [(x, l) for x, l in todo if jx(x) in focus["xs"]]
    if not todo:
        return
    for x, lat in reversed(todo):
        xa = FX.to_array(enc, x)
        x0 = xa.copy()
        l2 = prob.latentfn(xa).tolist()
        ctx.transitions += 1
        c2 = dict(case, x=jx(x), xs=[jx(x)])
        require(identical(l2, lat), P + "history-dependence",
                f"second evaluation of {jx(x)} on the same problem gives {l2}, the first gave {lat}", c2)
        require(same(xa, x0) and xa.dtype == x0.dtype, P + "input-mutated:x", f"latentfn changed its argument {x0.tolist()} -> {xa.tolist()}", c2)
    ctx.count("layer:history", len(todo))
    # (b) + (c)
    kw = fam.ctor_kwargs(U.d, enc)
    snap = {nm: (v.copy() if isinstance(v, numpy.ndarray) else v) for nm, v in kw.items()}
    ekw = eval_kwargs(DEFAULT_CFG, U.L, U.fx.wts)[0]
    fresh = U.cls(enc)(**kw, **space_kwargs(enc, U.N, k), **ekw)
    for x, lat in todo:
        xa = FX.to_array(enc, x)
        fresh.latentfn(xa)
        fresh.evalfn(xa)
    ctx.transitions += 1 + 2 * len(todo)
    for nm, v in kw.items():
        ok = same(v, snap[nm]) if isinstance(v, numpy.ndarray) else v == snap[nm]
        require(ok, f"{cn}:input-mutated:{nm}", f"constructing / evaluating the problem changed the array passed as '{nm}'", case)
    kwA = {nm: other_data(nm, v) for nm, v in kw.items()}
    pre = U.cls(enc)(**kwA, **space_kwargs(enc, U.N, k), **ekw)
    for x, lat in todo:
        pre.latentfn(FX.to_array(enc, x))
    for nm, v in kw.items():
        setattr(pre, KW2ATTR.get(nm, nm), v)
    ctx.transitions += 1 + len(todo) + len(kw)
    for x, lat in todo:
        l3 = pre.latentfn(FX.to_array(enc, x)).tolist()
        ctx.transitions += 1
        require(identical(l3, lat), P + "stale-after-setter",
                f"problem pre-loaded with other data, then given {sorted(kw)} through the public setters: latentfn({jx(x)}) = {l3}, "
                f"a freshly constructed problem gives {lat}", dict(case, x=jx(x), xs=[jx(x)]))
    ctx.count("layer:set-then-query", len(todo))
    ctx.evaluations += 2 * len(todo)


def agree_sig(fam, a, b):
    (ea, _, _, ta, ca), (eb, _, _, tb, cb) = a, b
    rep = ":repeated-members" if "repeat" in (ta, tb) else ""
    if ea == eb:
        kind = "permutation-invariance" if ea == "subset" else "rescaling-invariance"
        return f"{ca}.latentfn:{kind}{rep}"
    e1, e2 = sorted((ea, eb))
    return f"{fam.name}:encoding-agreement:{e1}-vs-{e2}{rep}"


# ----------------------------------------------------------------------------------------------------------
def run_ctor(ctx, fname, n, variant, oi, part, focus=None):
    fam = FM.BY_NAME[fname]
    tier = ctx.tier
    opt = fam.ctor_options(tier)[oi]
    fx = Fx(n, variant, ctx.seed, layout=opt.get("layout", "2x2"))
    if hasattr(fam, "valid") and not fam.valid(fx, opt):
        ctx.count("skipped-invalid:kinship-not-positive-definite")     # a Cholesky factor does not exist: not a valid problem
        return
    U = Unit(fam, fx, opt, tier)
    base = dict(spec=["ctor", fname, n, variant, oi, part], family=fname, fixture=fx.key(), opt=opt)
    encs = [e for e in FM.ENCS if e in fam.classes]
    groups = {}        # contribution vector / member multiset -> [(enc, x, latent, tag, class)]
    latents = {}
    liblat = {}      # what the library returned on the first evaluation (whether or not it matches the definition)
    ctx.bounds.update({"n_taxa_max": max(n, ctx.bounds.get("n_taxa_max", 0)), "markers": FX.M, "traits": FX.T, "subset_kmax": 3,
                       "integer_sum_max": 4, "real_grid": "0,1/4,1/2,1 x {1,1/2,3}", "real_support_max_when_N>4": 3,
                       "eval_product_decisions": "quick: every 3rd decision; thorough: all, strided to <=300 per encoding"})
    for enc in encs:
        cn = fam.classes[enc]
        decs = decisions_for(fam, enc, U.N, U.d, tier)
        if focus and focus.get("enc") not in (None, enc) and focus.get("enc2") != enc:
            continue
        probs = {}
        for k in sorted({k for k, _, _ in decs}):
            case = dict(base, cls=cn, enc=enc, k=k, stage="construct")
            ok = ctx.guard(lambda: probs.__setitem__(k, U.build(enc, k, DEFAULT_CFG)[0]), case=case, sig_prefix=cn + ".__init__:")
            if ok:
                ctx.transitions += 1
        # ---- (i) definition, collected for (ii)/(iii) -- done once per unit (part 0)
        if part == 0 or focus:
            for k, x, tag in decs:
                if k not in probs:
                    continue
                if focus and focus.get("xs") is not None and jx(x) not in focus["xs"]:
                    continue
                if focus and focus.get("stage") not in (None, "latent", "agree", "history"):
                    continue
                case = dict(base, cls=cn, enc=enc, k=k, x=jx(x), stage="latent")
                ctx.evaluations += 1
                got = []
                ok = ctx.guard(lambda: got.append(check_latent(ctx, fam, U.d, U.L, cn, probs[k], enc, x, tag, case, rec=liblat)),
                               case=case, sig_prefix=definer(probs[k], "latentfn") + ".latentfn:")
                key = digest((cn, fx.key(), "ctor", oi, enc, x))
                ctx.state(key)
                ctx.count("cls:" + cn)
                ctx.count("enc:" + enc)
                ctx.count("layer:definition")
                if tag == "repeat":
                    ctx.flag("subset-with-repeated-member")
                if enc == "real" and sum(x) < 1:
                    ctx.flag("real-vector-with-sum<1")
                if not got:
                    continue
                ctx.traces += 1
                lat = got[0]
                latents[(enc, x)] = lat
                ctx.outcome(digest((fname, [round(v, 9) for v in lat])))
                gk = tuple(R.members_of(enc, x)) if fam.kind == "set" else R.contributions(enc, x, U.N)
                groups.setdefault(gk, []).append((enc, x, lat, tag, definer(probs[k], "latentfn")))
                if sum(1 for v in (gk if fam.kind != "set" else [1] * len(set(gk))) if v) > 1:
                    ctx.nontriv(key)
                if ctx.evaluations % 997 == 20 + (len(fname) * 37 + oi * 11) % 200:
                    ctx.sample(dict(case, latent=lat))
            # ---- histories on one problem object: evaluate twice, inputs untouched, set-then-query
            if not focus or focus.get("stage") in (None, "history"):
                for k in sorted(probs):
                    ck = dict(base, cls=cn, enc=enc, k=k, stage="history")
                    ctx.guard(lambda: check_history(ctx, fam, U, enc, cn, k, probs[k], [d for d in decs if d[0] == k], liblat, ck, focus),
                              case=ck, sig_prefix=definer(probs[k], "latentfn") + ".latentfn:history:")
    # ---- (ii)/(iii): every encoding of the same contributions gives the same latent vector
    if part == 0 or (focus and focus.get("stage") == "agree"):
        for gk, ent in sorted(groups.items(), key=lambda kv: repr(kv[0])):
            first = ent[0]
            # compare everything against the first entry and, so that a deviating first entry is attributed correctly,
            # the first against the second
            for other in ent[1:]:
                sig = agree_sig(fam, first, other)
                ctx.count("layer:agreement")
                kind = "perm" if "permutation-invariance" in sig else "rescale" if "rescaling-invariance" in sig else "encoding"
                ctx.count("agree:" + kind)
                if kind == "encoding":
                    # agreement with the first entry is transitive: every pair of encodings present in the group is compared
                    for ea, eb in itertools.combinations(sorted({e[0] for e in ent}), 2):
                        ctx.flag(f"agree:{ea}-{eb}")
                ctx.nontriv(digest((fname, fx.key(), oi, "agree", first[0], first[1], other[0], other[1])))
                case = dict(base, stage="agree", enc=first[0], x=jx(first[1]), enc2=other[0], x2=jx(other[1]),
                            xs=[jx(first[1]), jx(other[1])])
                ctx.evaluations += 1
                ctx.guard(lambda: require(near(other[2], first[2], rel=1e-9, abs_=1e-12), sig,
                                          f"{first[0]} {jx(first[1])} -> {first[2]} but {other[0]} {jx(other[1])} -> {other[2]} "
                                          f"although both encode the same contributions", case), case=case)
    if focus and focus.get("stage") not in (None, "eval"):
        return
    # ---- (iv) evalfn / evaluate / _evaluate for every configuration whose objective kind belongs to this part
    for enc in encs:
        if focus and focus.get("enc") not in (None, enc):
            continue
        cn = fam.classes[enc]
        decs = [(k, x, t) for k, x, t in decisions_for(fam, enc, U.N, U.d, tier)]
        if not focus:
            decs = thin(decs) if tier == "quick" else stride(decs, EVAL_DECISIONS_MAX)
        byk = {}
        for k, x, t in decs:
            byk.setdefault(k, []).append(x)
        for cfg in FX.eval_configs(tier):
            if cfg[0] != FX.OBJ_KINDS[part] and not focus:
                continue
            if focus and focus.get("cfg") is not None and list(cfg) != list(focus["cfg"]):
                continue
            for k, xs in sorted(byk.items()):
                if focus and focus.get("k") not in (None, k):
                    continue
                case = dict(base, cls=cn, enc=enc, k=k, cfg=list(cfg), stage="eval")
                built = []
                if not ctx.guard(lambda: built.append(U.build(enc, k, cfg)), case=case, sig_prefix=cn + ".__init__:"):
                    continue
                prob, spec = built[0]
                ctx.transitions += 1
                ctx.guard(lambda: check_eval(ctx, cn, prob, spec, enc, k, xs, case, focus), case=case, sig_prefix=definer(prob, "evalfn") + ".evalfn:")
                for blk in ("obj", "ineqcv", "eqcv"):
                    ctx.flag(f"trans:{blk}:{spec[blk][3]}")
                    ctx.flag(f"wtform:{blk}:{spec[blk][4]}")
                    ctx.flag(f"block:{blk}:{'empty' if spec[blk][2] == 0 else 'nonempty'}")


EVAL_DECISIONS_MAX = 300


def stride(decs, cap):
    """thorough tier: the (decision x configuration) product uses every s-th decision of an encoding once an encoding has
    more than `cap` decisions (large cross spaces); every decision still sees the definition/agreement oracles."""
    if len(decs) <= cap:
        return decs
    s = -(-len(decs) // cap)
    return [d for i, d in enumerate(decs) if i % s == 0]


def thin(decs):
    """quick tier: evaluation-configuration product on every 3rd decision (all decisions see the definition oracle)."""
    return [d for i, d in enumerate(decs) if i % 3 == 0 or d[2] == "repeat" and i % 5 == 0]


def check_eval(ctx, cn, prob, spec, enc, k, xs, case, focus):
    ce = definer(prob, "evalfn")
    rows = []
    X = []
    for x in xs:
        if focus and focus.get("xs") is not None and jx(x) not in focus["xs"]:
            continue
        xa = FX.to_array(enc, x)
        x0 = xa.copy()
        lat = prob.latentfn(xa)
        res = prob.evalfn(xa)
        require(same(xa, x0), ce + ".evalfn:input-mutated:x", f"evalfn changed its argument {x0.tolist()} -> {xa.tolist()}", dict(case, x=jx(x), xs=[jx(x)]))
        ctx.transitions += 2
        ctx.evaluations += 1
        ctx.count("layer:evalfn")
        c2 = dict(case, x=jx(x), xs=[jx(x)])
        require(isinstance(res, tuple) and len(res) == 3, ce + ".evalfn:shape", f"evalfn returned {type(res).__name__}", c2)
        ll = lat.tolist()
        xl = [float(v) for v in x]
        exp = []
        for bi, blk in enumerate(("obj", "ineqcv", "eqcv")):
            ref, wref, ln, kind, form = spec[blk]
            e = R.weighted(wref, ref(xl, ll))
            got = aslist(res[bi])
            require(near(got, e, rel=1e-12, abs_=1e-13), f"{ce}.evalfn:{blk}",
                    lambda: f"{blk} block of evalfn({jx(x)}) = {got}; declared weights {wref} x {kind} transformation of the latent "
                            f"vector {ll} = {e}", c2)
            exp.append(e)
        rows.append((x, exp))
        X.append(xa)
        ctx.traces += 1
    if not rows:
        return
    # _evaluate on one vector and on the matrix, evaluate() through pymoo: row-wise identical, empty blocks omitted
    keys = ["F"] + (["G"] if spec["ineqcv"][2] > 0 else []) + (["H"] if spec["eqcv"][2] > 0 else [])
    names = {"F": 0, "G": 1, "H": 2}
    Xm = numpy.stack(X)
    outs = {}
    o1 = {}
    prob._evaluate(X[0], o1)
    outs["_evaluate(vector)"] = ({kk: numpy.asarray(v)[None, :] for kk, v in o1.items()}, 1)
    o2 = {}
    prob._evaluate(Xm, o2)
    outs["_evaluate(matrix)"] = (o2, len(X))
    o3 = prob.evaluate(Xm, return_as_dictionary=True)
    outs["evaluate"] = (o3, len(X))
    ctx.transitions += 3
    ctx.count("layer:evaluate", 3)
    for nm, (o, nr) in outs.items():
        c3 = dict(case, xs=[jx(x) for x, _ in rows[:nr]], call=nm)
        site = nm.split("(")[0]
        cs = definer(prob, site)
        require(sorted(o.keys()) == sorted(keys), f"{cs}.{site}:blocks",
                f"{nm} reported blocks {sorted(o.keys())}, the problem declares {keys} (empty constraint blocks are omitted)", c3)
        for kk in keys:
            arr = numpy.asarray(o[kk], dtype=float)
            require(arr.ndim == 2 and arr.shape[0] == nr, f"{cs}.{site}:shape", f"{nm}[{kk}] has shape {arr.shape} for {nr} candidates", c3)
            for r in range(nr):
                require(near(arr[r].tolist(), rows[r][1][names[kk]], rel=1e-12, abs_=1e-13), f"{cs}.{site}:row-mismatch",
                        lambda: f"{nm}[{kk}] row {r} = {arr[r].tolist()} but evalfn({jx(rows[r][0])}) gives {rows[r][1][names[kk]]}", c3)


# ----------------------------------------------------------------------------------------------------------
# oracle (v): factories
def check_attr(cn, fac, prob, e, case):
    P = f"{cn}.{fac}:data:{e.attr}"
    if e.how == "flag":
        ok, info = e.value
        require(ok, P, f"{e.attr}: {info}", case)
        return
    got = getattr(prob, e.attr)
    if e.how == "exact":
        require(same(numpy.asarray(got), numpy.asarray(e.value)), P, f"{e.attr} = {numpy.asarray(got).tolist()}, population holds {e.value}", case)
    elif e.how == "close":
        exp = numpy.asarray(e.value, dtype=float)
        g = numpy.asarray(got, dtype=float)
        require(g.shape == exp.shape and near(g.ravel().tolist(), exp.ravel().tolist()), P,
                lambda: f"{e.attr} = {g.tolist()} but the population's data in the population's taxon order are {exp.tolist()}", case)
    elif e.how in ("chol", "chol-jitter", "chol3"):
        Ks = e.value if e.how == "chol3" else [e.value]
        C = numpy.asarray(got, dtype=float)
        Cs = C if e.how == "chol3" else C[None]
        require(Cs.shape == (len(Ks), len(Ks[0]), len(Ks[0])), P, f"kinship factor has shape {C.shape}", case)
        for t, K in enumerate(Ks):
            Kf = A([[float(v) for v in r] for r in K])
            Ct = Cs[t]
            require(bool(numpy.all(numpy.tril(Ct, -1) == 0.0)), P + ":not-upper-triangular", f"C = {Ct.tolist()}", case)
            D = Ct.T @ Ct - Kf
            if e.how == "chol-jitter":
                off = D - numpy.diag(numpy.diag(D))
                dg = numpy.diag(D)
                ok = bool(numpy.all(numpy.abs(off) <= 1e-9)) and bool(numpy.all(dg >= -1e-12)) and bool(numpy.all(dg <= 0.5e-6 + 1e-12))
                require(ok, P, lambda: f"C'C - K = {D.tolist()} for the (singular, jittered) kinship K = {Kf.tolist()}", case)
            else:
                require(near((Ct.T @ Ct).ravel().tolist(), Kf.ravel().tolist()), P,
                        lambda: f"C'C = {(Ct.T @ Ct).tolist()} but the population's kinship (taxon order of the population) is {Kf.tolist()}", case)
    else:
        raise KeyError(e.how)


def perms_for(n, tier):
    allp = list(itertools.permutations(range(n)))
    if n == 3:
        return allp
    return [p for i, p in enumerate(allp) if i % 5 == 0 or p == tuple(reversed(range(n)))]


def run_factory(ctx, fname, n, variant, enc, focus=None):
    fam = FM.BY_NAME[fname]
    tier = ctx.tier
    cn = fam.classes[enc]
    cls = FM.load(fam.module, cn)
    base = dict(spec=["factory", fname, n, variant, enc], family=fname, cls=cn, enc=enc)
    for fi, (fac, opt) in enumerate(fam.factories(enc, tier)):
        if focus and focus.get("fi") not in (None, fi):
            continue
        for perm in perms_for(n, tier):
            if focus and focus.get("perm") is not None and list(perm) != list(focus["perm"]):
                continue
            fx = Fx(n, variant, ctx.seed, perm=perm, layout=opt.get("layout", "2x2"))
            case = dict(base, fixture=fx.key(), fac=fac, fi=fi, opt={k: v for k, v in opt.items()}, perm=list(perm), stage="factory")
            if fname == "EMBV":
                embv_factory(ctx, fam, cls, cn, enc, fx, case)
                continue
            N0 = expected_space(fam, fx, fac, opt)
            ks = [1, 2, 3] if enc == "subset" else [N0]
            if hasattr(fam, "kmin"):
                ks = [k for k in ks if k >= opt.get("nbest", 1)]
            ks = [k for k in ks if k <= N0]
            if ks and not (focus and focus.get("stage") not in (None, "factory-sharing")):
                ctx.guard(lambda: check_sharing(ctx, fam, cls, cn, enc, n, variant, perm, fac, opt, N0, ks[min(1, len(ks) - 1)],
                                                dict(case, stage="factory-sharing"), focus),
                          case=dict(case, stage="factory-sharing"), sig_prefix=f"{cn}.{fac}:sharing:")
            if focus and focus.get("stage") == "factory-sharing":
                continue
            built = {}
            skip = []
            for k in ks:
                common = dict(space_kwargs(enc, N0, k), **eval_kwargs(DEFAULT_CFG, fam_L(fam, fx, fac, opt), fx.wts)[0])

                def go(k=k, common=common):
                    with poisoned_empty():
                        prob, exps, d = fam.build_factory(cls, enc, fx, fac, opt, common)
                    if prob is None:
                        skip.append(exps)
                        return
                    built[k] = (prob, exps, d)
                ok = ctx.guard(go, case=dict(case, k=k), sig_prefix=f"{cn}.{fac}:")
                ctx.transitions += 1
                ctx.evaluations += 1
                ctx.count("layer:factory")
                ctx.count(f"factory:{fname}.{fac}")
                ctx.count("cls:" + cn)
                if perm != tuple(range(n)):
                    ctx.flag("factory-on-permuted-population")
                if skip:
                    ctx.count("skipped-invalid:" + skip[-1])
                    break
            for k, (prob, exps, d) in sorted(built.items()):
                allok = True
                for e in exps:
                    allok &= ctx.guard(lambda: check_attr(cn, fac, prob, e, dict(case, k=k, attr=e.attr)), case=dict(case, k=k, attr=e.attr),
                                       sig_prefix=f"{cn}.{fac}:")
                ctx.state(digest((cn, fx.key(), fac, sorted(opt.items()), k)))
                if allok:
                    ctx.traces += 1
                if d is None or not allok:
                    continue
                # end to end: the factory-built problem scores decisions as the definition says for *this* population
                L = fam.nlatent(d)
                decs = [(kk, x, t) for kk, x, t in decisions_for(fam, enc, d["N"], d, tier) if kk == k]
                if d["N"] > 4:
                    decs = [dd for i, dd in enumerate(decs) if i % 7 == 0]
                for kk, x, tag in decs:
                    if focus and focus.get("xs") is not None and jx(x) not in focus["xs"]:
                        continue
                    c2 = dict(case, k=k, x=jx(x), xs=[jx(x)], stage="factory-latent")
                    ctx.evaluations += 1
                    got = []
                    if ctx.guard(lambda: got.append(check_latent(ctx, fam, d, L, cn, prob, enc, x, tag, c2)), case=c2, sig_prefix=definer(prob, "latentfn") + ".latentfn:"):
                        ctx.traces += 1
                        ctx.outcome(digest((fname, [round(v, 9) for v in got[0]])))
                    ctx.state(digest((cn, fx.key(), fac, sorted(opt.items()), enc, x)))
                    ctx.count("layer:factory-latent")


def check_sharing(ctx, fam, cls, cn, enc, n, variant, perm, fac, opt, N0, k, case, focus):
    """Several problems built from the SAME input objects (breeding-value matrix with location != 0, scale != 1, genotype
    matrices, model, array arguments): (i) the inputs are untouched after construction and after evaluation, (ii) a second
    build in the same encoding and a build in another encoding hold the same data as an isolated build, (iii) the first
    problem's data and answers do not change when further problems are built from the same inputs."""
    fx = Fx(n, variant, ctx.seed, perm=perm, layout=opt.get("layout", "2x2"), shared=True)
    fx.pgmat(); fx.gmat(); fx.gpmod(); fx.gpmod(fx.u_nz); fx.bvmat()
    before = fx.input_state()
    P = f"{cn}.{fac}:"
    L = fam_L(fam, fx, fac, opt)

    def untouched(when):
        now = dict(fx.input_state())
        ref = dict(before, **fx.pristine_args())
        bad = first_difference_(ref, now)
        require(bad is None, P + "input-mutated:" + str(bad), f"{when}: the factory's input '{bad}' was changed "
                f"(before {FX._cp(ref.get(bad)) if bad else None!r}, after {now.get(bad)!r})", case)

    def build(c, e, kk):
        common = dict(space_kwargs(e, N0, kk), **eval_kwargs(DEFAULT_CFG, L, fx.wts)[0])
        return fam.build_factory(c, e, fx, fac, opt, common)

    p1, exps, d = build(cls, enc, k)
    ctx.transitions += 1
    if p1 is None:
        return
    ctx.count("layer:factory-sharing")
    ctx.evaluations += 1
    untouched("after the first build")
    data1 = {e.attr: FX._cp(getattr(p1, e.attr)) for e in exps if e.how != "flag"}
    decs = []
    ans1 = {}
    if d is not None:
        decs = [x for kk, x, t in decisions_for(fam, enc, d["N"], d, ctx.tier) if kk == k][:40]
        for x in decs:
            xa = FX.to_array(enc, x)
            ans1[x] = (p1.latentfn(xa).tolist(), [aslist(v) for v in p1.evalfn(xa)])
        ctx.transitions += 2 * len(decs)
        untouched("after evaluating the first problem")
    # (ii) further builds from the same inputs
    others = [(cls, cn, enc, k)]
    encs = [e for e in FM.ENCS if e in fam.classes and e != enc]
    if encs:
        e2 = encs[0]
        k2 = k if e2 != "subset" and enc != "subset" else (min(2, N0) if e2 == "subset" else N0)
        if hasattr(fam, "kmin"):
            k2 = max(k2, opt.get("nbest", 1))
        others.append((FM.load(fam.module, fam.classes[e2]), fam.classes[e2], e2, k2))
    for c2, cn2, e2, k2 in others:
        p2, exps2, d2 = build(c2, e2, k2)
        ctx.transitions += 1
        ctx.evaluations += 1
        if p2 is None:
            continue
        for e in exps2:
            try:
                check_attr(cn2, fac, p2, e, case)
            except Violation as v:
                raise Violation(v.sig + ":second-build-from-same-inputs", v.detail, v.case)
        untouched(f"after building a second problem ({cn2})")
    # (iii) the first problem is unchanged
    for a, v in data1.items():
        now = getattr(p1, a)
        ok = same(numpy.asarray(now), numpy.asarray(v)) if isinstance(v, numpy.ndarray) else now == v
        require(ok, P + "aliasing:data-changed-after-second-build:" + a,
                f"attribute {a} of the first problem changed from {numpy.asarray(v).tolist()} to {numpy.asarray(now).tolist()} when further "
                f"problems were built from the same input objects", case)
    for x in decs:
        xa = FX.to_array(enc, x)
        now = (p1.latentfn(xa).tolist(), [aslist(v) for v in p1.evalfn(xa)])
        require(identical(now[0], ans1[x][0]) and all(identical(u, w) for u, w in zip(now[1], ans1[x][1])),
                P + "aliasing:answers-changed-after-second-build",
                f"first problem: latentfn/evalfn({jx(x)}) was {ans1[x]} and is {now} after further problems were built from the same inputs",
                dict(case, x=jx(x)))
    ctx.transitions += 2 * len(decs)
    ctx.traces += 1
    ctx.state(digest((cn, fx.key(), fac, sorted(opt.items()), "sharing", k)))
    if tuple(perm) != tuple(range(n)):
        ctx.flag("sharing-on-permuted-population")


def first_difference_(a, b):
    return FX.first_difference(a, b)


def expected_space(fam, fx, fac, opt):
    if isinstance(fam, FM.MateValueFamily):
        return len(R.cross_map(fx.n, opt.get("nparent", 2), opt.get("unique", True)))
    return fx.n


def fam_L(fam, fx, fac, opt):
    if isinstance(fam, FM.OCS):
        return 1 + FX.T
    if isinstance(fam, (FM.MGR,)):
        return 1
    if isinstance(fam, FM.FAMILY):
        return FX.T + len(set(fx.grp))
    if isinstance(fam, FM.MOGS):
        return 2 * FX.T
    return FX.T


# ----------------------------------------------------------------------------------------------------------
def embv_factory(ctx, fam, cls, cn, enc, fx, case):
    """EMBV factories simulate progeny: the generator is scripted (every crossover answer of every gamete is a choice
    point; all executions with <= 1 non-default answer are run) and every mate() call of the factory is recorded.
    Reference: for every cross of the problem's cross map, the mean over its nrep simulations of the largest progeny
    GEBV, progeny taken from the pedigree model of C01 under the same answers."""
    from ..env import ScriptedGenerator, MeiosisHandler
    from ..explore import explore
    from ..ref import mating as RM
    from pybrops.breed.prot.mate.TwoWayCross import TwoWayCross
    tier = ctx.tier
    xop = [0.5 if j == 0 else 0.2 for c in fx.chrom for j in range(c)]
    pg, gp = fx.pgmat(), fx.gpmod()
    from ..fix import snapshot as _snap, snap_equal as _sneq
    pg_before = _snap(pg)
    gp_before = {f_: FX._cp(getattr(gp, f_)) for f_ in ("beta", "u_a", "trait")}
    geno = A(fx.phased, "int8")
    for (nmating, nprogeny, nrep, uniq) in ((1, 1, 1, True), (1, 2, 2, True), (2, 1, 2, False)):
        if enc != "subset" and (nmating, nprogeny, nrep) == (2, 1, 2) and tier != "thorough":
            continue
        N0 = len(R.cross_map(fx.n, 2, uniq))
        k = 2 if enc == "subset" else N0
        common = dict(space_kwargs(enc, N0, k), **eval_kwargs(DEFAULT_CFG, FX.T, fx.wts)[0])
        c0 = dict(case, nmating=nmating, nprogeny=nprogeny, nrep=nrep, unique=uniq)

        def run(ch):
            h = MeiosisHandler(ch, xop, mode="full")
            log = []

            class Rec(TwoWayCross):
                def mate(self, pgmat, xconfig, nmating, nprogeny, miscout=None, **kw):
                    a = len(h.draws)
                    out = super().mate(pgmat=pgmat, xconfig=xconfig, nmating=nmating, nprogeny=nprogeny, miscout=miscout, **kw)
                    log.append((numpy.asarray(xconfig).tolist(), a, len(h.draws), nmating, nprogeny))
                    return out
            prob = cls.from_pgmat_gpmod(nparent=2, nmating=nmating, nprogeny=nprogeny, nrep=nrep, unique_parents=uniq,
                                        pgmat=pg, gpmod=gp, mateprot=Rec(rng=ScriptedGenerator(h)), **common)
            return prob, h, log

        bound = 1 if (nprogeny * nmating * nrep <= 2) else 0
        for ch, res in explore(lambda ch: guarded(ctx, run, ch, c0, cn), bound=bound, max_exec=400):
            if res is None:
                break
            prob, h, log = res
            c1 = dict(c0, answers=[int(v) for v in ch.taken])
            ctx.evaluations += 1
            ctx.transitions += 1 + len(log)
            ctx.count("layer:factory")
            ctx.count(f"factory:EMBV.from_pgmat_gpmod")
            ctx.count("cls:" + cn)
            if tuple(fx.perm) != tuple(range(fx.n)):
                ctx.flag("factory-on-permuted-population")

            def oracle():
                rows = [tuple(int(v) for v in r) for r in numpy.asarray(prob.decn_space_xmap).tolist()]
                P = f"{cn}.from_pgmat_gpmod:data:"
                require(sorted(rows) == sorted(R.cross_map(fx.n, 2, uniq)), P + "decn_space_xmap", f"cross map {rows}", c1)
                per = {r: [] for r in rows}
                for xc, a, b, nm, npg in log:
                    require(len(xc) == 1 and tuple(xc[0]) in per and nm == nmating and npg == nprogeny, P + "embv:simulated-cross",
                            f"factory simulated cross {xc} with nmating={nm}, nprogeny={npg}; cross map {rows}", c1)
                    xo = [dd[2] for dd in h.draws[a:b]]
                    prog, _ = RM.simulate("TwoWayCross", geno, xc, nm, npg, 0, xo)
                    cnt = [[int(prog[0][i][l]) + int(prog[1][i][l]) for l in range(FX.M)] for i in range(prog.shape[1])]
                    g = R.gebv(cnt, fx.u, fx.beta)
                    per[tuple(xc[0])].append([max(r[t] for r in g) for t in range(FX.T)])
                require(all(len(v) == nrep for v in per.values()), P + "embv:replicates",
                        f"simulations per cross {[len(per[r]) for r in rows]}, nrep = {nrep}", c1)
                exp = [[sum(s[t] for s in per[r]) / nrep for t in range(FX.T)] for r in rows]
                got = numpy.asarray(prob.embv, dtype=float)
                require(got.shape == (len(rows), FX.T) and near(got.ravel().tolist(), [v for r in exp for v in r]), P + "embv",
                        lambda: f"embv = {got.tolist()}; mean over {nrep} simulation(s) of the best progeny GEBV per cross of {rows} = {exp}", c1)
                okb, fld = _sneq(pg_before, _snap(pg))
                require(okb, f"{cn}.from_pgmat_gpmod:input-mutated:pgmat." + str(fld), f"the factory changed field {fld} of the genotype matrix", c1)
                for f_, v_ in gp_before.items():
                    require(same(getattr(gp, f_), v_), f"{cn}.from_pgmat_gpmod:input-mutated:gpmod." + f_, f"the factory changed {f_} of the model", c1)
                return exp
            got = []
            if ctx.guard(lambda: got.append(oracle()), case=c1, sig_prefix=f"{cn}.from_pgmat_gpmod:"):
                ctx.traces += 1
                ctx.outcome(digest(("EMBV", got[0])))
            ctx.state(digest((cn, fx.key(), "embv", nmating, nprogeny, nrep, uniq, tuple(ch.taken))))
        if explore.capped:
            ctx.capped.append("EMBV factory answer enumeration cap (400 executions)")


def guarded(ctx, run, ch, case, cn):
    out = []
    ok = ctx.guard(lambda: out.append(run(ch)), case=dict(case, answers=list(ch.prefix)), sig_prefix=f"{cn}.from_pgmat_gpmod:")
    return out[0] if ok else None


# ----------------------------------------------------------------------------------------------------------
# the two value-matrix factories among the property's anchors (model/embvmat, model/wgebvmat)
COUNT_FORMS = {2: [1, 2, [1, 2], [2, 1]], 3: [1, 2, [2, 1, 2], [1, 2, 1], [2, 1, 1]]}


def run_matrix(ctx, n, variant, focus=None):
    """DenseExpectedMaximumBreedingValueMatrix.from_gmod with nprogeny / nrep given as scalars AND as per-taxon arrays
    with unequal entries, under the scripted generator (every crossover answer of every DH gamete is a choice point;
    all executions with <= 1 non-default answer, <= 2 at the smallest scope in the thorough tier).  Oracle: EMBV of
    taxon i = mean over ITS OWN nrep[i] replicates of the best of its nprogeny[i] DH progeny GEBVs, progeny from the
    pedigree model (mc.ref.mating.meiosis) under the same answers; labels in population order; inputs untouched.
    DenseWeightedGenomicEstimatedBreedingValueMatrix.from_algmod: values in the population's taxon order."""
    from ..env import ScriptedRandomState, MeiosisHandler
    from ..explore import explore
    from ..ref import mating as RM
    from ..fix import snapshot, snap_equal
    from pybrops.model.embvmat.DenseExpectedMaximumBreedingValueMatrix import DenseExpectedMaximumBreedingValueMatrix as EM
    emod = importlib.import_module("pybrops.model.embvmat.DenseExpectedMaximumBreedingValueMatrix")
    tier = ctx.tier
    perms = list(itertools.permutations(range(n)))
    if n == 3 and tier == "quick":
        perms = [perms[0], perms[3], perms[5]]
    forms = COUNT_FORMS[n]
    base = dict(spec=["matrix", n, variant], stage="matrix")
    for perm in perms:
        fx = Fx(n, variant, ctx.seed, perm=perm)
        pg, gp = fx.pgmat(), fx.gpmod()
        geno = A(fx.phased, "int8")
        xop = [0.5 if j == 0 else 0.2 for c in fx.chrom for j in range(c)]
        own = R.gebv(fx.counts, fx.u, fx.beta)
        homoz = [all(fx.phased[0][i][l] == fx.phased[1][i][l] for l in range(FX.M)) for i in range(n)]
        for fi, (npg, nrp) in enumerate(itertools.product(forms, forms)):
            if focus and (focus.get("fi") not in (None, fi) or (focus.get("perm") is not None and list(perm) != list(focus["perm"]))):
                continue
            npl = [npg] * n if isinstance(npg, int) else list(npg)
            nrl = [nrp] * n if isinstance(nrp, int) else list(nrp)
            cells = sum(a * b for a, b in zip(npl, nrl)) * FX.M
            bound = 2 if (tier == "thorough" and cells <= 16) else 1
            if not isinstance(npg, int) or not isinstance(nrp, int):
                ctx.flag("matrix:per-taxon-array-counts")
            if any(b < max(nrl[:i + 1]) for i, b in enumerate(nrl)):
                ctx.flag("matrix:nrep-decreasing-along-taxa")
            c0 = dict(base, fixture=fx.key(), perm=list(perm), fi=fi, nprogeny=npg, nrep=nrp)

            def run(ch):
                h = MeiosisHandler(ch, xop, mode="full")
                before = snapshot(pg)
                old = emod.global_prng
                emod.global_prng = ScriptedRandomState(h)
                try:
                    out = EM.from_gmod(gmod=gp, pgmat=pg,
                                       nprogeny=npg if isinstance(npg, int) else A(npg, "int64"),
                                       nrep=nrp if isinstance(nrp, int) else A(nrp, "int64"))
                finally:
                    emod.global_prng = old
                return out, h, before

            def guarded_run(ch):
                res = []
                ok = ctx.guard(lambda: res.append(run(ch)), case=dict(c0, answers=list(ch.prefix)),
                               sig_prefix="DenseExpectedMaximumBreedingValueMatrix.from_gmod:")
                return res[0] if ok else None

            for ch, res in explore(guarded_run, bound=bound, max_exec=4000):
                ctx.evaluations += 1
                ctx.transitions += 1
                ctx.count("layer:matrix-factory")
                ctx.count("matrix:DenseExpectedMaximumBreedingValueMatrix.from_gmod")
                if res is None:
                    break
                out, h, before = res
                c1 = dict(c0, answers=[int(v) for v in ch.taken])

                def oracle():
                    P = "DenseExpectedMaximumBreedingValueMatrix.from_gmod:"
                    want = [(npl[i], FX.M) for i in range(n) for _ in range(nrl[i])]
                    got_shapes = [tuple(d[0]) for d in h.draws]
                    require(got_shapes == want, P + "simulations",
                            f"gamete draws {got_shapes}; nrep[i] replicates of nprogeny[i] DH progeny per taxon need {want}", c1)
                    it = iter(h.draws)
                    exp = []
                    for i in range(n):
                        reps = []
                        for _ in range(nrl[i]):
                            shp, vals, xo = next(it)
                            gam = RM.meiosis(geno, [i] * npl[i], xo)
                            reps.append([[2 * int(v) for v in row] for row in gam.tolist()])
                        exp.append(R.embv_of_taxon(reps, fx.u, fx.beta))
                    val = numpy.asarray(out.unscale(), dtype=float)
                    require(val.shape == (n, FX.T) and near(val.ravel().tolist(), [v for r in exp for v in r]), P + "data:embv",
                            lambda: f"EMBV (unscaled) = {val.tolist()} with nprogeny={npg}, nrep={nrp}; mean over each taxon's own "
                                    f"replicates of its best DH progeny GEBV = {exp}", c1)
                    for i in range(n):
                        if homoz[i]:
                            require(near(val[i].tolist(), own[i]), P + "data:embv:inbred",
                                    f"taxon {i} is completely homozygous: all its DH progeny equal it, EMBV must be its GEBV {own[i]}, "
                                    f"got {val[i].tolist()}", c1)
                            ctx.flag("matrix:inbred-taxon")
                    require(same(out.taxa, numpy.array(fx.taxa, dtype=object)) and same(out.taxa_grp, A(fx.grp, "int64")), P + "data:labels",
                            f"taxa {out.taxa} / taxa_grp {out.taxa_grp} are not the population's {fx.taxa} / {fx.grp}", c1)
                    okb, fld = snap_equal(before, snapshot(pg))
                    require(okb, P + "input-mutated:" + str(fld), f"from_gmod changed field {fld} of the genotype matrix", c1)
                    return exp
                got = []
                if ctx.guard(lambda: got.append(oracle()), case=c1, sig_prefix="DenseExpectedMaximumBreedingValueMatrix.from_gmod:"):
                    ctx.traces += 1
                    ctx.outcome(digest(("EMBVmat", got[0])))
                key = digest(("EMBVmat", fx.key(), npg, nrp, tuple(ch.taken)))
                ctx.state(key)
                if ch.deviations or len(set(nrl)) > 1 or len(set(npl)) > 1:
                    ctx.nontriv(key)
            if explore.capped:
                ctx.capped.append("EMBV matrix answer enumeration cap (4000 executions)")
        # ---- weighted GEBV matrix
        if focus and focus.get("fi") is not None:
            continue
        from pybrops.model.wgebvmat.DenseWeightedGenomicEstimatedBreedingValueMatrix import DenseWeightedGenomicEstimatedBreedingValueMatrix as WM
        for phased in (True, False):
            for u in (fx.u, fx.u_nz):
                fa = R.fav_allele_freq(fx.counts, 2, u)
                c2 = dict(base, fixture=fx.key(), perm=list(perm), phased=phased, stage="matrix-wgebv")
                if any(f == 1 for r in fa for f in r):
                    ctx.count("skipped-invalid:favourable-allele-fixed")      # weight is 0/0 there: outside the criterion's domain
                    continue
                ctx.evaluations += 1
                ctx.transitions += 1
                ctx.count("layer:matrix-factory")
                ctx.count("matrix:DenseWeightedGenomicEstimatedBreedingValueMatrix.from_algmod")

                def oracle2():
                    P = "DenseWeightedGenomicEstimatedBreedingValueMatrix.from_algmod:"
                    gm = fx.pgmat() if phased else fx.gmat()
                    before = snapshot(gm)
                    out = WM.from_algmod(algmod=fx.gpmod(u), gmat=gm)
                    exp = R.wgebv_arcsine(fx.counts, u, fa)
                    val = numpy.asarray(out.unscale(), dtype=float)
                    require(val.shape == (n, FX.T) and near(val.ravel().tolist(), [v for r in exp for v in r]), P + "data:wgebv",
                            lambda: f"wGEBV (unscaled) = {val.tolist()}, definition in the population's taxon order = {exp}", c2)
                    require(same(out.taxa, numpy.array(fx.taxa, dtype=object)) and same(out.taxa_grp, A(fx.grp, "int64")), P + "data:labels",
                            f"taxa {out.taxa} / taxa_grp {out.taxa_grp} are not the population's", c2)
                    okb, fld = snap_equal(before, snapshot(gm))
                    require(okb, P + "input-mutated:" + str(fld), f"from_algmod changed field {fld} of the genotype matrix", c2)
                if ctx.guard(oracle2, case=c2, sig_prefix="DenseWeightedGenomicEstimatedBreedingValueMatrix.from_algmod:"):
                    ctx.traces += 1
                ctx.state(digest(("WGEBVmat", fx.key(), phased, u)))



# ----------------------------------------------------------------------------------------------------------
# data that a factory builds in memory chunks (OHV: mem = 1024 rows per chunk): chunk arithmetic at small scale through
# the documented `mem` parameter, and the factories themselves on populations with more than 1024 crosses
LARGE_N = (45, 46, 47, 65)


class poisoned_empty:
    """While active, numpy.empty hands out NaN-filled float arrays: rows a library routine forgets to write are
    deterministic (uninitialised memory is unspecified, so this changes no specified behaviour)."""
    def __enter__(self):
        self._orig = numpy.empty
        orig = self._orig

        def empty(*a, **k):
            arr = orig(*a, **k)
            if arr.dtype.kind == "f":
                arr.fill(numpy.nan)
            return arr
        numpy.empty = empty
        return self

    def __exit__(self, *exc):
        numpy.empty = self._orig
        return False


def run_chunks(ctx, n, variant, focus=None):
    """OptimalHaploidValue*._calc_ohvmat(ploidy, haplomat, xmap, mem) for every chunk size mem in {None, 1..nconfig+1, 1024}:
    every row = ploidy * sum over blocks of the best block value among the cross' parents and phases."""
    fam = FM.BY_NAME["OHV"]
    for lay, nb in (("2x2", 2), ("1x4", 4)):
        fx = Fx(n, variant, ctx.seed, layout=lay)
        hv = R.block_values(fx.phased, fx.u, fx.blocks(nb))
        hm = A([[[[float(v) for v in b] for b in i] for i in ph] for ph in hv])
        for enc in FM.ENCS:
            cn = fam.classes[enc]
            cls = FM.load(fam.module, cn)
            for npar, uniq in ((2, True), (2, False), (3, False)):
                rows = R.cross_map(n, npar, uniq)
                exp = [[float(v) for v in R.ohv_of_cross(hv, r)] for r in rows]
                flat = [v for r in exp for v in r]
                for mem in [None] + list(range(1, len(rows) + 2)) + [1024]:
                    case = dict(spec=["chunks", n, variant], stage="chunks", cls=cn, layout=lay, nhaploblk=nb, nparent=npar, unique=uniq, mem=mem,
                                fixture=fx.key())
                    if focus and (focus.get("cls") not in (None, cn) or focus.get("mem", mem) != mem):
                        continue
                    ctx.evaluations += 1
                    ctx.transitions += 1
                    ctx.count("layer:chunks")
                    ctx.count("cls:" + cn)
                    if mem is not None and mem < len(rows) and len(rows) % mem:
                        ctx.flag("chunks:partial-last-chunk")

                    def go():
                        with poisoned_empty():
                            got = cls._calc_ohvmat(ploidy=2, haplomat=hm.copy(), xmap=A(rows, "int64"), mem=mem)
                        g = numpy.asarray(got, dtype=float)
                        require(g.shape == (len(rows), FX.T) and near(g.ravel().tolist(), flat), "OptimalHaploidValueSelectionProblemMixin._calc_ohvmat:rows",
                                lambda: f"mem={mem}, {len(rows)} crosses: ohvmat = {g.tolist()}, definition = {exp}", case)
                    if ctx.guard(go, case=case, sig_prefix="OptimalHaploidValueSelectionProblemMixin._calc_ohvmat:"):
                        ctx.traces += 1
                    ctx.state(digest(("chunks", cn, fx.key(), nb, npar, uniq, mem)))


def big_population(n, seed):
    """n taxa x 4 markers, deterministic non-periodic genotypes; same marker layout / model as the small fixtures."""
    from pybrops.popgen.gmat.DensePhasedGenotypeMatrix import DensePhasedGenotypeMatrix
    fx = Fx(3, 0, seed)
    phased = [[[1 if ((i * 7 + l * 3 + ph * 5 + (i * i) // 3 + (i // 5) * l) % 5) < 2 else 0 for l in range(FX.M)] for i in range(n)]
              for ph in range(2)]
    pg = DensePhasedGenotypeMatrix(mat=A(phased, "int8"), taxa=numpy.array([f"L{(i * 37) % n:03d}" for i in range(n)], dtype=object),
                                   taxa_grp=A([i % 7 for i in range(n)], "int64"), **fx._vrnt())
    pg.group_vrnt()
    return fx, phased, pg


def run_large(ctx, n, focus=None):
    """OHV factories on a population with ~1000-2000 crosses (around and beyond the 1024-row chunk): EVERY row of ohvmat
    against the definition, latentfn on decisions that touch the first rows, the rows around the chunk boundaries and
    the last rows."""
    fam = FM.BY_NAME["OHV"]
    fx, phased, pg = big_population(n, ctx.seed)
    hv = R.block_values(phased, fx.u, fx.blocks(2))
    ctx.bounds.update({"large_population_taxa": list(LARGE_N)})
    for uniq in (True, False):
        want = R.cross_map(n, 2, uniq)
        N0 = len(want)
        for enc in FM.ENCS:
            cn = fam.classes[enc]
            if focus and focus.get("cls") not in (None, cn):
                continue
            cls = FM.load(fam.module, cn)
            k = 3 if enc == "subset" else N0
            case = dict(spec=["large", n], stage="large", cls=cn, enc=enc, unique=uniq, ncross=N0)
            common = dict(space_kwargs(enc, N0, k), **eval_kwargs(DEFAULT_CFG, FX.T, fx.wts)[0])
            built = []

            def go():
                with poisoned_empty():
                    built.append(cls.from_pgmat_gpmod(nparent=2, nhaploblk=2, unique_parents=uniq, pgmat=pg, gpmod=fx.gpmod(), **common))
            ctx.evaluations += 1
            ctx.transitions += 1
            ctx.count("layer:large")
            ctx.count("cls:" + cn)
            if N0 > 1024 and N0 % 1024:
                ctx.flag("large:more-than-one-chunk-with-partial-tail")
            if not ctx.guard(go, case=case, sig_prefix=f"{cn}.from_pgmat_gpmod:"):
                continue
            prob = built[0]

            def data():
                rows = _rows(prob)
                P = f"{cn}.from_pgmat_gpmod:data:"
                require(sorted(rows) == sorted(want), P + "decn_space_xmap", f"{len(rows)} cross-map rows, {N0} crosses exist", case)
                exp = [[float(v) for v in R.ohv_of_cross(hv, r)] for r in rows]
                got = numpy.asarray(prob.ohvmat, dtype=float)
                require(got.shape == (N0, FX.T), P + "ohvmat", f"ohvmat shape {got.shape}", case)
                bad = [i for i in range(N0) if not near(got[i].tolist(), exp[i])]
                require(not bad, P + "ohvmat", lambda: f"{len(bad)} of {N0} rows differ from the definition, first row {bad[0]} (cross {rows[bad[0]]}): "
                        f"{got[bad[0]].tolist()} vs {exp[bad[0]]}; last differing row {bad[-1]}", case)
                return exp
            res = []
            if not ctx.guard(lambda: res.append(data()), case=case, sig_prefix=f"{cn}.from_pgmat_gpmod:"):
                continue
            ctx.traces += 1
            exp = res[0]
            d = {"values": exp, "N": N0}
            hot = sorted({i for i in (0, 1, 1022, 1023, 1024, 1025, 2047, 2048, N0 - 3, N0 - 2, N0 - 1) if 0 <= i < N0})
            if enc == "subset":
                decs = [(a, b, c) for a in hot[-3:] for b in hot[:2] for c in hot[2:5] if len({a, b, c}) == 3] + [tuple(hot[-3:])]
            else:
                decs = []
                for a, b in itertools.combinations(hot, 2):
                    v = [0] * N0
                    v[a], v[b] = (1, 1) if enc == "binary" else (2, 1)
                    decs.append(tuple(FX.GRID[1] * t for t in v) if enc == "real" else tuple(v))
            for x in decs:
                c2 = dict(case, xnz=[[i, float(v)] for i, v in enumerate(x) if v] if enc != "subset" else list(x))
                ctx.evaluations += 1
                if ctx.guard(lambda: check_latent(ctx, fam, d, FX.T, cn, prob, enc, x, "", c2), case=c2, sig_prefix=cn + ".latentfn:"):
                    ctx.traces += 1
                ctx.count("layer:large-latent")
            ctx.state(digest(("large", cn, n, uniq)))
            ctx.outcome(digest(("large", n, uniq, exp[-1])))


def _rows(prob):
    return [tuple(int(v) for v in r) for r in numpy.asarray(prob.decn_space_xmap).tolist()]



# ----------------------------------------------------------------------------------------------------------
# large decisions: latent functions accumulate over the selected individuals / crosses / markers -- 130 taxa with int8
# genotypes (one locus fixed for 2, one almost fixed), selections of 63..129 members (allele-count sums pass 127 and 255)
BIG_N = 130
BIG_K = (63, 64, 65, 127, 128, 129)


class BigFx(Fx):
    def __init__(self, seed, layout="2x2"):
        n = BIG_N
        self.n, self.variant, self.seed, self.layout = n, "big", seed % 3, layout
        self.perm = tuple(range(n))
        self.shared, self._objs, self._args = False, {}, {}

        def cnt(i, l):
            if l == 1:
                return 2                                   # fixed for the counted allele
            if l == 0:
                return 0 if i % 29 == 0 else 1 if i % 13 == 0 else 2     # almost fixed
            return (i * (3 + l) + (i * i) // 7 + l) % 3
        self.counts = [[cnt(i, l) for l in range(FX.M)] for i in range(n)]
        self.phased = [[[1 if self.counts[i][l] > ph else 0 for l in range(FX.M)] for i in range(n)] for ph in range(2)]
        self.taxa = [f"B{(i * 37) % n:03d}" for i in range(n)]
        self.grp = [(i * 5) % 7 for i in range(n)]
        self.bv = [[((i * 5 + 3 * t + self.seed * 7) % 11) * 0.5 - 2.0 + (0.125 if i % 9 == 1 else 0.0) for t in range(FX.T)] for i in range(n)]
        self.u = [list(r) for r in FX.U[self.seed]]
        self.u_nz = [[v if v != 0.0 else 0.75 for v in r] for r in self.u]
        self.beta = list(FX.BETA[self.seed])
        self.loc, self.scale = FX.LOCSCALE[self.seed]
        self.tfreq = [list(r) for r in FX.TFREQ[self.seed]]
        self.mkrwt = [[abs(v) for v in r] for r in self.u]
        self.wts = FX.WEIGHTS[self.seed]
        self.chrom = FX.LAYOUTS[layout]
        v = [((i * 7) % 5 - 2) / 4 for i in range(n)]
        self.kgen = [[(1.0 if i == j else 0.0) + 0.5 * v[i] * v[j] + (0.125 if abs(i - j) == 1 else 0.0) for j in range(n)] for i in range(n)]
        self.kgen2 = [[(2.0 if i == j else 0.0) + 0.25 * v[i] * v[j] + (0.25 if abs(i - j) == 2 else 0.0) for j in range(n)] for i in range(n)]

    def key(self):
        return dict(n=self.n, variant="big", seed=self.seed, layout=self.layout)


BIG_OPT = {"UC": {"unique": True}, "OHV": {"unique": True}, "EMBV": {"unique": True}, "OCS": {"K": "generic"}, "MGR": {"K": "generic"},
           "MEH": {"K": "generic"}, "OPV": {"layout": "2x2", "nhaploblk": 2}, "GenotypeBuilder": {"layout": "2x2", "nhaploblk": 2, "nbest": 2}}


def run_bigdecision(ctx, fname, focus=None):
    fam = FM.BY_NAME[fname]
    fx = BigFx(ctx.seed)
    opt = BIG_OPT.get(fname, {})
    U = Unit(fam, fx, opt, ctx.tier)
    if fname == "L2":
        U.d = {"Ks": [fx.kgen, fx.kgen2], "N": fx.n}
    N = U.N
    order = [(i * 37) % N for i in range(N)] if N == BIG_N else [(i * 1237) % N for i in range(N)]
    assert len(set(order[:max(BIG_K)])) == max(BIG_K)
    cfg = ("sum", "user", "dot", 5)
    ctx.bounds.update({"big_decision_taxa": BIG_N, "big_decision_sizes": list(BIG_K)})
    for enc in [e for e in FM.ENCS if e in fam.classes]:
        cn = fam.classes[enc]
        if focus and focus.get("cls") not in (None, cn):
            continue
        for k in BIG_K:
            if focus and focus.get("k") not in (None, k):
                continue
            mem = order[:k]
            if enc == "subset":
                x = tuple(mem)
            else:
                v = [0] * N
                for i in mem:
                    v[i] = 1
                if enc == "integer":
                    v[mem[0]] = 2
                x = tuple(FX.GRID[1] * t for t in v) if enc == "real" else tuple(v)
            kk = k if enc == "subset" else N
            case = dict(spec=["bigdecision", fname], stage="bigdecision", cls=cn, enc=enc, k=k, family=fname)
            ctx.evaluations += 1
            ctx.count("layer:big-decision")
            ctx.count("cls:" + cn)
            ctx.count("enc:" + enc)
            built = []
            if not ctx.guard(lambda: built.append(U.build(enc, kk, cfg)), case=case, sig_prefix=cn + ".__init__:"):
                continue
            prob, spec = built[0]
            ctx.transitions += 1
            got = []
            if ctx.guard(lambda: got.append(check_latent(ctx, fam, U.d, U.L, cn, prob, enc, x, "", case)), case=case,
                         sig_prefix=definer(prob, "latentfn") + ".latentfn:"):
                ctx.traces += 1
                ctx.outcome(digest((fname, "big", [round(t, 9) for t in got[0]])))
            ctx.guard(lambda: check_eval(ctx, cn, prob, spec, enc, kk, [x], case, None), case=case, sig_prefix=definer(prob, "evalfn") + ".evalfn:")
            key = digest((cn, "big", enc, k))
            ctx.state(key)
            ctx.nontriv(key)



# ----------------------------------------------------------------------------------------------------------
def run_discover(ctx):
    found, failed = discover()
    table = table_classes()
    for m, err in failed:
        ctx.violation(f"import:{m}", err, dict(spec=["discover"], module=m))
    for nme in sorted(found):
        ctx.count("discovered")
        if nme in table:
            ctx.flag("covered:" + nme)
        elif nme in FM.NOT_DRIVEN:
            ctx.flag(f"uncovered:{nme} ({FM.NOT_DRIVEN[nme]})")
            ctx.count("uncovered")
        else:
            ctx.flag(f"uncovered:{nme} (no fixture in the C05 family table)")
            ctx.count("uncovered")
            ctx.count("uncovered-unknown")
    for nme in sorted(table):
        if nme not in found:
            ctx.violation(f"{nme}:missing", "class of the C05 family table is not a concrete SelectionProblem of the package any more",
                          dict(spec=["discover"], cls=nme))
    # the one class that is 'under construction' must indeed refuse to score (otherwise it should be driven)
    ctx.evaluations += 1
    ctx.state(digest(("discover", sorted(found))))


def run_shard(spec, ctx, focus=None):
    kind = spec[0]
    if kind == "discover":
        run_discover(ctx)
    elif kind == "ctor":
        run_ctor(ctx, *spec[1:], focus=focus)
    elif kind == "factory":
        run_factory(ctx, *spec[1:], focus=focus)
    elif kind == "matrix":
        run_matrix(ctx, *spec[1:], focus=focus)
    elif kind == "large":
        run_large(ctx, *spec[1:], focus=focus)
    elif kind == "chunks":
        run_chunks(ctx, *spec[1:], focus=focus)
    elif kind == "bigdecision":
        run_bigdecision(ctx, *spec[1:], focus=focus)
    else:
        raise KeyError(kind)


def finalize(ctx, tier, seed):
    c, f = ctx.counters, ctx.flags
    table = table_classes()
    assert c.get("discovered", 0) >= 60, c.get("discovered")
    for cn in table:
        assert c.get("cls:" + cn, 0) > 0, f"class never exercised: {cn}"
    for enc in FM.ENCS:
        assert c.get("enc:" + enc, 0) > 0, enc
    for lay in ("definition", "agreement", "evalfn", "evaluate", "factory", "factory-latent", "history", "set-then-query", "matrix-factory", "factory-sharing", "chunks", "large", "large-latent", "big-decision"):
        assert c.get("layer:" + lay, 0) > 0, lay
    for k in ("perm", "rescale", "encoding"):
        assert c.get("agree:" + k, 0) > 0, k
    for pair in ("binary-integer", "binary-real", "binary-subset", "integer-real", "integer-subset", "real-subset"):
        assert "agree:" + pair in f, pair
    for fl in ("subset-with-repeated-member", "real-vector-with-sum<1", "factory-on-permuted-population"):
        assert fl in f, fl
    for blk, kinds in (("obj", FX.OBJ_KINDS), ("ineqcv", FX.INEQ_KINDS), ("eqcv", FX.EQ_KINDS)):
        for kd in kinds:
            assert f"trans:{blk}:{kd}" in f, (blk, kd)
        for form in ("none", "scalar", "array"):
            assert f"wtform:{blk}:{form}" in f, (blk, form)
    for blk in ("ineqcv", "eqcv"):
        assert f"block:{blk}:empty" in f and f"block:{blk}:nonempty" in f
    for fam in FM.FAMILIES:
        for enc in fam.classes:
            for fac, _ in fam.factories(enc, tier):
                assert c.get(f"factory:{fam.name}.{fac}", 0) > 0, (fam.name, fac)
    for fl in ("chunks:partial-last-chunk", "large:more-than-one-chunk-with-partial-tail"):
        assert fl in f, fl
    for fl in ("matrix:per-taxon-array-counts", "matrix:nrep-decreasing-along-taxa", "matrix:inbred-taxon"):
        assert fl in f, fl
    for m_ in ("DenseExpectedMaximumBreedingValueMatrix.from_gmod", "DenseWeightedGenomicEstimatedBreedingValueMatrix.from_algmod"):
        assert c.get("matrix:" + m_, 0) > 0, m_
    assert len(ctx.outcomes) > 200, len(ctx.outcomes)
    assert len(ctx.nontrivial) > 200, len(ctx.nontrivial)


def replay(case, ctx):
    spec = tuple(case["spec"])
    st = case.get("stage")
    focus = {"stage": {"latent": "latent", "agree": "agree", "eval": "eval", "construct": "latent", "history": "history"}.get(st, st)}
    for k in ("enc", "enc2", "xs", "cfg", "k", "fi", "perm", "cls", "mem"):
        if k in case:
            focus[k] = case[k]
    if "xs" not in focus and "x" in case:
        focus["xs"] = [case["x"]]
    if st == "construct":
        focus.pop("xs", None)
    if st in ("factory",):
        focus.pop("xs", None)
    if spec[0] == "discover":
        run_discover(ctx)
        return
    run_shard(spec, ctx, focus=focus)
