"""C07 — selection protocols turn criteria into valid, correct cross configurations.

Part A  the eight SelectionConfiguration classes' sample_xconfig() with the sampling generator scripted:
        every answer of tiled_choice / stochastic_universal_sampling / outcross_shuffle / axis_shuffle
        enumerated (stateless DFS with prefix replay) for all decisions and cross designs in scope.
Part B  every concrete protocol class found by introspection of pybrops.breed.prot.sel: select() on tiny
        populations (all weak orderings of the criterion, permuted / relabelled populations) with EXACT
        single-objective optimisers (the library's sorting optimiser and harness-side brute force through
        the public OptimizationAlgorithm interface), and with a stub multi-objective optimiser returning a
        GIVEN non-dominated set so that the choice rule argmax(ndset_wt * ndset_trans(front)) is tested alone.
"""
from __future__ import annotations
import importlib, inspect, itertools, pkgutil
import numpy

from .. import compat  # noqa: F401
from ..core import Violation, require, digest, close
from ..env import UnscriptedDraw, TWO53
from ..explore import explore, Chooser
from ..fix import prov_pgmat
from ..ref import selection as R

ID = "C07"
TECHNIQUE = ("exhaustive small-scope enumeration of decisions x cross designs x every answer of the scripted sampling "
             "generator (stateless DFS with prefix replay) on the real configuration classes, and of populations x "
             "criterion orderings x designs on every introspected protocol class with exact optimisers / a given-front "
             "stub, against independent multiplicity / local-minimum / best-k / equivariance definitions")
RULE = ("Part A: one execution = one (configuration class, decision vector, cross map, ncross, nparent, generator kind, "
        "answer vector of every choice()/shuffle()/uniform() draw) through the real constructor + sample_xconfig(); "
        "answers: tiling remainder choice = every sub-multiset by value (its order is immaterial: the only consumer "
        "shuffles the result exhaustively next), 1-D shuffle = every distinct arrangement, exchange-order shuffle = one "
        "representative per behaviour class (which improving exchange is met first; all of them), final within-cross "
        "shuffles = full product up to 4 slots, at 6 slots every cross fully enumerated in turn (others default), SUS "
        "offset = 8 reachable values incl. both extremes (4 at 6 slots).  Part B: one execution = one select() on "
        "(protocol class, population size, criterion ordering = every weak ordering, population order/labels, design, "
        "weight sign, optimiser, class parameters, sampling answers: default + all single deviations on every 13th/29th "
        "case).  Part H (setter histories on one object): protocol built with design A, optionally select() once, the "
        "design re-assigned through the public setters ncross/nparent/nmating/nprogeny in every order (all four, or only "
        "the changed ones), select(): must equal a FRESH protocol of design B (decision, configuration, counts) under "
        "the same optimiser and generator answers; likewise the eight configuration classes (ncross/nparent/nmating/"
        "nprogeny/xconfig_decn/xconfig_xmap in every order their validating setters admit, then sample_xconfig()).  "
        "Non-trivial = >=2 slots and >=2 candidate units; distinct by digest of (class, inputs, answers)")
ASSUME = ["numpy generators can return every sample / permutation / uniform(0,d)=d*j*2^-53 that the script injects",
          "mc/compat.py restores removed numpy names only",
          "exchange-order answers are grouped by the first improving exchange (sound for the loop as written: it accepts "
          "the first improving exchange of the shuffled order and ignores the rest); the harness mirrors the accepted "
          "exchange on its own copy of the table only to build the next menu, never to judge",
          "criteria whose definition belongs to other properties (UC, kinship-based, allele-frequency based, OPV, "
          "genotype builder, family shares) are taken from the library's own problem posed on the canonically ordered "
          "population (equivariance oracle); EBV / GEBV / wGEBV / random / OHV (single-marker blocks) criteria are "
          "computed independently; EMBV (simulation based) gets the validity oracle only",
          "brute-force optimisers scan integer boxes clipped to [lower, lower+2] and real boxes on the grid {0,1/2,1}: exact "
          "for the ratio-type criteria of the truncation protocols, a bounded scope for the others",
          "'within one of the proportional share' is read literally (|count - share| <= 1); floor/ceil is C17's business"]

# --------------------------------------------------------------------------------------
CFG = {
    # key: (module/class name, encoding, mate?)
    "Subset": ("SubsetSelectionConfiguration", "subset", False),
    "Integer": ("IntegerSelectionConfiguration", "integer", False),
    "Binary": ("BinarySelectionConfiguration", "binary", False),
    "Real": ("RealSelectionConfiguration", "real", False),
    "SubsetMate": ("SubsetMateSelectionConfiguration", "subset", True),
    "IntegerMate": ("IntegerMateSelectionConfiguration", "integer", True),
    "BinaryMate": ("BinaryMateSelectionConfiguration", "binary", True),
    "RealMate": ("RealMateSelectionConfiguration", "real", True),
}


def _cfg_cls(key):
    name = CFG[key][0]
    return getattr(importlib.import_module(f"pybrops.breed.prot.sel.cfg.{name}"), name)


_PG = {}


def _pgmat(seed):
    if seed not in _PG:
        _PG[seed] = prov_pgmat(10, (3,), [0.5, 0.25, 0.25], seed)[0]
    return _PG[seed]


SUBSET_LABELS = ((3, 0, 2, 5, 1, 8), (0, 1, 2, 3, 4, 5), (7, 4, 9, 1, 6, 2))
REAL_SCALE = (1.0, 0.25, 1.0 / 3.0)


def designs_A(tier, mate):
    if mate:
        return [1, 2, 3] + ([4] if tier == "thorough" else [])
    d = [(c, p) for c in (1, 2, 3) for p in (1, 2, 3, 4) if c * p <= 6]
    return d


CURATED6 = {   # quick tier, 6-slot designs: a covering list (tiling remainder 0 / >0, ties, zeros, unequal counts)
    "subset": [1, 2, 3],
    "integer": [[1, 2, 3], [2, 0, 1], [1, 1], [3, 1], [0, 2, 2]],
    "binary": [[1, 1, 1], [1, 0, 1, 1], [1, 1]],
    "real": [[1, 2, 3], [1, 1, 1], [0, 1, 2], [3, 1]],
}


def decisions_A(key, tier, seed, slots=1):
    """decision vectors (python lists) + dtype for non-mate classes; the 6-slot designs get the complete lists in the
    thorough tier and a curated covering list in the quick tier"""
    enc = CFG[key][1]
    T = tier == "thorough"
    big = slots >= 6
    out = []
    if enc == "subset":
        lab = SUBSET_LABELS[seed % 3]
        ks = CURATED6["subset"] if (big and not T) else (1, 2, 3, 4) + ((5, 6) if (T and big) else ((5,) if T else ()))
        for k in ks:
            out.append((list(lab[:k]), "int64"))
        if not big:
            out.append((sorted(lab[:3]), "int32"))
    elif enc == "binary":
        if big and not T:
            return [(v, "bool" if i % 2 else "int64") for i, v in enumerate(CURATED6["binary"])]
        for n in (1, 2, 3, 4):
            for v in itertools.product((0, 1), repeat=n):
                if any(v):
                    out.append((list(v), "bool" if (sum(v) + n) % 2 else "int64"))
    elif enc == "integer":
        if big and not T:
            return [(v, "int64") for v in CURATED6["integer"]]
        for n in (1, 2, 3):
            for v in itertools.product((0, 1, 2, 3), repeat=n):
                if any(v):
                    out.append((list(v), "int64"))
        if T and not big:
            for v in itertools.product((0, 1, 2), repeat=4):
                if any(v) and max(v) == 2:
                    out.append((list(v), "int64"))
    else:
        sc = REAL_SCALE[seed % 3]
        if big and not T:
            out = [([x * sc for x in v], "float64") for v in CURATED6["real"]]
            out.append(([1e-9, 1.0, 1e9], "float64"))
            return out
        for n in (1, 2, 3):
            for v in itertools.product((0, 1, 2, 3), repeat=n):
                if any(v) and numpy.gcd.reduce(v) == 1:
                    out.append(([x * sc for x in v], "float64"))
        out.append(([1e-9, 1.0, 1e9], "float64"))
        out.append(([1e9, 1e-9, 1.0, 1.0], "float64"))
        out.append(([0.1, 0.2, 0.3, 0.4], "float64"))
        if T and not big:
            for v in itertools.product((0, 1, 2), repeat=4):
                if any(v) and max(v) == 2 and numpy.gcd.reduce(v) == 1:
                    out.append(([x * sc for x in v], "float64"))
    return out


def sus_menu_A(tier, slots):
    """SUS offsets j (offset = d*j*2^-53): all eight, except four (mid, both extremes, a quarter) at 6 slots in the quick tier"""
    return R.SUS_J if (slots < 6 or tier == "thorough") else (2 ** 52, 0, TWO53 - 1, 2 ** 51)


def _estimate(enc, decn, c, p, noff):
    """rough number of executions of one unit (only used to balance shards)"""
    import math
    s = c * p
    if enc == "subset":
        cnt = [s // len(decn) + (1 if i < s % len(decn) else 0) for i in range(len(decn))]
        nch = math.comb(len(decn), s % len(decn))
    elif enc == "binary":
        k = sum(1 for v in decn if v)
        cnt = [s // k + (1 if i < s % k else 0) for i in range(k)]
        nch = math.comb(k, s % k)
    else:
        tot = float(sum(decn))
        cnt = [int(round(s * v / tot)) for v in decn if v]
        nch = 1 if enc == "real" else min(20, math.comb(int(sum(decn)), s % int(sum(decn))))
    arr = math.factorial(max(s, sum(cnt)))
    for x in cnt:
        arr //= max(1, math.factorial(x))
    arr = max(1, min(arr, math.factorial(s)))
    return int(arr * nch * noff * (2 if s <= 3 else (8 if s <= 4 else 40))) + 5


def xmaps_A(tier):
    out = []
    for ntaxa, nparent, uniq in ((3, 2, True), (2, 2, False), (3, 1, True), (3, 3, False), (4, 2, True)):
        rows = R.xmap_ref(ntaxa, nparent, uniq)
        if len(rows) <= (6 if tier == "thorough" else 4) or (ntaxa, nparent, uniq) == (4, 2, True):
            out.append((ntaxa, nparent, uniq, rows))
    return out


def decisions_A_mate(key, nx, tier, seed):
    enc = CFG[key][1]
    out = []
    if enc == "subset":
        for k in (1, 2, 3):
            if k <= nx:
                rot = seed % nx
                idx = [(rot + 2 * i) % nx if nx % 2 else (rot + i) % nx for i in range(k)]
                if len(set(idx)) == k:
                    out.append((idx, "int64"))
                out.append((list(range(nx))[::-1][:k], "int64"))
    elif enc == "binary":
        for v in itertools.product((0, 1), repeat=nx):
            if any(v) and (nx <= 4 or sum(v) <= 2):
                out.append((list(v), "int64" if sum(v) % 2 else "bool"))
    elif enc == "integer":
        for v in itertools.product((0, 1, 2), repeat=nx):
            if any(v) and (nx <= 3 or sum(v) <= 3):
                out.append((list(v), "int64"))
    else:
        sc = REAL_SCALE[seed % 3]
        for v in itertools.product((0, 1, 2), repeat=nx):
            if any(v) and (nx <= 3 or sum(v) <= 3) and numpy.gcd.reduce(v) == 1:
                out.append(([x * sc for x in v], "float64"))
    # de-duplicate, keep order
    seen, res = set(), []
    for d, dt in out:
        k = (tuple(d), dt)
        if k not in seen:
            seen.add(k)
            res.append((d, dt))
    return res


# --------------------------------------------------------------------------------------
def shards(tier, seed):
    out = [("X",)]                                    # cross-map index generators
    # ---- part A
    target = 12000 if tier == "quick" else 30000
    units = []
    for key in ("Subset", "Integer", "Binary", "Real"):
        enc = CFG[key][1]
        for (c, p) in designs_A(tier, False):
            sl = c * p
            for (decn, dt) in decisions_A(key, tier, seed, sl):
                menu = sus_menu_A(tier, sl) if enc == "real" else None
                if enc == "real" and sl >= 6:
                    for j in menu:                       # one unit per offset: partitions the answer tree exactly
                        units.append((_estimate(enc, decn, c, p, 1), (key, c, p, decn, dt, None, (j,), None)))
                else:
                    e = _estimate(enc, decn, c, p, len(menu) if menu else 1)
                    if e > target:
                        nsplit = min(8, e // target + 2)
                        for part in range(nsplit):
                            units.append((e // nsplit, (key, c, p, decn, dt, None, menu, (part, nsplit))))
                    else:
                        units.append((e, (key, c, p, decn, dt, None, menu, None)))
    cur, acc = [], 0
    for e, u in sorted(units, key=lambda eu: (-eu[0], repr(eu[1]))):
        cur.append(u)
        acc += e
        if acc >= target:
            out.append(("A", cur))
            cur, acc = [], 0
    if cur:
        out.append(("A", cur))
    units = []
    for key in ("SubsetMate", "IntegerMate", "BinaryMate", "RealMate"):
        for (ntaxa, nparent, uniq, rows) in xmaps_A(tier):
            decs = decisions_A_mate(key, len(rows), tier, seed)
            for c in designs_A(tier, True):
                for (decn, dt) in decs:
                    units.append((6 ** min(c, 3) // 3 + 2, (key, c, nparent, decn, dt, rows, None, None)))
    cur, acc = [], 0
    for e, u in units:
        cur.append(u)
        acc += e
        if acc >= target // 2:
            out.append(("A", cur))
            cur, acc = [], 0
    if cur:
        out.append(("A", cur))
    # ---- part B
    covered, uncovered = discover()
    out.append(("I",))
    for ci, info in enumerate(covered):
        for n in ns_B(info, tier):
            cases = cases_B_SO(info, n, tier)
            step = (700 if info["enc"] == "subset" else 350) * (5 if tier == "thorough" else 1)
            for i in range(0, len(cases), step):
                out.append(("B-SO", ci, n, i, min(len(cases), i + step)))
        out.append(("B-MO", ci))
    # ---- part H: setter histories
    for ci, info in enumerate(covered):
        if ci % 4 == 0:
            out.append(("H-B", ci, min(len(covered), ci + 4)))
    out.append(("H-A",))
    return out


def ns_B(info, tier):
    T = tier == "thorough"
    kind = FAM[info["fam"]]["kind"]
    if info["mate"]:
        return (3, 4) if (info["enc"] == "subset" and (T or kind == "ohv")) else (3,)
    if kind in ("indiv",):
        return (3, 4, 5) if T else (3, 4)
    return (3, 4)


def orderings_B(info, n, tier):
    kind = FAM[info["fam"]]["kind"]
    allw = R.weak_orderings(n)
    if kind in ("indiv", "ohv"):
        if n >= 5 and info["enc"] != "subset":
            return allw[::5]
        if n >= 4 and info["enc"] != "subset" and tier != "thorough":
            return allw[::3]
        return allw
    strict = [r for r in allw if len(set(r)) == n]
    pick = [strict[1 % len(strict)], strict[-2], next(r for r in allw if len(set(r)) == n - 1), tuple([0] * n)]
    if tier == "thorough":
        pick += strict[2:8:2]
    return pick


def cases_B_SO(info, n, tier):
    """list of (t, ranks, vi, design, wt, opt, pi, nmi, bound) — ordering x design x population variant in full,
    (weight sign, optimiser, class parameters, count arrays) rotate so that every value meets every ordering"""
    T = tier == "thorough"
    F = FAM[info["fam"]]
    opts = (["sorting"] if (F["sorting"] and info["enc"] == "subset") else []) + ["first", "last"]
    wts = [1.0, -1.0] + ([2.5] if T else [])
    nv = len(variants(n, tier))
    vis = list(range(nv)) if ((T and n <= 4) or n <= 3) else [0, 1, 3]
    out = []
    k = 0
    ts = [1] + ([2] if (F.get("tmax", 2) >= 2 and F["kind"] == "indiv") else [])
    for t in ts:
        ords = orderings_B(info, n, tier)
        if t == 2:
            ords = ords[::4]
        for ranks in ords:
            for design in designs_B_SO(info, n, tier):
                for vi in vis:
                    combos = [(w, o, pi) for w in wts for o in opts for pi in range(len(F["params"]))]
                    if T:
                        use = combos if (n <= 4 and info["enc"] == "subset" and F["kind"] in ("indiv", "ohv")) else [combos[(k + j * 5) % len(combos)] for j in range(2)]
                    else:
                        use = [combos[k % len(combos)]]
                    for (w, o, pi) in use:
                        out.append((t, ranks, vi, design, w, o, pi, k % 4, 1 if k % (29 if T else 13) == 5 else 0))
                        k += 1
    return out


def cases_B_MO(info, ci, tier):
    T = tier == "thorough"
    n = 3 if info["mate"] else 4
    ds = designs_B(info, n)
    if info["enc"] == "subset" and not info["mate"]:
        ds = [d for d in ds if d[0] * d[1] < n]          # >= 3 distinct subsets must exist
    if info["enc"] == "subset" and info["mate"]:
        ds = [d for d in ds if d[0] <= 2 and d[1] == 2]
    out = []
    k = 0
    grid = (0, 1, 2, 3)
    for q in (1, 2, 3):
        fr = R.antichains(grid, q)
        if q == 3 and not T:
            fr = fr[ci % 3::3]
        for f in fr:
            for ndwt in (1.0, -1.0):
                out.append((n, f, ("default",), ndwt, ds[k % len(ds)], k % 3))
                k += 1
    f3 = ((0, 3), (1, 1), (3, 0))
    f2 = ((2, 0), (0, 1))
    for f in (f3, f2):
        for sc in R.weak_orderings(len(f)):
            for ndwt in (1.0, -1.0, 2.5):
                out.append((n, f, ("table", tuple(float(x) * 1.5 - 1.0 for x in sc)), ndwt, ds[k % len(ds)], k % 3))
                k += 1
    for f in (((0, 1, 2), (1, 2, 0), (2, 0, 1)), ((0, 1, 5), (1, 0, 5)), ((3, 0, 1), (0, 3, 1), (1, 1, 0))):
        for ndwt in (1.0, -1.0):
            out.append((n, f, ("default",), ndwt, ds[k % len(ds)], k % 3))
            k += 1
    # per-objective weights obj_wt: every sign x magnitude combination for two objectives, against asymmetric fronts and
    # four preference transformations (the front is reported already weighted: obj_wt must not enter the choice again)
    owts = list(itertools.product((1.0, -1.0, 2.0, -2.0), repeat=2))
    fronts = (((0, 3), (1, 1), (3, 0)), ((0, 2), (3, 1)), ((0, 3), (2, 2), (3, 1)), ((1, 3), (2, 0)))
    if T:
        fronts = fronts + tuple(R.antichains(grid, 3)[5::17])
    specs = (("default",), ("vec", (1.0, 3.0)), ("dot", (1.0, 0.5)), ("table", None))
    for f in fronts:
        for ow in owts:
            for sp in specs:
                if sp[0] == "table":
                    sp = ("table", tuple(float((i * 2 + len(f)) % 3) for i in range(len(f))))
                for ndwt in (1.0, -1.0):
                    out.append((n, f, sp, ndwt, ds[k % len(ds)], k % 3, ow))
                    k += 1
    # constrained protocols: the reported front carries (unfiltered) violations — all feasible / all infeasible / every
    # mixed pattern, so a violating member sits before and after the preferred one
    for f in (((0, 3), (1, 1), (3, 0)), ((0, 2), (3, 1))):
        for pat in itertools.product((0.0, 1.5), repeat=len(f)):
            for kind in ("ineq", "eq", "both"):
                for sp in (("default",), ("table", tuple(float((i * 2 + 1) % 3) for i in range(len(f))))):
                    for ndwt in (1.0, -1.0):
                        out.append((n, f, sp, ndwt, ds[k % len(ds)], k % 3, None, (kind, pat)))
                        k += 1
    return out


# --------------------------------------------------------------------------------------
# Part A
def run_A(ctx, key, ncross, nparent, decn, dtype, xmap, kind, nm, npg, answers=None, seed=None, sus_menu=None, axis_budget="auto", split=None):
    name, enc, mate = CFG[key]
    cls = _cfg_cls(key)
    seed = ctx.seed if seed is None else seed
    pg = _pgmat(seed)
    xmap_arr = None if xmap is None else numpy.array(xmap, dtype="int64")
    case_base = dict(part="A", key=key, ncross=ncross, nparent=nparent, decn=list(decn), dtype=dtype,
                     xmap=None if xmap is None else [list(r) for r in xmap], kind=kind, nmating=nm, nprogeny=npg, seed=seed,
                     sus_menu=None if sus_menu is None else list(sus_menu))
    nm_a = nm if isinstance(nm, int) else numpy.array(nm, dtype="int64")
    np_a = npg if isinstance(npg, int) else numpy.array(npg, dtype="int64")

    if axis_budget == "auto":
        axis_budget = None if ncross * nparent <= 4 else 1

    def run(ch):
        second = not ch.prefix          # the all-default execution also re-samples once more (default answers)
        h = R.SamplingHandler(ch, ncross, 1 if mate else nparent, sus_menu=sus_menu, axis_budget=axis_budget)
        rng = R.make_rng(h, kind)
        d = numpy.array(decn, dtype=dtype)
        d0 = d.copy()
        st0 = numpy.random.get_state()[1].copy()
        try:
            if mate:
                cfg = cls(ncross, nparent, nm_a, np_a, pg, d, xmap_arr.copy(), rng)
            else:
                cfg = cls(ncross, nparent, nm_a, np_a, pg, d, rng)
            xc = cfg.xconfig
            xc1 = None if xc is None else numpy.array(xc, copy=True)
            ret = None
            xc2 = None
            if second:
                h.frozen = True
                ret = cfg.sample_xconfig(return_xconfig=True)
                xc2 = cfg.xconfig
            res = ("ok", cfg, xc1, ret, xc2, d, d0, h, second)
        except UnscriptedDraw:
            raise
        except Exception as e:           # library exception on a valid case: reported by the oracle stage
            res = ("exc", e, h)
        if not numpy.array_equal(st0, numpy.random.get_state()[1]):
            raise UnscriptedDraw("numpy's real global stream was consumed by sample_xconfig")
        return res

    if answers is not None:
        ch = Chooser(answers)
        it = [(ch, run(ch))]
    elif split is not None:
        part, nsplit = split
        it = explore(run, root_filter=lambda i: i % nsplit == part, yield_root=(part == 0))
    else:
        it = explore(run)
    for ch, res in it:
        ctx.evaluations += 1
        ctx.transitions += 1
        case = dict(case_base, answers=_trim(ch.taken))
        P = f"{name}.sample_xconfig:"
        if res[0] == "exc":
            e = res[1]

            def rethrow(e=e):
                raise e
            ctx.guard(rethrow, case=case, sig_prefix=P)
            ctx.count(f"A:exception:{key}")
            continue
        _, cfg, xc1, ret, xc2, d, d0, h, second = res
        ctx.transitions += 1 if second else 0
        ok = ctx.guard(lambda: oracle_A(ctx, key, cfg, xc1, ret, xc2, d, d0, decn, xmap, ncross, nparent, nm, npg, pg, second),
                       case=case, sig_prefix=P)
        ctx.count(f"A:exec:{key}")
        s = ncross * (1 if mate else nparent)
        units = R.selected_units(enc, decn)
        if s >= 2 and len(units) >= 2:
            ctx.nontriv(digest((key, ncross, nparent, decn, dtype, xmap, tuple(_trim(ch.taken)))))
        ctx.state(digest((key, decn, xmap, ncross, nparent, xc1)))
        ctx.outcome(digest((ncross, nparent, xc1)))
        if h.n_exch_improving:
            ctx.count("A:outcross-exchanges-accepted", h.n_exch_improving)
            ctx.flag("A:outcross-improved")
        if any(t == "sus-offset" and c for t, c in zip(ch.tags, ch.taken)):
            ctx.flag("A:sus-nondefault-offset")
        if ok:
            ctx.traces += 1
        if ctx.evaluations % 7001 == 1:
            ctx.sample(dict(case, xconfig=xc1.tolist()))
    if answers is None and explore.capped:
        ctx.capped.append(f"A {key} cap")


def _trim(taken):
    t = list(taken)
    while t and t[-1] == 0:
        t.pop()
    return t


def _check_xconfig(P, enc, mate, decn, xmap, ncross, nparent, xc, ctx=None):
    require(isinstance(xc, numpy.ndarray) and xc.shape == (ncross, nparent) and xc.dtype.kind in "iu", P + "shape",
            lambda: f"xconfig is {type(xc).__name__} shape {getattr(xc, 'shape', None)} dtype {getattr(xc, 'dtype', None)}, expected integer {(ncross, nparent)}")
    units = R.selected_units(enc, decn)
    counts = {}
    rows = [tuple(int(v) for v in r) for r in xc.tolist()]
    if mate:
        index = {}
        for j, r in enumerate(xmap):
            index.setdefault(tuple(r), []).append(j)
        for r in rows:
            require(r in index, P + "row-not-in-cross-map", lambda: f"cross {list(r)} is not a row of the cross map {xmap}")
            js = index[r]
            hit = [j for j in js if j in units]
            require(bool(hit), P + "cross-not-in-solution",
                    lambda: f"cross {list(r)} is cross-map row {js}, not contained in the chosen decision {decn} (selected rows {sorted(units)})")
            counts[hit[0]] = counts.get(hit[0], 0) + 1
        total = ncross
    else:
        for r in rows:
            for v in r:
                require(v in units, P + "entry-not-in-solution",
                        lambda: f"xconfig {xc.tolist()} uses individual {v}, chosen decision {decn} contains {sorted(units)}")
                counts[v] = counts.get(v, 0) + 1
        total = ncross * nparent
    msg = R.check_multiplicity(enc, decn, counts, total)
    require(msg is None, P + "multiplicity", lambda: f"{msg}; xconfig {xc.tolist()} decision {decn}")
    if enc == "real" and ctx is not None and not R.is_floor_ceil(decn, counts, total):
        ctx.count("info:real-count-not-floor-or-ceil-of-share")
    if not mate:
        imp = R.improving_pairs([v for r in rows for v in r], ncross, nparent)
        require(not imp, P + "not-local-minimum",
                lambda: f"xconfig {xc.tolist()} has {R.selfpair(rows)} self-pairings; exchanging flat positions {imp[0]} reduces them")
    return counts


def oracle_A(ctx, key, cfg, xc1, ret, xc2, d, d0, decn, xmap, ncross, nparent, nm, npg, pg, second):
    name, enc, mate = CFG[key]
    P = f"{name}.sample_xconfig:"
    _check_xconfig(P, enc, mate, decn, xmap, ncross, nparent, xc1, ctx)
    # hand-through: decision, genotypes, counts
    require(cfg.xconfig_decn is not None and numpy.array_equal(numpy.asarray(cfg.xconfig_decn), d0) and numpy.array_equal(d, d0),
            P + "decision-changed", lambda: f"xconfig_decn {numpy.asarray(cfg.xconfig_decn).tolist()} / passed array {d.tolist()} differ from the given decision {d0.tolist()}")
    require(cfg.pgmat is pg, P + "pgmat-not-handed-through", "cfg.pgmat is not the object passed in")
    for fld, v in (("nmating", nm), ("nprogeny", npg)):
        exp = [v] * ncross if isinstance(v, int) else list(v)
        got = numpy.asarray(getattr(cfg, fld))
        require(got.shape == (ncross,) and got.tolist() == exp, P + fld, lambda: f"{fld} {got.tolist()} expected {exp}")
    if mate:
        require(numpy.array_equal(numpy.asarray(cfg.xconfig_xmap), numpy.array(xmap)), P + "xmap-changed", "cross map was modified")
    if second:
        require(ret is not None and ret is xc2, P + "return-value", "sample_xconfig(return_xconfig=True) did not return the matrix it stored as .xconfig")
        _check_xconfig(P + "resample:", enc, mate, decn, xmap, ncross, nparent, xc2, None)
        require(numpy.array_equal(numpy.asarray(cfg.xconfig_decn), d0), P + "decision-changed", "second sampling changed the decision")


# --------------------------------------------------------------------------------------
def run_X(ctx):
    """triuix / triudix / xmapix against itertools (independent upper-triangle enumeration)."""
    from pybrops.core.util.array import triuix, triudix, xmapix
    for n in range(1, 6):
        for k in range(1, 5):
            for uniq in (False, True):
                ctx.evaluations += 1
                ctx.transitions += 1
                case = dict(part="X", n=n, k=k, unique=uniq)

                def chk(n=n, k=k, uniq=uniq):
                    ref = R.xmap_ref(n, k, uniq)
                    for fname, got in (("xmapix", [tuple(r) for r in xmapix(n, k, uniq)]),
                                       ("triudix" if uniq else "triuix", [tuple(r) for r in (triudix if uniq else triuix)(n, k)])):
                        require(len(got) == len(set(got)), f"{fname}:duplicate-rows", f"n={n} k={k}: {got}")
                        require(set(got) == set(ref) and len(got) == len(ref), f"{fname}:not-the-upper-triangle",
                                f"n={n} k={k} unique={uniq}: got {got} expected (any order) {ref}")
                        require(all(len(r) == k for r in got), f"{fname}:row-length", f"{got}")
                    ctx.outcome(digest(got))
                    ctx.state(digest((n, k, uniq, got)))
                if ctx.guard(chk, case=case, sig_prefix="array."):
                    ctx.traces += 1
                if n >= 2 and k >= 2:
                    ctx.nontriv(digest(("X", n, k, uniq)))
                ctx.count("X:xmap-cases")


# --------------------------------------------------------------------------------------
# Part B: protocol classes
PKG = "pybrops.breed.prot.sel"


def _dotw(decnvec, latentvec, w=None, **kwargs):
    """user-supplied latent -> single objective transformation (weighted sum of the latent vector)"""
    w = numpy.asarray(w, dtype=float)
    return numpy.array([float(numpy.dot(numpy.asarray(latentvec, dtype=float), w[:len(latentvec)]))])


def _table_trans(mat, table=None, **kwargs):
    """user-supplied non-dominated-set transformation: score looked up by objective row"""
    return numpy.array([table[tuple(float(v) for v in row)] for row in mat], dtype=float)


DOT_W = (1.0, 0.5, 0.25, 0.125, 0.3, 0.7, 0.9, 1.1, 1.3, 1.7, 0.2, 0.6)


def _fam_kwargs(fam, pop, par):
    """class-specific constructor arguments (public factories / functions of the library, as a user would pass)"""
    if fam in ("EstimatedBreedingValueSelection", "GenomicEstimatedBreedingValueSelection"):
        return dict(ntrait=pop.t, unscale=par.get("unscale", True))
    if fam == "GeneralizedWeightedGenomicEstimatedBreedingValueSelection":
        return dict(ntrait=pop.t, alpha=par.get("alpha", 0.5))
    if fam in ("WeightedGenomicSelection", "RandomSelection", "FamilyEstimatedBreedingValueSelection"):
        return dict(ntrait=pop.t)
    if fam == "OptimalHaploidValueSelection":
        return dict(ntrait=pop.t, nhaploblk=pop.m, unique_parents=par.get("unique", True))
    if fam == "OptimalPopulationValueSelection":
        return dict(ntrait=pop.t, nhaploblk=pop.m)
    if fam == "GenotypeBuilderSelection":
        return dict(ntrait=pop.t, nhaploblk=pop.m, nbestfndr=1)
    if fam in ("MultiObjectiveGenomicSelection", "PopulationAlleleFrequencyDistanceSelection", "PopulationAlleleUnavailabilitySelection"):
        from pybrops.breed.prot.sel.targetfn import target_positive
        from pybrops.breed.prot.sel.weightfn import weight_absolute
        return dict(ntrait=pop.t, weight=weight_absolute, target=target_positive)
    if fam in ("OptimalContributionSelection",):
        from pybrops.popgen.cmat.fcty.DenseMolecularCoancestryMatrixFactory import DenseMolecularCoancestryMatrixFactory
        return dict(ntrait=pop.t, cmatfcty=DenseMolecularCoancestryMatrixFactory(), unscale=par.get("unscale", True))
    if fam in ("MeanGenomicRelationshipSelection", "L2NormGenomicSelection"):
        from pybrops.popgen.cmat.fcty.DenseMolecularCoancestryMatrixFactory import DenseMolecularCoancestryMatrixFactory
        return dict(cmatfcty=DenseMolecularCoancestryMatrixFactory())
    if fam == "MeanExpectedHeterozygositySelection":
        return {}
    if fam == "UsefulnessCriterionSelection":
        from pybrops.model.vmat.fcty.DenseTwoWayDHAdditiveGeneticVarianceMatrixFactory import DenseTwoWayDHAdditiveGeneticVarianceMatrixFactory
        from pybrops.popgen.gmap.HaldaneMapFunction import HaldaneMapFunction
        return dict(ntrait=pop.t, nself=0, upper_percentile=0.1, vmatfcty=DenseTwoWayDHAdditiveGeneticVarianceMatrixFactory(),
                    gmapfn=HaldaneMapFunction(), unique_parents=par.get("unique", True))
    if fam == "ExpectedMaximumBreedingValueSelection":
        from pybrops.breed.prot.mate.TwoWayDHCross import TwoWayDHCross
        from ..env import ScriptedGenerator, MeiosisHandler
        mh = MeiosisHandler(Chooser(), pop.pgmat.vrnt_xoprob, mode="full")      # default answers only: deterministic
        return dict(ntrait=pop.t, nrep=1, mateprot=TwoWayDHCross(rng=ScriptedGenerator(mh)), unique_parents=par.get("unique", True))
    raise KeyError(fam)


# kind: how optimality of the choice is judged; sorting: the library's sorting optimiser is exact (separable criterion)
FAM = {
    "EstimatedBreedingValueSelection": dict(kind="indiv", sorting=True, params=[dict(unscale=True), dict(unscale=False)]),
    "GenomicEstimatedBreedingValueSelection": dict(kind="indiv", sorting=True, params=[dict(unscale=True), dict(unscale=False)]),
    "GeneralizedWeightedGenomicEstimatedBreedingValueSelection": dict(kind="indiv", sorting=True, params=[dict(alpha=0.5), dict(alpha=1.0)], tmax=1),
    "WeightedGenomicSelection": dict(kind="indiv", sorting=True, params=[{}], tmax=1),
    "RandomSelection": dict(kind="indiv", sorting=True, params=[{}], raw=True),
    "OptimalHaploidValueSelection": dict(kind="ohv", sorting=True, params=[dict(unique=True), dict(unique=False)], tmax=1),
    "UsefulnessCriterionSelection": dict(kind="canonical", sorting=True, params=[dict(unique=True)], tmax=1, nparent=(2,)),
    "ExpectedMaximumBreedingValueSelection": dict(kind="embv", sorting=False, params=[dict(unique=True)], tmax=1, nparent=(2,)),
    "OptimalContributionSelection": dict(kind="canonical", sorting=False, params=[dict(unscale=True)]),
    "MeanExpectedHeterozygositySelection": dict(kind="canonical", sorting=False, params=[{}]),
    "MeanGenomicRelationshipSelection": dict(kind="canonical", sorting=False, params=[{}]),
    "MultiObjectiveGenomicSelection": dict(kind="canonical", sorting=False, params=[{}]),
    "PopulationAlleleFrequencyDistanceSelection": dict(kind="canonical", sorting=False, params=[{}]),
    "PopulationAlleleUnavailabilitySelection": dict(kind="canonical", sorting=False, params=[{}]),
    "OptimalPopulationValueSelection": dict(kind="canonical", sorting=False, params=[{}]),
    "GenotypeBuilderSelection": dict(kind="canonical", sorting=False, params=[{}]),
    "FamilyEstimatedBreedingValueSelection": dict(kind="canonical", sorting=False, params=[{}], families=True),
    "L2NormGenomicSelection": dict(kind="canonical", sorting=False, params=[{}]),
}

_DISC = None


def discover():
    """Introspect pybrops.breed.prot.sel: every concrete class is either covered (has a fixture family) or
    listed as uncovered with the reason."""
    global _DISC
    if _DISC is not None:
        return _DISC
    from pybrops.breed.prot.sel.SelectionProtocol import SelectionProtocol
    pkg = importlib.import_module(PKG)
    covered, uncovered = [], []
    for m in sorted(pkgutil.iter_modules(pkg.__path__), key=lambda m: m.name):
        if m.ispkg:
            continue
        try:
            mod = importlib.import_module(f"{PKG}.{m.name}")
        except Exception as e:
            uncovered.append((m.name, f"module does not import: {type(e).__name__}"))
            continue
        for n, c in sorted(inspect.getmembers(mod, inspect.isclass)):
            if c.__module__ != mod.__name__ or inspect.isabstract(c):
                continue
            if not (n.endswith("Selection") or n.endswith("Mating") or n.endswith("Protocol")) or n.endswith("Mixin"):
                continue
            if not issubclass(c, SelectionProtocol):
                if callable(getattr(c, "select", None)):
                    uncovered.append((n, "legacy Unconstrained* interface (not a SelectionProtocol; returns tuples, no SelectionConfiguration)"))
                continue
            enc = next((e.lower() for e in ("Subset", "Real", "Integer", "Binary")
                        if any(b.__name__ == f"{e}SelectionProtocol" for b in c.__mro__)), None)
            mate = any(b.__name__ == "MateSelectionProtocol" for b in c.__mro__)
            fam = next((b.__module__.rsplit(".", 1)[1] for b in c.__mro__ if b.__module__.rsplit(".", 1)[-1] in FAM and b is not c), m.name)
            fam = m.name if m.name in FAM else fam
            if enc is None or fam not in FAM:
                uncovered.append((n, "no fixture family for this class"))
                continue
            covered.append(dict(mod=m.name, cls=n, enc=enc, mate=mate, fam=fam))
    _DISC = (covered, uncovered)
    return _DISC


def _proto_cls(info):
    return getattr(importlib.import_module(f"{PKG}.{info['mod']}"), info["cls"])


def variants(n, tier):
    ident = list(range(n))
    v = [(ident, 0), (ident[::-1], 1), (ident[1:] + ident[:1], 0)]
    if n >= 3:
        v.append(([1, 0] + ident[2:][::-1], 1))
    if tier == "thorough" and n == 3:
        v = [(list(p), i % 2) for i, p in enumerate(itertools.permutations(ident))]
    return v


def designs_B(info, n):
    """(ncross, nparent) allowed for this class on n candidates"""
    fam = FAM[info["fam"]]
    nps = fam.get("nparent", (1, 2, 3, 4))
    out = []
    for c in (1, 2, 3):
        for p in nps:
            if info["mate"]:
                if p > 3:
                    continue
                nx = [len(R.xmap_ref(n, p, u.get("unique", True))) for u in fam["params"]]
                if min(nx) < 1 or (info["enc"] == "subset" and min(nx) < c):
                    continue                       # fewer candidate crosses than crosses to choose: not a valid request
                if info["enc"] != "subset" and max(nx) > 6:
                    continue                       # keeps the brute-force optimiser's scan <= 3^6 decisions
                out.append((c, p))
            elif info["enc"] == "subset":
                if c * p <= n and p <= n:
                    out.append((c, p))
            else:
                if c * p <= 6:
                    out.append((c, p))
    return out


def designs_B_SO(info, n, tier):
    d = designs_B(info, n)
    if tier != "thorough" and info["enc"] != "subset" and not info["mate"]:
        # with an exact optimiser the vector encodings of truncation criteria put all weight on the best unit(s):
        # the design only shapes the (part A) sampling, so a covering subset of designs is used in the quick tier
        d = [x for x in d if x in ((1, 1), (1, 3), (2, 2), (3, 2))]
    return d


def _population(n, t, ranks, seed, variant, fam):
    vals = R.rank_values(ranks, seed)
    crit = numpy.zeros((n, t))
    crit[:, 0] = vals
    if t == 2:
        alpha2 = R.VALUE_ALPHABETS[(seed + 1) % 3]
        crit[:, 1] = [alpha2[(r * 2 + i) % 5] for i, r in enumerate(ranks)]
    order, ns = variant
    families = [i % 2 for i in range(n)] if FAM[fam].get("families") else None
    return R.Population(n, crit, order=order, names=R.NAME_SETS[ns][:n], het=bool(seed % 2), families=families), crit


def _make_proto(info, pop, par, design, nmnp, nobj, obj_wt, t, g, so, mo, nd=None):
    cls = _proto_cls(info)
    kw = _fam_kwargs(info["fam"], pop, par)
    c, p = design
    nm, npg = nmnp
    nm = nm if isinstance(nm, int) else numpy.array(nm, dtype="int64")
    npg = npg if isinstance(npg, int) else numpy.array(npg, dtype="int64")
    extra = {}
    if nobj == 1:
        extra.update(obj_trans=_dotw, obj_trans_kwargs=dict(w=numpy.array(DOT_W)))
    if nd is not None:
        extra.update(nd)
    return cls(ncross=c, nparent=p, nmating=nm, nprogeny=npg, nobj=nobj, obj_wt=obj_wt, rng=g, soalgo=so, moalgo=mo, **kw, **extra)


def _scalar_criterion(crit, t, par, fam):
    """independent per-individual scalar criterion of the truncation families (larger = better for obj_wt > 0)"""
    x = numpy.asarray(crit, dtype=float)
    if not par.get("unscale", True) and not FAM[fam].get("raw"):
        x = R.standardise(x)
    w = numpy.array(DOT_W[:x.shape[1]])
    return x @ w


NMNP = ((1, 1), (2, 3), ("arr", 1), (1, "arr"))


def _nmnp(i, c):
    a, b = NMNP[i % 4]
    arr = [1 + (j % 2) for j in range(c)]
    return (arr if a == "arr" else a, arr if b == "arr" else b)


_CANON = {}


def run_B_SO(ctx, info, n, t, ranks, vi, design, wt, opt, pi, nmi, answers=None, seed=None, bound=0):
    seed = ctx.seed if seed is None else seed
    fam = info["fam"]
    F = FAM[fam]
    par = F["params"][pi % len(F["params"])]
    enc, mate = info["enc"], info["mate"]
    variant = variants(n, ctx.tier)[vi]
    pop, crit = _population(n, t, ranks, seed, variant, fam)
    c, p = design
    nmnp = _nmnp(nmi, c)
    P = f"{info['cls']}.select:"
    case_base = dict(part="B-SO", cls=info["cls"], mod=info["mod"], n=n, t=t, ranks=list(ranks), variant=vi, design=list(design), wt=wt, opt=opt,
                     par=pi, nmnp=nmi, seed=seed, tier=ctx.tier)

    def run(ch):
        h = R.SamplingHandler(ch, c, 1 if mate else p, sus_menu=(2 ** 52, 2 ** 51), axis_budget=1)
        if fam == "RandomSelection":
            h.mvn = crit[pop.order, :].copy()
        g = R.make_rng(h, "RandomState")
        so = R.library_sorting() if opt == "sorting" else R.make_brute(enc, tiebreak=opt)
        mo = R.make_given_front(enc, [[0.0]])
        misc = {}
        try:
            proto = _make_proto(info, pop, par, design, nmnp, 1, wt, t, g, so, mo)
            with R.patched_global_prng(g):
                cfg = proto.select(miscout=misc, **pop.args())
            return ("ok", cfg, misc, so, proto, h)
        except UnscriptedDraw:
            raise
        except Exception as e:
            return ("exc", e)

    if F["kind"] == "embv":
        bound = 0          # criterion comes out of a progeny simulation; its sampling answers are explored in part A only
    if answers is not None:
        ch = Chooser(answers)
        it = [(ch, run(ch))]
    else:
        it = _guarded_explore(ctx, run, bound, P, case_base)
    for ch, res in it:
        ctx.evaluations += 1
        ctx.transitions += 1
        case = dict(case_base, answers=_trim(ch.taken))
        ctx.count(f"B-SO:exec:{fam}:{enc}{'-mate' if mate else ''}")
        if res[0] == "exc":
            e = res[1]

            def rethrow(e=e):
                raise e
            ctx.guard(rethrow, case=case, sig_prefix=_exc_prefix(e, P))
            ctx.count(f"B:exception:{info['cls']}")
            continue
        _, cfg, misc, so, proto, h = res
        ok = ctx.guard(lambda: oracle_B_SO(ctx, info, F, par, pop, crit, t, design, nmnp, wt, opt, cfg, misc, so, proto, seed),
                       case=case, sig_prefix=P)
        ctx.flag(f"B-SO:{info['cls']}")
        ctx.flag(f"B-SO:opt:{opt}")
        if len(set(ranks)) < n:
            ctx.flag("B-SO:ties")
        if c * p >= 2 and n >= 2:
            ctx.nontriv(digest((info["cls"], n, t, ranks, vi, design, wt, opt, pi, tuple(_trim(ch.taken)))))
        ctx.state(digest((info["cls"], n, ranks, vi, design, wt, pi, cfg.xconfig_decn, cfg.xconfig)))
        ctx.outcome(digest((info["enc"], cfg.xconfig_decn, cfg.xconfig)))
        if ok:
            ctx.traces += 1
        if ctx.evaluations % 1501 == 1:
            ctx.sample(dict(case, decision=numpy.asarray(cfg.xconfig_decn).tolist(), xconfig=cfg.xconfig.tolist(),
                            taxa=[str(x) for x in pop.pgmat.taxa.tolist()]))


def _guarded_explore(ctx, run, bound, P, case_base):
    """explore(); if the same inputs + the same scripted answers do not lead to the same sequence of draws, the
    library's behaviour depends on something else (uninitialised memory, hash order, a hidden stream): reported as a
    violation of its own kind instead of aborting the shard"""
    from ..explore import ReplayDivergence
    try:
        yield from explore(run, bound=bound)
    except ReplayDivergence as e:
        ctx.violation(P + "nondeterministic-under-scripted-generator",
                      f"re-running select() on identical inputs with identical generator answers took a different path: {e}",
                      dict(case_base, answers=[], explore=bound))


def _exc_prefix(e, default):
    """an exception raised inside a configuration's sampling gets the configuration's signature prefix (the same
    one part A uses), whichever protocol happened to build that configuration"""
    tb = e.__traceback__
    deepest = None
    while tb is not None:
        fn = tb.tb_frame.f_code.co_filename
        if "/breed/prot/sel/cfg/" in fn and tb.tb_frame.f_code.co_name == "sample_xconfig":
            return fn.rsplit("/", 1)[1][:-3] + ".sample_xconfig:"
        if "/pybrops/" in fn:
            deepest = (fn.rsplit("/", 1)[1][:-3], tb.tb_frame.f_code.co_name)
        tb = tb.tb_next
    # raised directly in a select()/sosolve()/mosolve() shared by many concrete protocols: name that base class
    if deepest and deepest[0].endswith("SelectionProtocol") and deepest[1] in ("select", "sosolve", "mosolve"):
        return f"{deepest[0]}.{deepest[1]}:"
    return default


def _sel_prefix(proto):
    """signature prefix naming the class that DEFINES select() (the eight encoding base classes), so that one root
    cause in a shared select() gives one signature, not one per concrete protocol"""
    for k in type(proto).__mro__:
        if "select" in vars(k):
            return f"{k.__name__}.select:"
    return f"{type(proto).__name__}.select:"


def _cfg_prefix(cfg):
    return f"{type(cfg).__name__}.sample_xconfig:"


def _handed_through(P, cfg, pop, proto, design, nmnp, soln_decn):
    P = _sel_prefix(proto)
    c, p = design
    require(cfg.pgmat is pop.pgmat, P + "pgmat-not-handed-through", "configuration holds a different genotype matrix object than the one passed to select()")
    require(pop.pgmat_unchanged(), P + "pgmat-changed", "select() modified the genotype matrix it was given (genotypes / taxa order)")
    require(numpy.array_equal(numpy.asarray(cfg.xconfig_decn), numpy.asarray(soln_decn)) and numpy.asarray(cfg.xconfig_decn).dtype.kind == numpy.asarray(soln_decn).dtype.kind,
            P + "decision-not-handed-through", lambda: f"xconfig_decn {numpy.asarray(cfg.xconfig_decn).tolist()} is not the chosen solution {numpy.asarray(soln_decn).tolist()}")
    require(cfg.ncross == c and cfg.nparent == p, P + "design", lambda: f"configuration is {cfg.ncross}x{cfg.nparent}, requested {c}x{p}")
    for fld, v in (("nmating", nmnp[0]), ("nprogeny", nmnp[1])):
        exp = [v] * c if isinstance(v, int) else list(v)
        got = numpy.asarray(getattr(cfg, fld))
        require(got.tolist() == exp, P + fld, lambda: f"{fld} {got.tolist()} expected {exp}")


def _xmap_of(P, info, cfg, soln, pop, par, p):
    """cross map used by a mate protocol: must be the complete upper triangle (independent enumeration)"""
    xm = numpy.asarray(soln.decn_space_xmap)
    rows = [tuple(int(v) for v in r) for r in xm.tolist()]
    ref = R.xmap_ref(pop.n, p, par.get("unique", True))
    require(len(rows) == len(set(rows)) and set(rows) == set(ref), f"{info['fam']}Problem._calc_xmap:cross-map-not-upper-triangle",
            lambda: f"decn_space_xmap {rows} expected (any order) {ref}")
    require(numpy.array_equal(numpy.asarray(cfg.xconfig_xmap), xm), "MateSelectionProtocol.select:xmap-not-handed-through", "configuration's cross map differs from the solution's")
    return rows


def _to_individuals(info, pop, decn, rows):
    """decision in positions of the passed population -> units named by individual ids"""
    enc, mate = info["enc"], info["mate"]
    if not mate:
        if enc == "subset":
            return [pop.individual_at(v) for v in decn]
        return {pop.individual_at(i): v for i, v in enumerate(decn)}
    if enc == "subset":
        return [tuple(sorted(pop.individual_at(a) for a in rows[int(j)])) for j in decn]
    return {tuple(sorted(pop.individual_at(a) for a in rows[j])): v for j, v in enumerate(decn)}


def oracle_B_SO(ctx, info, F, par, pop, crit, t, design, nmnp, wt, opt, cfg, misc, so, proto, seed):
    P = f"{info['cls']}.select:"
    enc, mate, fam = info["enc"], info["mate"], info["fam"]
    c, p = design
    PS = _sel_prefix(proto)
    require("sosoln" in misc, PS + "miscout", "miscout['sosoln'] missing")
    soln = misc["sosoln"]
    require(soln.soln_decn.shape[0] >= 1, PS + "no-solution", "empty solution")
    decn_arr = soln.soln_decn[0]
    if opt != "sorting":
        require(numpy.array_equal(decn_arr, so.last.soln_decn[0]) and close(soln.soln_obj, so.last.soln_obj), PS + "solution-not-handed-through",
                lambda: f"sosoln {decn_arr.tolist()} differs from what the optimiser returned {so.last.soln_decn[0].tolist()}")
    _handed_through(P, cfg, pop, proto, design, nmnp, decn_arr)
    decn = decn_arr.tolist()
    rows = _xmap_of(P, info, cfg, soln, pop, par, p) if mate else None
    nunits = len(rows) if mate else pop.n
    if enc == "subset":
        require(len(set(decn)) == len(decn) and all(0 <= v < nunits for v in decn), P + "invalid-decision", lambda: f"decision {decn} over {nunits} units")
    else:
        require(len(decn) == nunits, P + "invalid-decision", lambda: f"decision {decn} over {nunits} units")
    _check_xconfig(_cfg_prefix(cfg), enc, mate, decn, rows, c, p, cfg.xconfig, ctx)
    require(int(cfg.xconfig.min()) >= 0 and int(cfg.xconfig.max()) < pop.n, P + "index-out-of-population", lambda: f"{cfg.xconfig.tolist()} for {pop.n} candidates")
    kind = F["kind"]
    sgn = 1.0 if wt > 0 else -1.0
    if kind == "indiv":
        scal = sgn * _scalar_criterion(crit, t, par, fam)            # by individual id; larger = better
        _best_units(P, enc, decn, lambda pos: scal[pop.individual_at(pos)], list(range(pop.n)), ctx)
        ctx.count("B-SO:independent-criterion-checks")
    elif kind == "ohv":
        ph = numpy.asarray(pop.pgmat.mat)                             # as passed (positions)
        u = pop.u[:, 0]
        val = {r: sgn * v for r, v in zip(rows, R.ohv_cross_values(ph, u, rows))}
        _best_units(P, enc, decn, lambda j: val[rows[int(j)]], list(range(len(rows))), ctx)
        ctx.count("B-SO:independent-criterion-checks")
    elif kind == "canonical":
        _canonical(ctx, P, info, F, par, pop, crit, t, design, nmnp, wt, decn, rows, seed)
        ctx.count("B-SO:canonical-equivariance-checks")
    elif kind == "embv":
        # simulation-based criterion, meiosis scripted (default answers = no crossover anywhere): every doubled-haploid
        # progeny of cross (a,b) is then one parental haplotype doubled, so the cross's expected maximum is the value of
        # one of the (at most four) parental haplotypes — an envelope that needs no model of the mating code
        embv = numpy.asarray(so.last_prob.embv, dtype=float)
        ph = numpy.asarray(pop.pgmat.mat)
        u, beta = pop.u[:, 0], float(pop.beta[0, 0])
        require(embv.shape == (len(rows), 1), "ExpectedMaximumBreedingValueSelectionProblemMixin._calc_embv:shape", lambda: f"{embv.shape}")
        for j, r in enumerate(rows):
            cand = sorted({beta + ph.shape[0] * float((ph[q, x, :] * u).sum()) for x in r for q in range(ph.shape[0])})
            require(any(close(embv[j, 0], cv) for cv in cand), "ExpectedMaximumBreedingValueSelectionProblemMixin._calc_embv:criterion-not-a-progeny-value",
                    lambda: f"cross-map row {j} = cross {list(r)}: criterion value {embv[j, 0]!r}; with recombination-free meiosis every doubled "
                            f"haploid of that cross has one of the values {cand} (all rows: {embv[:, 0].tolist()})")
        val = {r: sgn * float(embv[j, 0]) for j, r in enumerate(rows)}
        _best_units(P, enc, decn, lambda j: val[rows[int(j)]], list(range(len(rows))), ctx)
        ctx.count("B-SO:embv-envelope-checks")
    else:
        ctx.count("B-SO:validity-only")


def _best_units(P, enc, decn, value_of, all_units, ctx):
    vals_all = sorted((float(value_of(u)) for u in all_units), reverse=True)
    if enc == "subset":
        got = sorted((float(value_of(u)) for u in decn), reverse=True)
        exp = vals_all[:len(decn)]
        require(close(got, exp), P + "not-the-best-k",
                lambda: f"chosen units {decn} have criterion values {got}; the best {len(decn)} of {vals_all} are {exp}")
    else:
        sup = [u for u, v in enumerate(decn) if v > 0]
        got = [float(value_of(u)) for u in sup]
        require(bool(sup) and all(close(g, vals_all[0]) for g in got), P + "not-the-best-k",
                lambda: f"decision {decn} puts weight on units with criterion values {got}; the optimum puts all weight on value {vals_all[0]} (all values {vals_all})")


def _canonical(ctx, P, info, F, par, pop, crit, t, design, nmnp, wt, decn, rows, seed):
    """permutation equivariance: the choice, re-expressed by individual identity, must be an optimum of the
    problem posed on the canonically ordered population (ties by objective value)."""
    enc, mate = info["enc"], info["mate"]
    key = (info["cls"], pop.n, crit.tobytes(), t, tuple(design), wt, repr(sorted(par.items())), pop.het, repr(nmnp))
    ent = _CANON.get(key)
    if ent is None:
        pop0 = R.Population(pop.n, crit, order=None, names=R.NAME_SETS[0][:pop.n], het=pop.het,
                            families=[i % 2 for i in range(pop.n)] if F.get("families") else None)
        h0 = R.SamplingHandler(Chooser(), design[0], design[1])
        if info["fam"] == "RandomSelection":
            h0.mvn = crit.copy()
        g0 = R.make_rng(h0, "RandomState")
        proto0 = _make_proto(info, pop0, par, design, nmnp, 1, wt, t, g0, R.make_brute(enc), R.make_given_front(enc, [[0.0]]))
        with R.patched_global_prng(g0):
            prob0 = proto0.problem(**pop0.args())
        best = None
        for x in R.decision_space(enc, prob0):
            obj, ineq, eq = prob0.evalfn(x)
            k = (float(numpy.sum(numpy.maximum(ineq, 0.0)) + numpy.sum(numpy.abs(eq))), float(obj[0]))
            if best is None or k < best:
                best = k
        rows0 = [tuple(int(v) for v in r) for r in numpy.asarray(prob0.decn_space_xmap).tolist()] if mate else None
        ent = _CANON[key] = (prob0, best, rows0)
        if len(_CANON) > 400:
            _CANON.pop(next(iter(_CANON)))
    prob0, best, rows0 = ent
    units = _to_individuals(info, pop, decn, rows)
    if enc == "subset":
        d0 = numpy.array([rows0.index(u) for u in units] if mate else units, dtype="int64")
    else:
        keys = rows0 if mate else list(range(pop.n))
        d0 = numpy.array([units[k] for k in keys], dtype="float64" if enc == "real" else "int64")
    obj, ineq, eq = prob0.evalfn(d0)
    k = (float(numpy.sum(numpy.maximum(ineq, 0.0)) + numpy.sum(numpy.abs(eq))), float(obj[0]))
    require(close(k[0], best[0]) and close(k[1], best[1]), P + "not-equivariant",
            lambda: f"choice {decn} on the permuted population = individuals {units}; on the canonically ordered population that "
                    f"decision scores (violation, objective) {k}, the optimum there is {best}")


# ---- multi-objective choice rule
def _dot_trans(mat, w=None, **kwargs):
    """user-supplied non-dominated-set transformation: weighted sum of the objectives as reported by the solution"""
    return numpy.asarray(mat, dtype=float).dot(numpy.asarray(w, dtype=float))


def run_B_MO(ctx, info, n, front, spec, ndwt, design, vi, answers=None, seed=None, owt=None, cvspec=None):
    """spec: ('default',) | ('table', scores) | ('vec', vec_wt) default distance with a non-trivial preference vector |
    ('dot', w) weighted sum.  owt: the protocol's per-objective weights obj_wt (None = all +1).  The front is what the
    optimiser's solution object reports (already weighted by evalfn), so the reference scores never depend on owt.
    cvspec = (kind in ineq|eq|both, per-member violation tuple): the protocol declares constraints and the front's
    members carry (unfiltered) violations; the documented rule still scores the whole reported front."""
    seed = ctx.seed if seed is None else seed
    fam = info["fam"]
    F = FAM[fam]
    par = F["params"][0]
    enc, mate = info["enc"], info["mate"]
    nobj = len(front[0])
    t = 1 if F.get("tmax") == 1 else 2
    ranks = tuple((i * 2) % n if n % 2 else i for i in range(n))
    ranks = tuple(sorted(set(ranks)).index(r) for r in ranks)
    variant = variants(n, ctx.tier)[vi]
    pop, crit = _population(n, t, ranks, seed, variant, fam)
    c, p = design
    nmnp = _nmnp(vi + c, c)
    P = f"{info['cls']}.select:"
    case = dict(part="B-MO", cls=info["cls"], mod=info["mod"], n=n, front=[list(r) for r in front], spec=[spec[0]] + [list(x) for x in spec[1:]],
                ndwt=ndwt, design=list(design), variant=vi, seed=seed, tier=ctx.tier, owt=None if owt is None else list(owt),
                cvspec=None if cvspec is None else [cvspec[0], list(cvspec[1])])
    objs = numpy.array(front, dtype=float)
    if spec[0] == "table":
        table = {tuple(float(v) for v in row): float(s) for row, s in zip(front, spec[1])}
        nd = dict(ndset_wt=ndwt, ndset_trans=_table_trans, ndset_trans_kwargs=dict(table=table))
        scores = [ndwt * float(s) for s in spec[1]]
    elif spec[0] == "vec":
        nd = dict(ndset_wt=ndwt, ndset_trans_kwargs=dict(obj_wt=numpy.ones(nobj), vec_wt=numpy.array(spec[1], dtype=float)))
        scores = [ndwt * d for d in R.ndpt_to_vec_dist(front, [1.0] * nobj, spec[1])]
    elif spec[0] == "dot":
        nd = dict(ndset_wt=ndwt, ndset_trans=_dot_trans, ndset_trans_kwargs=dict(w=numpy.array(spec[1], dtype=float)))
        scores = [ndwt * sum(float(v) * float(w) for v, w in zip(row, spec[1])) for row in front]
    else:
        nd = dict(ndset_wt=ndwt)
        scores = [ndwt * d for d in R.ndpt_to_vec_dist(front, [1.0] * nobj, [1.0] * nobj)]
    h = R.SamplingHandler(Chooser(answers or ()), c, 1 if mate else p, sus_menu=(2 ** 52, 2 ** 51), axis_budget=1)
    if fam == "RandomSelection":
        h.mvn = crit[pop.order, :].copy()
    g = R.make_rng(h, "RandomState")
    mo = R.make_given_front(enc, objs, cv=None if cvspec is None else numpy.array(cvspec[1], dtype=float))
    if cvspec is not None:
        nd = dict(nd)
        if cvspec[0] in ("ineq", "both"):
            nd["nineqcv"] = 1
        if cvspec[0] in ("eq", "both"):
            nd["neqcv"] = 1
    misc = {}
    ctx.evaluations += 1
    ctx.transitions += 1
    ctx.count(f"B-MO:exec:{enc}{'-mate' if mate else ''}")
    try:
        proto = _make_proto(info, pop, par, design, nmnp, nobj, None if owt is None else numpy.array(owt, dtype=float), t, g,
                            R.make_brute(enc), mo, nd=nd)
        with R.patched_global_prng(g):
            cfg = proto.select(miscout=misc, **pop.args())
    except R.NoFront:
        ctx.count("B-MO:skipped-decision-space-too-small")
        return
    except UnscriptedDraw:
        raise
    except Exception as e:
        def rethrow(e=e):
            raise e
        ctx.guard(rethrow, case=case, sig_prefix=_exc_prefix(e, P))
        ctx.count(f"B:exception:{info['cls']}")
        return

    def chk():
        P = _sel_prefix(proto)
        PC = f"{info['cls']}.select:"
        require("mosoln" in misc and misc["mosoln"].soln_decn.shape == mo.decns.shape and numpy.array_equal(misc["mosoln"].soln_decn, mo.decns)
                and close(misc["mosoln"].soln_obj, objs) and close(misc["mosoln"].soln_ineqcv, mo.cv[0]) and close(misc["mosoln"].soln_eqcv, mo.cv[1]), P + "mo-solution-not-handed-through", "miscout['mosoln'] is not the optimiser's non-dominated set")
        got = numpy.asarray(cfg.xconfig_decn)
        js = [j for j in range(len(mo.decns)) if numpy.array_equal(mo.decns[j], got)]
        require(len(js) == 1, P + "mo-decision-not-from-front", lambda: f"xconfig_decn {got.tolist()} is not a member of the non-dominated set {mo.decns.tolist()}")
        j = js[0]
        if any(s != s for s in scores):
            ctx.count("B-MO:nan-preference-score-rule-not-judged")
        else:
            best = max(scores)
            tol = 1e-9 * max(1.0, abs(best))
            require(scores[j] >= best - tol, P + "mo-choice-not-argmax",
                    lambda: f"front {front} preference scores ndset_wt*trans = {scores}; solution {j} was chosen, maximum is at {[i for i, s in enumerate(scores) if s >= best - tol]}")
            ctx.count("B-MO:choice-rule-judged")
            if sum(1 for s in scores if s >= best - tol) > 1:
                ctx.flag("B-MO:tied-scores")
        decn = mo.decns[j].tolist()
        _handed_through(P, cfg, pop, proto, design, nmnp, mo.decns[j])
        rows = _xmap_of(PC, info, cfg, misc["mosoln"], pop, par, p) if mate else None
        _check_xconfig(_cfg_prefix(cfg), enc, mate, decn, rows, c, p, cfg.xconfig, ctx)
        return j
    ok = ctx.guard(chk, case=case, sig_prefix=P)
    ctx.flag(f"B-MO:{info['cls']}")
    ctx.flag(f"B-MO:spec:{spec[0]}")
    if cvspec is not None:
        ctx.count("B-MO:constrained-front-cases")
        pat = cvspec[1]
        bestj = max(range(len(scores)), key=lambda i: scores[i]) if not any(s != s for s in scores) else None
        kindf = ("all-feasible" if not any(pat) else "all-infeasible" if all(pat) else
                 "mixed-violator-before-best" if (bestj is not None and any(pat[:bestj])) else "mixed-violator-after-best")
        ctx.flag(f"B-MO:cv:{kindf}:{'mate-' if mate else ''}{enc}")
        ctx.flag(f"B-MO:cv-kind:{cvspec[0]}")
    if owt is not None:
        ctx.count("B-MO:per-objective-weight-cases")
        if min(owt) < 0 < max(owt):
            ctx.flag(f"B-MO:mixed-sign-obj_wt:{'mate-' if mate else ''}{enc}")
    ctx.flag(f"B-MO:ndwt:{'neg' if ndwt < 0 else 'pos'}")
    ctx.nontriv(digest((info["cls"], n, front, spec, ndwt, design, vi, owt, cvspec)))
    ctx.state(digest((info["cls"], front, spec, ndwt, owt, cvspec, design, cfg.xconfig_decn, cfg.xconfig)))
    ctx.outcome(digest((info["enc"], "mo", cfg.xconfig_decn, cfg.xconfig)))
    if ok:
        ctx.traces += 1


# --------------------------------------------------------------------------------------
# Part H: setter histories on ONE object — after re-assigning the design through the public setters (in every
# admissible order, with or without a selection in between) the object must behave like a freshly constructed one
def _design_values(c, p, nmi):
    nm, npg = _nmnp(nmi, c)
    arr = lambda v: numpy.array([v] * c if isinstance(v, int) else v, dtype="int64")
    return dict(ncross=c, nparent=p, nmating=arr(nm), nprogeny=arr(npg))


def histories_HB(info, tier):
    """(n, designA, designB, order of setter names, minimal?, preselect?, wt, opt, pi)"""
    T = tier == "thorough"
    F = FAM[info["fam"]]
    n = 3 if (info["mate"] and info["enc"] != "subset") else 4
    ds = designs_B_SO(info, n, tier)
    pairs = [(a, b) for a in ds for b in ds if a != b]
    # grow / shrink ncross only, nparent only, both — first; the rest rotate
    key = lambda ab: (0 if (ab[0][1] == ab[1][1]) else (1 if ab[0][0] == ab[1][0] else 2), ab)
    pairs.sort(key=key)
    names = ("ncross", "nparent", "nmating", "nprogeny")
    orders = list(itertools.permutations(names))
    opts = (["sorting"] if (F["sorting"] and info["enc"] == "subset") else []) + ["first"]
    out = []
    k = 0
    full = T and info["enc"] == "subset"
    npairs = len(pairs) if full else min(len(pairs), 8)
    for pi_, (a, b) in enumerate(pairs[:npairs]):
        changed = [nm for nm, x, y in (("ncross", a[0], b[0]), ("nparent", a[1], b[1])) if x != y]
        minimal_names = tuple(changed) + (("nmating", "nprogeny") if a[0] != b[0] else ())
        sets = [(o, False) for o in (orders if (full or pi_ < 3) else orders[k % 24::7])]
        sets += [(o, True) for o in itertools.permutations(minimal_names)]
        for (o, minimal) in sets:
            out.append((n, a, b, tuple(o), minimal, bool(k % 2), (1.0, -1.0)[(k // 2) % 2], opts[k % len(opts)], k % len(F["params"])))
            k += 1
    return out


_FRESH = {}


def _select_once(info, pop, par, design, nmnp, wt, opt, proto=None, crit=None):
    """one select() with default sampling answers; returns (proto, cfg, misc)"""
    c, p = design
    h = R.SamplingHandler(Chooser(), c, 1 if info["mate"] else p, sus_menu=(2 ** 52,), axis_budget=0)
    h.frozen = True
    if info["fam"] == "RandomSelection":
        h.mvn = crit[pop.order, :].copy()
    g = R.make_rng(h, "RandomState")
    if proto is None:
        so = R.library_sorting() if opt == "sorting" else R.make_brute(info["enc"], tiebreak=opt)
        proto = _make_proto(info, pop, par, design, nmnp, 1, wt, 1, g, so, R.make_given_front(info["enc"], [[0.0]]))
    else:
        proto.rng = g
    misc = {}
    with R.patched_global_prng(g):
        cfg = proto.select(miscout=misc, **pop.args())
    return proto, cfg, misc


def run_HB(ctx, info, n, a, b, order, minimal, presel, wt, opt, pi, seed=None):
    seed = ctx.seed if seed is None else seed
    fam = info["fam"]
    F = FAM[fam]
    par = F["params"][pi % len(F["params"])]
    ranks = tuple((i * 3 + 1) % n for i in range(n)) if n != 3 else (1, 2, 0)
    ranks = tuple(sorted(set(ranks)).index(r) for r in ranks)
    variant = variants(n, "quick")[1]
    pop, crit = _population(n, 1, ranks, seed, variant, fam)
    case = dict(part="H-B", cls=info["cls"], mod=info["mod"], n=n, a=list(a), b=list(b), order=list(order), minimal=minimal,
                presel=presel, wt=wt, opt=opt, par=pi, seed=seed)
    ctx.evaluations += 1
    ctx.count("H-B:histories")
    dvb = _design_values(b[0], b[1], 2)
    nmnp_b = (dvb["nmating"].tolist(), dvb["nprogeny"].tolist())
    nmnp_a = _nmnp(2, a[0])
    P = "SelectionProtocol.setters[design]:"

    def body():
        fkey = (info["cls"], n, b, wt, opt, pi, seed)
        fr = _FRESH.get(fkey)
        if fr is None:
            _, cfg0, misc0 = _select_once(info, pop, par, b, nmnp_b, wt, opt, crit=crit)
            fr = _FRESH[fkey] = (numpy.array(cfg0.xconfig_decn), numpy.array(cfg0.xconfig), numpy.array(cfg0.nmating), numpy.array(cfg0.nprogeny))
            if len(_FRESH) > 300:
                _FRESH.pop(next(iter(_FRESH)))
        proto = None
        if presel:
            proto, _, _ = _select_once(info, pop, par, a, nmnp_a, wt, opt, crit=crit)
            ctx.transitions += 1
        else:
            h = R.SamplingHandler(Chooser(), a[0], a[1])
            so = R.library_sorting() if opt == "sorting" else R.make_brute(info["enc"], tiebreak=opt)
            proto = _make_proto(info, pop, par, a, nmnp_a, 1, wt, 1, R.make_rng(h, "RandomState"), so, R.make_given_front(info["enc"], [[0.0]]))
        for name in order:
            setattr(proto, name, dvb[name].copy() if isinstance(dvb[name], numpy.ndarray) else dvb[name])
            ctx.transitions += 1
        _, cfg, misc = _select_once(info, pop, par, b, nmnp_b, wt, opt, proto=proto, crit=crit)
        ctx.transitions += 1
        got = (numpy.array(cfg.xconfig_decn), numpy.array(cfg.xconfig), numpy.array(cfg.nmating), numpy.array(cfg.nprogeny))
        for nm_, g_, f_ in zip(("xconfig_decn", "xconfig", "nmating", "nprogeny"), got, fr):
            require(g_.shape == f_.shape and numpy.array_equal(g_, f_), P + "differs-from-fresh-protocol:" + nm_,
                    lambda: f"protocol built as {a[0]}x{a[1]}, then {'selected once, then ' if presel else ''}assigned {list(order)} -> {b[0]}x{b[1]}: "
                            f"{nm_} = {g_.tolist()}, a freshly constructed {b[0]}x{b[1]} protocol gives {f_.tolist()} (same optimiser, same generator answers)")
        ctx.state(digest((info["cls"], b, got[0], got[1])))
        ctx.outcome(digest(("H", info["enc"], got[0], got[1])))
    if ctx.guard(body, case=case, sig_prefix=f"{info['cls']}.select:"):
        ctx.traces += 1
    ctx.nontriv(digest(("H-B", info["cls"], a, b, order, minimal, presel)))
    ctx.flag("H-B:presel" if presel else "H-B:no-presel")
    ctx.flag("H-B:minimal" if minimal else "H-B:full")


def _valid_cfg_orders(names):
    """setter orders the configuration classes accept: their per-cross array setters validate against the
    current ncross (and the cross map against the current nparent) — 'order dependent assignments'"""
    out = []
    for o in itertools.permutations(names):
        pos = {nm: i for i, nm in enumerate(o)}
        if all(pos["ncross"] < pos[x] for x in ("nmating", "nprogeny") if x in pos and "ncross" in pos) and \
                ("xconfig_xmap" not in pos or "nparent" not in pos or pos["nparent"] < pos["xconfig_xmap"]):
            out.append(o)
    return out


def histories_HA(tier, seed):
    out = []
    for key, (name, enc, mate) in CFG.items():
        if mate:
            xm = xmaps_A("quick")
            items = []
            for (ntaxa, nparent, uniq, rows) in xm[:3]:
                decs = decisions_A_mate(key, len(rows), "quick", seed)
                for c in (1, 2, 3):
                    items.append((c, nparent, decs[(c * 3) % len(decs)], rows))
        else:
            items = []
            for (c, p) in ((1, 2), (2, 2), (3, 1), (2, 1), (1, 3), (3, 2)):
                decs = decisions_A(key, "quick", seed, c * p)
                items.append((c, p, decs[(c + 2 * p) % len(decs)], None))
        pairs = [(x, y) for x in items for y in items if x is not y]
        step = 1 if tier == "thorough" else 3
        for i, (x, y) in enumerate(pairs[::step]):
            names = ("ncross", "nparent", "nmating", "nprogeny", "xconfig_decn") + (("xconfig_xmap",) if mate else ())
            orders = _valid_cfg_orders(names)
            use = orders if (tier == "thorough" or i < 2) else orders[i % len(orders)::11]
            for o in use:
                out.append((key, x, y, o))
    return out


def run_HA(ctx, key, x, y, order, seed=None):
    seed = ctx.seed if seed is None else seed
    name, enc, mate = CFG[key]
    cls = _cfg_cls(key)
    pg = _pgmat(seed)
    (ca, pa, (da, dta), xa), (cb, pb, (db, dtb), xb) = x, y
    case = dict(part="H-A", key=key, x=[ca, pa, [list(da), dta], xa], y=[cb, pb, [list(db), dtb], xb], order=list(order), seed=seed)
    ctx.evaluations += 1
    ctx.count("H-A:histories")
    P = f"{name}.setters:"

    def mk(c, p, d, dt, xm):
        h = R.SamplingHandler(Chooser(), c, 1 if mate else p, sus_menu=(2 ** 52,), axis_budget=0)
        h.frozen = True
        g = R.make_rng(h, "Generator")
        dv = _design_values(c, p, 2)
        args = [c, p, dv["nmating"], dv["nprogeny"], pg, numpy.array(d, dtype=dt)]
        if mate:
            args.append(numpy.array(xm, dtype="int64"))
        return cls(*args, g), dv

    def body():
        fresh, dvb = mk(cb, pb, db, dtb, xb)
        ctx.transitions += 1
        obj, _ = mk(ca, pa, da, dta, xa)
        ctx.transitions += 1
        vals = dict(dvb, xconfig_decn=numpy.array(db, dtype=dtb))
        if mate:
            vals["xconfig_xmap"] = numpy.array(xb, dtype="int64")
        for nm_ in order:
            v = vals[nm_]
            setattr(obj, nm_, v.copy() if isinstance(v, numpy.ndarray) else v)
            ctx.transitions += 1
        h = R.SamplingHandler(Chooser(), cb, 1 if mate else pb, sus_menu=(2 ** 52,), axis_budget=0)
        h.frozen = True
        obj.rng = R.make_rng(h, "Generator")
        ret = obj.sample_xconfig(return_xconfig=True)
        ctx.transitions += 1
        _check_xconfig(f"{name}.sample_xconfig:", enc, mate, list(db), xb, cb, pb, obj.xconfig, None)
        for nm_ in ("xconfig", "nmating", "nprogeny", "xconfig_decn"):
            g_, f_ = numpy.asarray(getattr(obj, nm_)), numpy.asarray(getattr(fresh, nm_))
            require(g_.shape == f_.shape and numpy.array_equal(g_, f_), P + "differs-from-fresh-configuration:" + nm_,
                    lambda: f"configuration built as {ca}x{pa} decision {da}, assigned {list(order)} -> {cb}x{pb} decision {db}, re-sampled: "
                            f"{nm_} = {g_.tolist()}, a freshly constructed one gives {f_.tolist()} (same generator answers)")
        ctx.state(digest((key, cb, pb, db, obj.xconfig)))
        ctx.outcome(digest(("HA", cb, pb, obj.xconfig)))
    if ctx.guard(body, case=case, sig_prefix=P):
        ctx.traces += 1
    ctx.nontriv(digest(("H-A", key, ca, pa, da, cb, pb, db, order)))
    ctx.flag(f"H-A:{key}")


# --------------------------------------------------------------------------------------
def run_shard(spec, ctx):
    ctx.bounds.update({"A_slots_max": 6, "A_decision_len_max": 4 if ctx.tier == "quick" else 6, "A_sus_offsets": len(R.SUS_J)})
    if spec[0] == "X":
        run_X(ctx)
    elif spec[0] == "A":
        for i, (key, c, p, decn, dtype, xmap, menu, split) in enumerate(spec[1]):
            h = len(decn) + sum(1 for v in decn if v) + c + 2 * p
            kind = "Generator" if h % 2 == 0 else "RandomState"
            nm, npg = ((1, 2), (2, 1), ([1 + (j % 2) for j in range(c)], 1), (3, [2 - (j % 2) for j in range(c)]))[(h // 2) % 4]
            run_A(ctx, key, c, p, decn, dtype, xmap, kind, nm, npg, sus_menu=menu, split=split)
            ctx.flag(f"A:{key}:{c}x{p}")
            ctx.flag(f"A:kind:{kind}")
            if not isinstance(nm, int) or not isinstance(npg, int):
                ctx.flag("A:array-counts")
            if dtype == "bool":
                ctx.flag("A:bool-decision")
    elif spec[0] == "I":
        covered, uncovered = discover()
        for info in covered:
            ctx.flag(f"I:covered:{info['cls']}")
            ctx.count("I:protocol-classes-covered")
        for name, why in uncovered:
            ctx.flag(f"I:UNCOVERED:{name}: {why}")
            ctx.count("I:protocol-classes-uncovered")
    elif spec[0] == "B-SO":
        _, ci, n, lo, hi = spec
        info = discover()[0][ci]
        for (t, ranks, vi, design, w, o, pi, nmi, bound) in cases_B_SO(info, n, ctx.tier)[lo:hi]:
            run_B_SO(ctx, info, n, t, ranks, vi, design, w, o, pi, nmi, bound=bound)
        ctx.bounds.update({"B_n_max": 5 if ctx.tier == "thorough" else 4, "B_sampling_deviation_bound": 1})
    elif spec[0] == "H-B":
        for info in discover()[0][spec[1]:spec[2]]:
            for hcase in histories_HB(info, ctx.tier):
                run_HB(ctx, info, *hcase)
    elif spec[0] == "H-A":
        for (key, x, y, o) in histories_HA(ctx.tier, ctx.seed):
            run_HA(ctx, key, x, y, o)
    elif spec[0] == "B-MO":
        _, ci = spec
        info = discover()[0][ci]
        for mcase in cases_B_MO(info, ci, ctx.tier):
            (n, f, sp, ndwt, design, vi), ow = mcase[:6], (mcase[6] if len(mcase) > 6 else None)
            cvs = mcase[7] if len(mcase) > 7 else None
            run_B_MO(ctx, info, n, f, sp, ndwt, design, vi, owt=ow, cvspec=cvs)


def finalize(ctx, tier, seed):
    # vacuity guards that a broken library can trip are waived when that breakage is itself reported as a NEW violation
    from ..core import load_known, match_known
    known = load_known()
    broken = any(match_known(ID, sig, known) is None for sig in ctx.violations)
    for key in CFG:
        assert ctx.counters.get(f"A:exec:{key}", 0) + ctx.counters.get(f"A:exception:{key}", 0) > 0, key
        assert ctx.counters.get(f"A:exec:{key}", 0) > 0 or broken, key
    assert "A:outcross-improved" in ctx.flags or broken
    assert "A:sus-nondefault-offset" in ctx.flags or broken
    assert "A:array-counts" in ctx.flags and "A:bool-decision" in ctx.flags
    assert "A:kind:Generator" in ctx.flags and "A:kind:RandomState" in ctx.flags
    assert ctx.counters.get("X:xmap-cases", 0) == 40
    covered, uncovered = discover()
    assert ctx.counters.get("I:protocol-classes-covered", 0) == len(covered) >= 50
    for info in covered:
        assert f"B-SO:{info['cls']}" in ctx.flags or ctx.counters.get(f"B:exception:{info['cls']}", 0) > 0, info["cls"]
        assert f"B-MO:{info['cls']}" in ctx.flags or ctx.counters.get(f"B:exception:{info['cls']}", 0) > 0, info["cls"]
    for f in ("B-SO:opt:sorting", "B-SO:opt:first", "B-SO:opt:last", "B-SO:ties", "B-MO:spec:default", "B-MO:spec:table",
              "B-MO:ndwt:neg", "B-MO:ndwt:pos", "B-MO:tied-scores"):
        assert f in ctx.flags or broken, f
    assert ctx.counters.get("B-SO:independent-criterion-checks", 0) > 1000 or broken
    assert ctx.counters.get("B-SO:canonical-equivariance-checks", 0) > 100 or broken
    assert ctx.counters.get("B-MO:choice-rule-judged", 0) > 1000 or broken
    for e_ in ("subset", "real", "integer", "binary", "mate-subset", "mate-real", "mate-integer", "mate-binary"):
        assert f"B-MO:mixed-sign-obj_wt:{e_}" in ctx.flags or broken, e_
    for e_ in ("subset", "real", "integer", "binary", "mate-subset", "mate-real", "mate-integer", "mate-binary"):
        for k_ in ("all-feasible", "all-infeasible", "mixed-violator-before-best", "mixed-violator-after-best"):
            assert f"B-MO:cv:{k_}:{e_}" in ctx.flags or broken, (k_, e_)
    assert ctx.counters.get("H-B:histories", 0) > 2000 and ctx.counters.get("H-A:histories", 0) > 500
    for f in ("H-B:presel", "H-B:no-presel", "H-B:minimal", "H-B:full") + tuple(f"H-A:{k}" for k in CFG):
        assert f in ctx.flags, f
    assert len(ctx.outcomes) > 100, len(ctx.outcomes)


def replay(case, ctx):
    if case["part"] == "A":
        run_A(ctx, case["key"], case["ncross"], case["nparent"], case["decn"], case["dtype"], case["xmap"], case["kind"],
              case["nmating"], case["nprogeny"], answers=case["answers"], seed=case.get("seed"),
              sus_menu=None if case.get("sus_menu") is None else tuple(case["sus_menu"]))
    elif case["part"] == "X":
        run_X(ctx)
    elif case["part"] == "H-B":
        info = next(i for i in discover()[0] if i["cls"] == case["cls"])
        run_HB(ctx, info, case["n"], tuple(case["a"]), tuple(case["b"]), tuple(case["order"]), case["minimal"], case["presel"],
               case["wt"], case["opt"], case["par"], seed=case.get("seed"))
    elif case["part"] == "H-A":
        def _it(v):
            return (v[0], v[1], (list(v[2][0]), v[2][1]), None if v[3] is None else [tuple(r) for r in v[3]])
        run_HA(ctx, case["key"], _it(case["x"]), _it(case["y"]), tuple(case["order"]), seed=case.get("seed"))
    elif case["part"] in ("B-SO", "B-MO"):
        ctx.tier = case.get("tier", ctx.tier)
        info = next(i for i in discover()[0] if i["cls"] == case["cls"])
        if case["part"] == "B-SO":
            run_B_SO(ctx, info, case["n"], case["t"], tuple(case["ranks"]), case["variant"], tuple(case["design"]), case["wt"], case["opt"],
                     case["par"], case["nmnp"], answers=None if case.get("explore") else case["answers"], seed=case.get("seed"),
                     bound=case.get("explore") or 0)
        else:
            sp = case["spec"]
            spec = (sp[0],) + tuple(tuple(x) for x in sp[1:])
            run_B_MO(ctx, info, case["n"], tuple(tuple(r) for r in case["front"]), spec, case["ndwt"], tuple(case["design"]), case["variant"],
                     seed=case.get("seed"), owt=None if case.get("owt") is None else tuple(case["owt"]),
                     cvspec=None if case.get("cvspec") is None else (case["cvspec"][0], tuple(case["cvspec"][1])))
