"""C20 — breeding-programme loop protocol and replicate independence.

TLA+ model (mc/tla/Loop.tla) of the call protocol of
RecurrentSelectionBreedingProgram.evolve, model checked by TLC once per constant
assignment (NREP, NGEN, LOGINIT, PSELBEH, EMPTY = which start containers are empty dicts); the COMPLETE state graph is dumped
(-dump dot,actionlabels), parsed with plain Python, and EVERY behaviour of the
graph (one per environment choice: behaviour of each of the four operators towards
the state containers x start state given / obtained from the InitializationOperator)
is replayed against the real evolve() with instrumented operator / logbook
subclasses of the public abstract interfaces.  The implementation's recorded call
trace must equal the model's action sequence label for label, with the model's
time index, replicate counter, received state (content and sharing with the stored
start state) and the model's start-state history; independently of the model's data
part the harness checks object-identity data flow (every call received exactly the
objects its predecessor returned).
"""
from __future__ import annotations
import ast, hashlib, os, re, shutil, subprocess, tempfile

from .. import compat  # noqa: F401
from ..core import Violation, digest, VERIF

ID = "C20"
TECHNIQUE = ("TLA+ protocol model (mc/tla/Loop.tla, environment = operator behaviours included) model checked by TLC; "
             "complete state graph dumped and every behaviour replayed step by step against "
             "RecurrentSelectionBreedingProgram.evolve with instrumented operators (conformance + identity data-flow oracle)")
RULE = ("one TLC run per (NREP, NGEN, LOGINIT, behaviour of the parent-selection operator, EMPTY = set of start containers that are "
        "empty dicts: none on the full grid, 2 (quick) / 4 (thorough) non-trivial sets incl. all five on a sub-grid); a programme "
        "constructed with a start state carries an InitializationOperator that would return a different state, so a spurious "
        "re-initialisation is observable; the deadline t_max is NGEN-1 everywhere and every value of {0,1,NGEN-1,NGEN,NGEN+3} on 5 (quick) / 9 "
        "(thorough) grid points (chosen in the model's Init); every initial state of the model is "
        "one environment (4^4 operator behaviours {pure,inplace,alias,mixed} x start state given directly / via InitializationOperator x t_max) "
        "and yields one behaviour (the protocol is deterministic given the environment); every maximal path of the dumped graph is "
        "replayed on the real evolve(): once as one evolve() call, once more per way of splitting NREP>=2 into two consecutive evolve() calls "
        "on the same programme and logbook (must give the same observable behaviour), and "
        "once more (uninitialised programmes) with an InitializationOperator whose initialize() has exactly the abstract signature; "
        "states = TLC distinct states summed over runs, transitions = TLC edges + operator/logbook calls made by the implementation, "
        "traces = TLC behaviours whose replay (one evolve() call) agreed step for step, the other two variants are counted separately; non-trivial = NREP>=2 and at least one operator mutates or aliases")
ASSUME = ["TLC 1.8 explores the complete reachable state graph of Loop.tla for each constant assignment and -dump dot writes all of it "
          "(the harness cross-checks node count against TLC's 'distinct states found' and requires an empty queue)",
          "operators are modelled by four behaviours per container (fresh copy / in-place mutation of dict and inner object / "
          "returning the stored start container's inner object / a fixed mixture); containers are dict -> object -> list, three levels deep",
          "an operator that itself aliases the stored start state into the working state and then mutates it is allowed to change the "
          "start state (the model says exactly when); the programme itself never may",
          "mc/compat.py restores removed numpy names only"]

TLA_DIR = os.path.join(VERIF, "mc", "tla")
TLA_FILE = os.environ.get("VERIF_C20_TLA", os.path.join(TLA_DIR, "Loop.tla"))   # override only for the wrong-model demonstration

CONT = ("genome", "geno", "pheno", "bval", "gmod")
OPS = ("psel", "mate", "eval", "ssel")
BEHS = ("pure", "inplace", "alias", "mixed")
MIXED = {"genome": "pure", "geno": "inplace", "pheno": "alias", "bval": "inplace", "gmod": "pure"}   # = MixedMap of Loop.tla
CODE = {"psel": 1, "mate": 2, "eval": 3, "ssel": 4}                                                    # = Code of Loop.tla
INVARIANTS = ("TypeOK TimeIndex OncePerGeneration LogAfterEveryStep RepCounter McfgFresh ReplicateStartsFromStart "
              "StartNeverModified StartCleanForHonestEnv NothingBeforeInit GivenStateIsKept TimeIgnoresDeadline").split()
PROPERTIES = ["StepProps"]

# model action label -> event the instrumented environment must observe (None: not observable from outside)
EVENT = {"Initialize": "initialize", "ResetRep": "rep", "EvalInit": "evaluate", "LogInit": "log_initialize",
         "PSelect": "pselect", "LogPSelect": "log_pselect", "Mate": "mate", "LogMate": "log_mate",
         "Evaluate": "evaluate", "LogEvaluate": "log_evaluate", "SSelect": "sselect", "LogSSelect": "log_sselect",
         "Tick": None, "Finish": None, "Terminated": None}
OP_OF = {"EvalInit": "eval", "PSelect": "psel", "Mate": "mate", "Evaluate": "eval", "SSelect": "ssel"}
MAX_PATHS_PER_GRAPH = 100000
SIG = "RecurrentSelectionBreedingProgram.evolve:"


# value alphabet rotated by VERIF_SEED (never the structure)
def alphabet(seed):
    return dict(label=["founder", "F0", "base-pop"][seed % 3], rep0=[0, 4, 11][seed % 3])


def tmax_full(ngen):
    """The deadlines t_max enumerated on the t_max grid points: 0, 1, NGEN-1, NGEN, NGEN+3 (non-negative ones)."""
    return tuple(sorted({0, 1, max(ngen - 1, 0), ngen, ngen + 3}))


def tmax_default(ngen):
    """Elsewhere one deadline, chosen so that the time index passes it whenever there is more than one cycle."""
    return (max(ngen - 1, 0),)


# ============================================================================
# TLC
def write_cfg(path, nrep, ngen, loginit, pselbeh, empty=(), tmaxset=(20,)):
    with open(path, "w") as f:
        f.write("SPECIFICATION Spec\nCONSTANTS\n")
        f.write(f"  NREP = {nrep}\n  NGEN = {ngen}\n  LOGINIT = {'TRUE' if loginit else 'FALSE'}\n")
        f.write("  PSELBEH = {" + ", ".join('"%s"' % b for b in pselbeh) + "}\n")
        f.write("  EMPTY = {" + ", ".join('"%s"' % c for c in empty) + "}\n")
        f.write("  TMAXSET = {" + ", ".join(str(int(t)) for t in tmaxset) + "}\n")
        f.write("INVARIANTS\n" + "".join(f"  {i}\n" for i in INVARIANTS))
        f.write("PROPERTIES\n" + "".join(f"  {p}\n" for p in PROPERTIES))


def run_tlc(scratch, nrep, ngen, loginit, pselbeh, empty=(), tmaxset=(20,)):
    """Model check Loop.tla for one constant assignment inside `scratch`; return (stats, dot path)."""
    shutil.copy(TLA_FILE, os.path.join(scratch, "Loop.tla"))
    write_cfg(os.path.join(scratch, "Loop.cfg"), nrep, ngen, loginit, pselbeh, empty, tmaxset)
    jtmp = os.path.join(scratch, "jtmp")
    os.makedirs(jtmp, exist_ok=True)
    env = dict(os.environ)
    env["JAVA_TOOL_OPTIONS"] = f"-Xmx1g -XX:TieredStopAtLevel=1 -Djava.io.tmpdir={jtmp}"
    cmd = ["tlc", "-workers", "1", "-noGenerateSpecTE", "-metadir", os.path.join(scratch, "meta"),
           "-dump", "dot,actionlabels", os.path.join(scratch, "graph"), "-config", "Loop.cfg", "Loop"]
    p = subprocess.run(cmd, cwd=scratch, env=env, stdout=subprocess.PIPE, stderr=subprocess.STDOUT, text=True, timeout=900)
    out = p.stdout
    if "Model checking completed. No error has been found." not in out:
        keep = [l for l in out.splitlines() if not l.startswith(("Parsing", "Semantic", "Picked up", "Computed", "  ", "/\\"))]
        raise RuntimeError("TLC did not verify Loop.tla for NREP=%s NGEN=%s LOGINIT=%s PSELBEH=%s EMPTY=%s (exit %s):\n%s"
                           % (nrep, ngen, loginit, pselbeh, empty, p.returncode, "\n".join(keep)[-3000:]))
    m = re.search(r"(\d+) states generated, (\d+) distinct states found, (\d+) states left on queue", out)
    d = re.search(r"depth of the complete state graph search is (\d+)", out)
    if not m or int(m.group(3)) != 0:
        raise RuntimeError("TLC statistics not found / queue not empty:\n" + out[-1500:])
    stats = dict(generated=int(m.group(1)), distinct=int(m.group(2)), depth=int(d.group(1)) if d else None)
    return stats, os.path.join(scratch, "graph.dot")


# ============================================================================
# dot dump -> graph  (plain Python)
_NODE = re.compile(r'^(-?\d+) \[label="((?:[^"\\]|\\.)*)"(.*)\]\s*;?\s*$')
_EDGE = re.compile(r'^(-?\d+) -> (-?\d+) \[label="((?:[^"\\]|\\.)*)"')
_FIELD = re.compile(r"([A-Za-z_][A-Za-z0-9_]*) \|->")


def _unescape(s):
    return s.replace("\\n", "\n").replace('\\"', '"').replace("\\\\", "\\")


_VCACHE = {}


def parse_tla_value(txt):
    """TLA+ value as printed by TLC -> Python (records/functions over strings -> dict, sequences -> list).
    Memoised on the text: parsed values are shared between states and must be treated as read-only."""
    v = _VCACHE.get(txt)
    if v is None:
        v = _VCACHE[txt] = _parse_tla_value(txt)
    return v


def _parse_tla_value(txt):
    t = txt.replace("<<", "\x01").replace(">>", "\x02")
    t = _FIELD.sub(r'"\1":', t)
    t = t.replace("[", "{").replace("]", "}").replace("\x01", "[").replace("\x02", "]")
    t = re.sub(r"\bTRUE\b", "True", t)
    t = re.sub(r"\bFALSE\b", "False", t)
    return ast.literal_eval(t.strip())


def parse_state(label):
    txt = _unescape(label)
    parts = re.split(r"(?:^|\n)/\\ ", txt)
    st = {}
    for part in parts:
        if not part.strip():
            continue
        name, _, val = part.partition(" = ")
        st[name.strip()] = parse_tla_value(val)
    return st


def parse_dot(path):
    """-> nodes {id: state dict}, initial ids (in file order), edges {src: [(label, dst), ...]} (file order),
    number of edges, {id: digest of the state's text}."""
    nodes, init, edges, nedges, texts = {}, [], {}, 0, {}
    with open(path) as f:
        for line in f:
            if " -> " in line[:48]:
                m = _EDGE.match(line)
                if m:
                    edges.setdefault(m.group(1), []).append((m.group(3), m.group(2)))
                    nedges += 1
                    continue
            m = _NODE.match(line)
            if m:
                nid = m.group(1)
                if nid not in nodes:
                    nodes[nid] = parse_state(m.group(2))
                    texts[nid] = hashlib.blake2b(m.group(2).encode(), digest_size=10).digest()
                if "style = filled" in m.group(3) and nid not in init:
                    init.append(nid)
    return nodes, init, edges, nedges, texts


def behaviours(nodes, init, edges):
    """Every maximal path (list of (label, dst id)) from every initial state; the graph must be acyclic apart
    from Terminated self-loops and every terminal state must be pc = "Done" (termination of the model)."""
    out = []
    for i0 in init:
        stack = [(i0, [], {i0})]
        while stack:
            nid, path, onpath = stack.pop()
            succ = [(l, d) for (l, d) in edges.get(nid, []) if d != nid]
            for l, d in edges.get(nid, []):
                if d == nid and l != "Terminated":
                    raise RuntimeError(f"model graph: self-loop {l} on a state that is not a termination stutter")
            if not succ:
                if nodes[nid]["pc"] != "Done":
                    raise RuntimeError(f"model graph: terminal state with pc={nodes[nid]['pc']}")
                out.append((i0, path))
                if len(out) > MAX_PATHS_PER_GRAPH:
                    return out, True
                continue
            for l, d in reversed(succ):
                if d in onpath:
                    raise RuntimeError("model graph has a cycle: behaviours would not terminate")
                stack.append((d, path + [(l, d)], onpath | {d}))
    return out, False


# ============================================================================
# the instrumented environment (harness-side subclasses of the public abstract interfaces)
from pybrops.breed.arch.RecurrentSelectionBreedingProgram import RecurrentSelectionBreedingProgram
from pybrops.breed.op.init.InitializationOperator import InitializationOperator
from pybrops.breed.op.psel.ParentSelectionOperator import ParentSelectionOperator
from pybrops.breed.op.mate.MatingOperator import MatingOperator
from pybrops.breed.op.eval.EvaluationOperator import EvaluationOperator
from pybrops.breed.op.ssel.SurvivorSelectionOperator import SurvivorSelectionOperator
from pybrops.breed.op.log.Logbook import Logbook


class Box:
    """Inner object of a state container (stands for a matrix object holding an array)."""
    def __init__(self, items):
        self.items = items


def make_state(label, empty=()):
    """The five start containers; those named in `empty` are empty dicts (a valid start container:
    e.g. start_pheno = {} before anything has been phenotyped)."""
    return tuple({} if c in empty else {"outer": (f"{label}:{c}",), "inner": Box([f"{label}:{c}"])} for c in CONT)


def content(d):
    """(dict-level entries, entries of the inner object's array); an empty dict is ((), ())."""
    try:
        return (tuple(d.get("outer", ())), tuple(d["inner"].items) if "inner" in d else ())
    except Exception:
        return ("<malformed>", type(d).__name__)


def ident(d):
    try:
        return (id(d), id(d["inner"]), id(d["inner"].items)) if "inner" in d else (id(d), None, None)
    except Exception:
        return (id(d), None, None)


def shares(d, s):
    """Which levels of container d are the very objects of the stored start container s."""
    try:
        if "inner" in d and "inner" in s:
            return (d is s, d["inner"] is s["inner"], d["inner"].items is s["inner"].items)
        return (d is s, False, False)
    except Exception:
        return ("<malformed>",)


class Recorder:
    def __init__(self):
        self.events = []
        self.keep = []          # every object ever seen stays alive: ids are never reused within a run
        self.prog = None
        self.lbook = None
        self.ncalls = 0

    def start_containers(self):
        return tuple(getattr(self.prog, "start_" + c) for c in CONT)

    def snap(self, state):
        st = self.start_containers()
        self.keep.append(state)
        return dict(id=[ident(d) for d in state], content=[content(d) for d in state],
                    shares=[shares(d, s) if s is not None else None for d, s in zip(state, st)])

    def start_content(self):
        return [content(s) if s is not None else None for s in self.start_containers()]

    def event(self, name, **kw):
        self.ncalls += 1
        kw["ev"] = name
        kw["rep"] = self.lbook._rep if self.lbook is not None else None
        self.events.append(kw)
        return kw


def _apply(op, beh, rec, state, t_cur):
    tok = 10 * t_cur + CODE[op]
    out = []
    for c, d in zip(CONT, state):
        b = MIXED[c] if beh == "mixed" else beh
        if b == "pure":
            out.append({"outer": d.get("outer", ()) + (tok,),
                        "inner": Box((list(d["inner"].items) if "inner" in d else []) + [tok])})
        elif b == "inplace":
            d["outer"] = d.get("outer", ()) + (tok,)
            if "inner" in d:
                d["inner"].items.append(tok)
            else:
                d["inner"] = Box([tok])
            out.append(d)
        else:  # alias: a new dict around the stored start container's inner object (nothing to share if that is empty)
            s = getattr(rec.prog, "start_" + c)
            out.append(dict(s))
    return tuple(out)


class _Op:
    def __init__(self, rec, beh):
        self.rec, self.beh = rec, beh

    def _call(self, name, op, genome, geno, pheno, bval, gmod, t_cur, t_max, miscout, mcfg=None):
        rec = self.rec
        state = (genome, geno, pheno, bval, gmod)
        e = rec.event(name, t_cur=t_cur, t_max=t_max, start_before=rec.start_content(), recv=rec.snap(state))
        if mcfg is not None or name == "mate":
            e["mcfg"] = id(mcfg)
            rec.keep.append(mcfg)
        if not isinstance(t_cur, int):
            raise Violation(SIG + "t_cur:" + name, f"{name} received t_cur={t_cur!r}")
        out = _apply(op, self.beh, rec, state, t_cur)
        if miscout is not None:
            miscout["tag"] = (name, t_cur)
        e["ret"] = rec.snap(out)
        e["start_after"] = rec.start_content()
        return out


class POp(_Op, ParentSelectionOperator):
    def pselect(self, genome, geno, pheno, bval, gmod, t_cur, t_max, miscout, **kwargs):
        out = self._call("pselect", "psel", genome, geno, pheno, bval, gmod, t_cur, t_max, miscout)
        mcfg = {"made_at": t_cur}
        self.rec.keep.append(mcfg)
        self.rec.events[-1]["mcfg_ret"] = id(mcfg)
        return (mcfg,) + out


class MOp(_Op, MatingOperator):
    def mate(self, mcfg, genome, geno, pheno, bval, gmod, t_cur, t_max, miscout, **kwargs):
        return self._call("mate", "mate", genome, geno, pheno, bval, gmod, t_cur, t_max, miscout, mcfg=mcfg)


class EOp(_Op, EvaluationOperator):
    def evaluate(self, genome, geno, pheno, bval, gmod, t_cur, t_max, miscout, **kwargs):
        return self._call("evaluate", "eval", genome, geno, pheno, bval, gmod, t_cur, t_max, miscout)


class SOp(_Op, SurvivorSelectionOperator):
    def sselect(self, genome, geno, pheno, bval, gmod, t_cur, t_max, miscout, **kwargs):
        return self._call("sselect", "ssel", genome, geno, pheno, bval, gmod, t_cur, t_max, miscout)


class IOpLenient(InitializationOperator):
    """miscout optional, as in every example shipped with the library."""
    def __init__(self, rec, label, empty=()):
        self.rec, self.label, self.empty = rec, label, empty

    def initialize(self, miscout=None, **kwargs):
        self.rec.event("initialize")
        return make_state(self.label, self.empty)


class IOpStrict(InitializationOperator):
    """initialize() with exactly the signature of the abstract interface."""
    def __init__(self, rec, label, empty=()):
        self.rec, self.label, self.empty = rec, label, empty

    def initialize(self, miscout, **kwargs):
        self.rec.event("initialize")
        return make_state(self.label, self.empty)


class LBook(Logbook):
    def __init__(self, rec, rep0):
        self.rec = rec
        self._rep = rep0
        self._data = {}

    @property
    def data(self):
        return self._data

    @data.setter
    def data(self, value):
        self._data = value

    @property
    def rep(self):
        return self._rep

    @rep.setter
    def rep(self, value):
        self._rep = value
        self.rec.event("rep", value=value)

    def _log(self, name, genome, geno, pheno, bval, gmod, t_cur, t_max, mcfg=None, **kwargs):
        e = self.rec.event(name, t_cur=t_cur, t_max=t_max, start_before=self.rec.start_content(),
                           recv=self.rec.snap((genome, geno, pheno, bval, gmod)))
        e["start_after"] = e["start_before"]
        if name == "log_pselect":
            e["mcfg"] = id(mcfg)

    def log_initialize(self, genome, geno, pheno, bval, gmod, t_cur, t_max, **kwargs):
        self._log("log_initialize", genome, geno, pheno, bval, gmod, t_cur, t_max, **kwargs)

    def log_pselect(self, mcfg, genome, geno, pheno, bval, gmod, t_cur, t_max, **kwargs):
        self._log("log_pselect", genome, geno, pheno, bval, gmod, t_cur, t_max, mcfg=mcfg, **kwargs)

    def log_mate(self, genome, geno, pheno, bval, gmod, t_cur, t_max, **kwargs):
        kwargs.pop("mcfg", None)
        self._log("log_mate", genome, geno, pheno, bval, gmod, t_cur, t_max, **kwargs)

    def log_evaluate(self, genome, geno, pheno, bval, gmod, t_cur, t_max, **kwargs):
        self._log("log_evaluate", genome, geno, pheno, bval, gmod, t_cur, t_max, **kwargs)

    def log_sselect(self, genome, geno, pheno, bval, gmod, t_cur, t_max, **kwargs):
        self._log("log_sselect", genome, geno, pheno, bval, gmod, t_cur, t_max, **kwargs)

    def reset(self):
        self._data = {}
        self._rep = 0

    def write(self, filename):
        raise NotImplementedError("the harness logbook is never written")


def run_impl(rec, beh, preinit, nrep, ngen, loginit, seed, strict_init=False, split=None, empty=(), t_max=20):
    """One run of the real evolve() in the given environment, recorded in `rec` (also when evolve() raises).
    A programme constructed WITH a start state gets an InitializationOperator that would return a DIFFERENT
    (fully populated, differently labelled) state, so a spurious re-initialisation is observable."""
    al = alphabet(seed)
    if preinit:
        initop = (IOpStrict if strict_init else IOpLenient)(rec, "re-initialised:" + al["label"], ())
    else:
        initop = (IOpStrict if strict_init else IOpLenient)(rec, al["label"], empty)
    kw = {}
    if preinit:
        st = make_state(al["label"], empty)
        rec.keep.append(st)
        kw = {"start_" + c: d for c, d in zip(CONT, st)}
    prog = RecurrentSelectionBreedingProgram(
        initop=initop, pselop=POp(rec, beh["psel"]), mateop=MOp(rec, beh["mate"]),
        evalop=EOp(rec, beh["eval"]), sselop=SOp(rec, beh["ssel"]), t_max=t_max, **kw)
    rec.prog = prog
    rec.lbook = LBook(rec, al["rep0"])
    for n in ([nrep] if not split else list(split)):
        prog.evolve(nrep=n, ngen=ngen, lbook=rec.lbook, loginit=loginit)
    rec.final_start = rec.start_content()
    return rec


# ============================================================================
# conformance: model behaviour (list of [label, post-state]) vs recorded events
def _model_content(label, c, outer, inner, empty=()):
    if c in empty:
        return (tuple(outer), tuple(inner))
    base = f"{label}:{c}"
    return ((base,) + tuple(outer), (base,) + tuple(inner))


class HarnessMismatch(Exception):
    """The model's data part and the harness environment disagree: a harness/model bug, never a verdict."""


def _fail(sig, detail):
    raise Violation(SIG + sig, detail)


def conform(rec, s0, steps, seed, empty=()):
    """Raise Violation at the first step at which the recorded trace departs from the model behaviour.
    steps: list of (action label, post-state).  Returns the number of observable calls compared."""
    al = alphabet(seed)
    lab, rep0, t_max = al["label"], al["rep0"], s0.get("t_max", 20)
    honest = all(b in ("pure", "inplace") for b in s0["beh"].values())
    init_content = [_model_content(lab, c, (), (), empty) for c in CONT]
    ev = rec.events
    k = 0
    pre = s0
    cur_ids = None          # identities of the state in flight (what the last operator returned)
    cur_mcfg = None
    first_of_rep = False
    for label, post in steps:
        name = EVENT[label]
        if name is None:
            pre = post
            continue
        got = ev[k]["ev"] if k < len(ev) else "end-of-trace"
        if got != name:
            _fail(f"call-order:expected-{name}-got-{got}",
                  f"observable step {k}: the protocol does {label} ({name}; replicate {post['rep']}, generation {pre['gen']}, "
                  f"t_cur {pre['t_cur']}) but the programme's call #{k} is {got}; calls so far: {[e['ev'] for e in ev[:k + 1]]}")
        e = ev[k]
        k += 1
        if label == "Initialize":
            pre = post
            continue
        if label == "ResetRep":
            if e["value"] != rep0 + post["rep"]:
                _fail("rep-counter", f"logbook rep set to {e['value']} when replicate {post['rep']} begins (counter started at {rep0})")
            first_of_rep = True
            cur_ids = None
            pre = post
            continue
        # operator or log call ------------------------------------------------
        where = "evaluate-init" if label == "EvalInit" else name
        ctxt = (name, pre["rep"], pre["gen"], pre["t_cur"])
        if e["t_cur"] != pre["t_cur"]:
            _fail("t_cur:" + where, f"{name} (protocol action {label}, replicate {pre['rep']}, generation {pre['gen']}) received "
                                    f"t_cur={e['t_cur']}, the protocol says {pre['t_cur']}")
        if e["rep"] != rep0 + pre["rep"]:
            _fail("rep-counter:" + where, f"{name}: logbook rep is {e['rep']} during replicate {pre['rep']} (counter started at {rep0})")
        if e["t_max"] != t_max:
            _fail("t_max:" + where, f"{name} received t_max={e['t_max']}, the programme was built with {t_max}")
        rv = e["recv"]
        work = pre["work"]
        # the stored start state when the call is made (nobody but the environment may have touched it)
        for ci, c in enumerate(CONT):
            exp = _model_content(lab, c, (), pre["start"][c], empty)
            if e["start_before"][ci] != exp:
                _fail("start-state-modified", f"when (call, replicate, generation, t_cur)={ctxt} is made "
                                              f"start_{c}={e['start_before'][ci]}; protocol: {exp}")
        # identity data flow: exactly the objects the predecessor returned
        if cur_ids is not None and rv["id"] != cur_ids:
            ci = next(i for i in range(5) if rv["id"][i] != cur_ids[i])
            _fail("dataflow:" + where, f"(call, replicate, generation, t_cur)={ctxt}: the '{CONT[ci]}' container received is not the object "
                                       f"returned by the preceding operator (content received {rv['content'][ci]})")
        # sharing with the stored start state as the model says (never the dict itself)
        for ci, c in enumerate(CONT):
            a = work[c]["alias"]
            if rv["shares"][ci] != (False, a, a):
                _fail("shares-start-state:" + where,
                      f"(call, replicate, generation, t_cur)={ctxt}: levels (dict, inner object, its array) of the received '{c}' "
                      f"container that ARE the stored start_{c}'s own objects: {rv['shares'][ci]}; protocol: {(False, a, a)}")
        # content as the model says
        for ci, c in enumerate(CONT):
            w = work[c]
            exp = _model_content(lab, c, w["outer"], w["inner"], empty)
            if first_of_rep and honest and exp != init_content[ci]:
                raise HarnessMismatch("model: a replicate does not start from the initial state under an honest environment", empty)
            if rv["content"][ci] != exp:
                _fail("replicate-start-state" if first_of_rep else "received-state:" + where,
                      f"(call, replicate, generation, t_cur)={ctxt} received {c}={rv['content'][ci]}; protocol: {exp} "
                      f"(initial state {init_content[ci]}; edits are 10*t_cur + code, psel=1 mate=2 eval=3 ssel=4)")
        if label in OP_OF:
            rt = e["ret"]
            pw = post["work"]
            for ci, c in enumerate(CONT):          # the environment did what the model says it does (harness self-check)
                w = pw[c]
                if rt["content"][ci] != _model_content(lab, c, w["outer"], w["inner"], empty) or rt["shares"][ci] != (False, w["alias"], w["alias"]):
                    raise HarnessMismatch(f"harness operator {name} and model disagree on {c} after {ctxt}: "
                                          f"{rt['content'][ci]} {rt['shares'][ci]} vs {w}")
            cur_ids = rt["id"]
            if label == "PSelect":
                cur_mcfg = e["mcfg_ret"]
            if label == "Mate" and e["mcfg"] != cur_mcfg:
                _fail("mcfg:mate", f"(call, replicate, generation, t_cur)={ctxt}: mate did not receive the mating configuration "
                                   f"returned by this generation's pselect")
        else:
            if label == "LogPSelect" and e["mcfg"] != cur_mcfg:
                _fail("mcfg:log_pselect", f"(call, replicate, generation, t_cur)={ctxt}: log_pselect did not receive the mating "
                                          f"configuration returned by pselect")
            if cur_ids is None:
                raise HarnessMismatch("model: log before any operator call")
        # stored start state after the step
        ps = post["start"]
        for ci, c in enumerate(CONT):
            exp = _model_content(lab, c, (), ps[c], empty)
            if e["start_after"][ci] != exp:
                _fail("start-state-modified", f"after (call, replicate, generation, t_cur)={ctxt} start_{c}={e['start_after'][ci]}; protocol: {exp}")
        first_of_rep = False
        pre = post
    if k != len(ev):
        _fail(f"call-order:expected-end-of-trace-got-{ev[k]['ev']}",
              f"the protocol behaviour ends after {k} observable calls, the programme made {len(ev)}: extra {[e['ev'] for e in ev[k:k + 6]]}")
    # the stored initial state at the end
    for ci, c in enumerate(CONT):
        exp = _model_content(lab, c, (), pre["start"][c], empty)
        if honest and exp != init_content[ci]:
            raise HarnessMismatch("model: start state modified under an honest environment")
        if rec.final_start[ci] != exp:
            _fail("start-state-modified", f"after evolve() start_{c}={rec.final_start[ci]}; protocol: {exp}")
    return k


def replay_behaviour(ctx, consts, s0, steps, seed, variants=None):
    """Replay one model behaviour on the implementation in every applicable variant."""
    nrep, ngen, loginit, empty = consts
    empty = tuple(empty)
    beh, preinit, t_max = s0["beh"], s0["preinit"], s0.get("t_max", 20)
    todo = [("single", False, None)]
    for k in range(1, nrep):
        todo.append(("split", False, (k, nrep - k)))
    if not preinit:
        todo.append(("strict-init", True, None))
    if variants is not None:        # replay of one recorded case: (variant name, split)
        todo = [t for t in todo if (t[0], t[2]) in variants]
    base_ok = True
    for vname, strict, split in todo:
        case = dict(nrep=nrep, ngen=ngen, loginit=loginit, empty=list(empty), t_max=t_max, beh=dict(beh), preinit=preinit, variant=vname,
                    split=list(split) if split else None, seed=seed, s0=s0, steps=[[l, s] for l, s in steps])
        box = {}

        def go():
            rec = box["rec"] = Recorder()
            run_impl(rec, beh, preinit, nrep, ngen, loginit, seed, strict_init=strict, split=split, empty=empty, t_max=t_max)
            try:
                box["ncmp"] = conform(rec, s0, steps, seed, empty)
            except HarnessMismatch as ex:
                box["mismatch"] = ex

        ctx.evaluations += 1
        ok = ctx.guard(go, case=case, sig_prefix=SIG + ("strict-init:" if strict else ""))
        if "mismatch" in box:
            raise RuntimeError(f"model/harness mismatch for {dict(beh)} preinit={preinit} NREP={nrep} NGEN={ngen} LOGINIT={loginit} EMPTY={empty} t_max={t_max} "
                               f"[{vname}]: {box['mismatch']}")
        rec = box.get("rec")
        if rec is not None:
            ctx.transitions += rec.ncalls
            ctx.count("impl-calls", rec.ncalls)
            ctx.outcome(hashlib.blake2b(repr([(e["ev"], e.get("t_cur"), e.get("t_max"), e.get("rep"), e.get("recv", {}).get("content"),
                                                e.get("recv", {}).get("shares")) for e in rec.events]).encode(), digest_size=8).digest())
        ctx.count("impl-runs:" + vname)
        if ok:
            ctx.count("impl-runs-agreeing-with-model:" + vname)
            ctx.count("calls-compared-with-model", box.get("ncmp", 0))
            if nrep >= 1 and vname == "single":
                ctx.count("impl-runs-agreeing-with-model:single:NREP>=1")
        if vname == "single":
            base_ok = ok
    return base_ok


# ============================================================================
# initial-state alphabet: which of the five start containers are empty dicts.  The full (NREP, NGEN, LOGINIT) grid is
# run with fully populated containers; the other initial states on a sub-grid (empty containers interact with
# initialisation, reset and aliasing, not with the number of generations).
EMPTY_VARIANTS = {"quick": [("pheno", "bval"), CONT],
                  "thorough": [("pheno",), ("pheno", "bval"), ("genome", "geno", "gmod"), CONT]}
EMPTY_GRID = {"quick": [(2, 1, True), (1, 0, False), (0, 1, True)],
              "thorough": [(3, 2, True), (2, 1, True), (2, 1, False), (1, 2, True), (1, 0, False), (0, 1, True)]}


# configuration alphabet: the programme's deadline t_max.  On the grid points below every t_max in
# {0, 1, NGEN-1, NGEN, NGEN+3} is enumerated (in the model: t_max in TMAXSET, chosen in Init); elsewhere one value,
# NGEN-1, so that with two cycles the time index always has to pass the deadline.
TMAX_GRID = {"quick": [(2, 2, True), (1, 2, False), (2, 1, False), (1, 1, True), (1, 0, True)],
             "thorough": [(3, 2, True), (2, 2, True), (2, 2, False), (1, 2, True), (1, 2, False),
                          (2, 1, True), (1, 1, False), (2, 0, True), (1, 0, False)]}


def shards(tier, seed):
    T = tier == "thorough"
    out = []
    for nrep in ((3, 2, 1) if T else (2, 1)):
        for ngen in (2, 1, 0):
            for loginit in (True, False):
                tms = tmax_full(ngen) if (nrep, ngen, loginit) in TMAX_GRID[tier] else tmax_default(ngen)
                for tm in tms:              # one TLC run per deadline (keeps the shards of similar cost)
                    for b in BEHS:
                        out.append((nrep, ngen, loginit, (b,), (), (tm,)))
    for empty in EMPTY_VARIANTS[tier]:
        for nrep, ngen, loginit in EMPTY_GRID[tier]:
            for b in BEHS:
                out.append((nrep, ngen, loginit, (b,), tuple(empty), tmax_default(ngen)))
    for b in BEHS:                      # nrep = 0: evolve() only initialises
        out.append((0, 1, True, (b,), (), tmax_default(1)))
    return out


def run_shard(spec, ctx):
    nrep, ngen, loginit, pselbeh, empty, tmaxset = spec
    T = ctx.tier == "thorough"
    ctx.bounds.update({"NREP": [0, 1, 2, 3] if T else [0, 1, 2], "NGEN": [0, 1, 2], "LOGINIT": [True, False],
                       "operator_behaviours": list(BEHS), "operators": list(OPS), "containers": list(CONT),
                       "start_state": ["constructor", "InitializationOperator"], "container_depth": 3,
                       "t_max": "NGEN-1 everywhere; {0, 1, NGEN-1, NGEN, NGEN+3} on (NREP,NGEN,LOGINIT) in %s" % (TMAX_GRID[ctx.tier],),
                       "empty_start_containers": [list(e) for e in [()] + EMPTY_VARIANTS[ctx.tier]],
                       "empty_start_containers_grid(NREP,NGEN,LOGINIT)": [list(g) for g in EMPTY_GRID[ctx.tier]]})
    scratch = tempfile.mkdtemp(prefix="c20_", dir=os.environ.get("VERIF_SCRATCH") or None)
    try:
        stats, dot = run_tlc(scratch, nrep, ngen, loginit, pselbeh, empty, tmaxset)
        nodes, init, edges, nedges, texts = parse_dot(dot)
    finally:
        shutil.rmtree(scratch, ignore_errors=True)
    if len(nodes) != stats["distinct"]:
        raise RuntimeError(f"dot dump has {len(nodes)} states, TLC reported {stats['distinct']} distinct states")
    ctx.count("tlc-runs")
    ctx.count("tlc-distinct-states", stats["distinct"])
    ctx.count("tlc-edges", nedges)
    ctx.count("tlc-initial-states", len(init))
    ctx.transitions += nedges
    ckey = (nrep, ngen, loginit, tuple(empty))
    cbytes = repr(ckey).encode()
    for nid in nodes:
        ctx.state(hashlib.blake2b(cbytes + texts[nid], digest_size=8).digest())
    paths, capped = behaviours(nodes, init, edges)
    if capped:
        ctx.capped.append(f"more than {MAX_PATHS_PER_GRAPH} behaviours in one graph")
    labels_seen = {l for succ in edges.values() for l, _ in succ}
    for i0, path in paths:
        s0 = nodes[i0]
        steps = [(l, nodes[d]) for l, d in path]
        ok = replay_behaviour(ctx, ckey, s0, steps, ctx.seed)
        ctx.count("tlc-behaviours")
        if ok:
            ctx.traces += 1
        beh = s0["beh"]
        for o in OPS:
            ctx.flag(f"beh:{o}:{beh[o]}")
        ctx.flag(f"preinit:{s0['preinit']}")
        tm = s0["t_max"]
        ctx.flag("t_max:" + ("0" if tm == 0 else "<NGEN" if tm < ngen else "=NGEN" if tm == ngen else ">NGEN+1" if tm > ngen + 1 else "other"))
        if ngen >= 2 and tm < ngen:
            ctx.count("behaviours-whose-time-index-passes-the-deadline-between-cycles")
        if empty and s0["preinit"]:
            ctx.count("behaviours-given-a-start-state-with-empty-containers")
        final = steps[-1][1] if steps else s0
        if any(final["start"][c] for c in CONT):
            ctx.flag("environment-corrupted-start")
            ctx.count("behaviours-where-the-environment-itself-modifies-start")
        if nrep >= 2 and any(b != "pure" for b in beh.values()):
            ctx.nontriv(digest((ckey, beh, s0["preinit"], s0["t_max"])))
        if nrep >= 2 and any(b in ("inplace", "mixed") for b in beh.values()):
            ctx.count("behaviours-with-in-place-mutation-before-a-later-replicate")
        if not ctx.samples or ctx.evaluations % 997 == 1:
            ctx.sample(dict(NREP=nrep, NGEN=ngen, LOGINIT=loginit, EMPTY=list(empty), beh=beh, preinit=s0["preinit"],
                            model_actions=[l for l, _ in path],
                            model_t_cur=[s["t_cur"] for _, s in steps], final_work=final["work"], final_start=final["start"]))
    for l in labels_seen:
        ctx.flag("action:" + l)
    ctx.flag(f"const:NREP={nrep}")
    ctx.flag(f"const:NGEN={ngen}")
    ctx.flag(f"const:LOGINIT={loginit}")
    ctx.flag("const:EMPTY=" + ("none" if not empty else "all" if len(empty) == len(CONT) else "some"))


def finalize(ctx, tier, seed):
    T = tier == "thorough"
    for l in EVENT:
        assert "action:" + l in ctx.flags, f"model action {l} never taken"
    for o in OPS:
        for b in BEHS:
            assert f"beh:{o}:{b}" in ctx.flags, (o, b)
    assert "preinit:True" in ctx.flags and "preinit:False" in ctx.flags
    assert "environment-corrupted-start" in ctx.flags
    for n in ((0, 1, 2, 3) if T else (0, 1, 2)):
        assert f"const:NREP={n}" in ctx.flags
    for n in (0, 1, 2):
        assert f"const:NGEN={n}" in ctx.flags
    assert "const:LOGINIT=True" in ctx.flags and "const:LOGINIT=False" in ctx.flags
    for e in ("none", "some", "all"):
        assert "const:EMPTY=" + e in ctx.flags, e
    assert ctx.counters.get("behaviours-given-a-start-state-with-empty-containers", 0) >= 512
    nshard = len(shards(tier, seed))
    assert ctx.counters.get("tlc-runs", 0) == nshard, ctx.counters.get("tlc-runs")
    nexp = sum(4 ** 3 * 2 * len(sp[5]) for sp in shards(tier, seed))      # per run: 4^3 other operators x preinit x |TMAXSET|
    assert ctx.counters.get("tlc-behaviours", 0) == nexp, (ctx.counters.get("tlc-behaviours"), nexp)
    for f in ("0", "<NGEN", "=NGEN", ">NGEN+1"):
        assert "t_max:" + f in ctx.flags, f
    assert ctx.counters.get("behaviours-whose-time-index-passes-the-deadline-between-cycles", 0) >= 512
    assert ctx.counters.get("tlc-initial-states", 0) == ctx.counters.get("tlc-behaviours", 0)
    assert len(ctx.states) == ctx.counters.get("tlc-distinct-states"), (len(ctx.states), ctx.counters.get("tlc-distinct-states"))
    for v in ("single", "split", "strict-init"):
        assert ctx.counters.get("impl-runs:" + v, 0) > 0, v
    assert ctx.counters.get("behaviours-with-in-place-mutation-before-a-later-replicate", 0) > 100
    assert len(ctx.nontrivial) > 100, len(ctx.nontrivial)
    assert len(ctx.outcomes) > 1, len(ctx.outcomes)
    # if the implementation agreed with the model on many behaviours, its observed traces must be as diverse as the model's
    agreed = ctx.counters.get("impl-runs-agreeing-with-model:single", 0)
    agreed1 = ctx.counters.get("impl-runs-agreeing-with-model:single:NREP>=1", 0)
    assert agreed1 < 100 or len(ctx.outcomes) > 100, (agreed1, len(ctx.outcomes))
    assert agreed == 0 or ctx.counters.get("calls-compared-with-model", 0) > 0
    if agreed == ctx.counters.get("tlc-behaviours"):      # everything agreed: on average a behaviour has >= 10 observable calls
        assert ctx.counters.get("calls-compared-with-model", 0) > 10 * agreed


def replay(case, ctx):
    steps = [(l, s) for l, s in case["steps"]]
    replay_behaviour(ctx, (case["nrep"], case["ngen"], case["loginit"], tuple(case.get("empty", ()))), case["s0"], steps,
                     case.get("seed", ctx.seed),
                     variants=[(case["variant"], tuple(case["split"]) if case.get("split") else None)])
