"""C12 — predicted progeny variances = exact gamete-enumeration variance.

Complete small-scope enumeration of parent populations, parent index tuples, chromosome layouts /
genetic positions, selfing depths, chunk sizes, marker effects and all sixteen variance / covariance
matrix classes (+ factories, + the usefulness-criterion problems), plus build HISTORIES on shared objects
(one ingredient changed between consecutive builds, incl. in-place edits), on the real code, against the
exhaustive gamete-enumeration oracle of mc/ref/crossvar.py, and against the exact progeny
distribution of the real mating protocols under the weighted scripted generator.
"""
from __future__ import annotations
import contextlib
import importlib
import itertools
import math
from fractions import Fraction

import numpy

from .. import compat  # noqa: F401
from ..core import digest
from ..ref import crossvar as R

ID = "C12"
TECHNIQUE = ("complete small-scope input enumeration on the real code against an exhaustive gamete-enumeration "
             "oracle (all crossover patterns of every meiosis of the cross pedigree with exact weights; explicitly "
             "enumerated two-locus Markov chain for the selfing generations) + exact progeny distribution of the real "
             "mating protocols under all weighted generator answers")
RULE = ("one evaluation = one matrix build (class, entry point, parent population, chromosome layout + positions, "
        "nself, mem, marker effects, counts) whose EVERY parent index tuple (with repeats) is compared with the oracle, "
        "or one cross run through the real mating protocol under all weighted generator answers (L4), or one UC problem "
        "(L6). L1: every inbred population {0,1}^(n x m) (every phased population for the dihybrid scheme) of the "
        "population spaces in bounds.L1_population_spaces x 4-5 layouts per m (linked, coincident r=0, far r=1/2, "
        "unlinked / single-marker chromosomes) x nself {0,1,2,5,inf}, with mem, effect matrix, entry point and "
        "nmating/nprogeny rotating deterministically; L2: all effect vectors over a 4-letter alphabet (t=1) and vector "
        "pairs (t=2; all 4096 pairs for 2-way/dihybrid in the thorough tier); L3: mem in {1,2,3,4,5,None,1024,default} x "
        "chromosome lengths 1..4, each build also compared with the mem=None build; L4: every weighted answer vector "
        "of TwoWayDHCross/ThreeWayDHCross/FourWayDHCross.mate for selected crosses (m=2, nself<=2; m=3 for the cheap "
        "ones); L5: all taxon permutations; L6: 5 factories x both entry points, from_gmod with default arguments for "
        "all 16 classes, 4 UC problem classes x 4 schemes x unique_parents x {from_pgmat_gpmod, ..._xmap}; "
        "L7 (histories): sequences of 3-10 builds in one process on SHARED pgmat / model / factory / map-function objects "
        "in which exactly one ingredient changes between consecutive builds (new model object, model edited in place, "
        "pgmat.mat or vrnt_genpos edited in place, nself, counts, map-function object, mem, unique_parents, entry point, "
        "percentile): [A,B,A] for every single change B of A plus one accumulating chain, for the 4 UC problem classes, "
        "all 16 matrix classes and the factories; every build must equal the reference AND the same configuration "
        "built afterwards in isolation from fresh objects; every library call is followed by an inputs-untouched check; "
        "L8 (result objects): on the computed matrix of every class, with taxon labels not in sorted order, deepcopy, "
        "reorder_taxa(all permutations), reorder(axis), sort_taxa(), group_taxa() in place and select_taxa(every ordered "
        "subset): every entry addressed BY LABEL must be the value computed for that labelled parent tuple on all parent "
        "axes and equal the reference, taxa_grp must follow, the source must stay untouched and square_taxa_axes / "
        "nsquare_taxa / trait axes must describe the k parent axes. "
        "non-trivial = a build with at least one parent tuple whose expected variance is non-zero and (genetic classes) "
        "changed by linkage (genetic != genic); distinct by digest of the configuration")
ASSUME = ["Haldane (no interference) meiosis; genetic positions in Morgans; unlinked chromosomes r = 1/2",
          "progeny variance = variance of the marginal distribution of one DH line of the cross (nmating / nprogeny "
          "do not enter; the classes ignore them as well)",
          "numpy.random.Generator.uniform(0,1) is uniform (L4 weights are the interval lengths)",
          "numpy.empty may hold any value: float arrays allocated with numpy.empty inside the library call are "
          "NaN-poisoned by the harness so that reads of never-written entries are deterministic",
          "population spaces marked 'flip' in bounds.L1_population_spaces (4-way n=3 m=3 and dihybrid n=2 m=3 in the quick "
          "tier; m=4 in the thorough tier) are enumerated up to the allele-relabelling symmetry (copy 0 of taxon 0 = 0..0); "
          "all spaces marked 'full' are complete",
          "input objects created by the harness are kept alive (ring of 1024) so that an id()-keyed cache in the library "
          "cannot be hit through address reuse: stale-cache defects then show deterministically in the history layer",
          "mc/compat.py restores removed numpy names only"]

SCHEMES = ("2way", "3way", "4way", "dihybrid")
WAY = {"2way": "TwoWay", "3way": "ThreeWay", "4way": "FourWay", "dihybrid": "Dihybrid"}
NPAR = R.NPARENT
# kind -> (package, class name pattern, genetic?, covariance?, name of the "number of matings" argument)
KINDS = {
    "vG": ("vmat", "Dense{W}DHAdditiveGeneticVarianceMatrix", True, False, "nmating"),
    "cG": ("pcvmat", "Dense{W}DHAdditiveProgenyGeneticCovarianceMatrix", True, True, "ncross"),
    "vg": ("vmat", "Dense{W}DHAdditiveGenicVarianceMatrix", False, False, None),
    "cg": ("pcvmat", "Dense{W}DHAdditiveProgenyGenicCovarianceMatrix", False, True, None),
}
FACTORIES = {  # (scheme, kind) -> factory class
    ("2way", "vG"): "DenseTwoWayDHAdditiveGeneticVarianceMatrixFactory",
    ("3way", "vG"): "DenseThreeWayDHAdditiveGeneticVarianceMatrixFactory",
    ("4way", "vG"): "DenseFourWayDHAdditiveGeneticVarianceMatrixFactory",
    ("dihybrid", "vG"): "DenseDihybridDHAdditiveGeneticVarianceMatrixFactory",
    ("2way", "vg"): "DenseTwoWayDHAdditiveGenicVarianceMatrixFactory",
}
PROTOCOL = {"2way": "TwoWayDHCross", "dihybrid": "TwoWayDHCross", "3way": "ThreeWayDHCross", "4way": "FourWayDHCross"}
UCPROBLEMS = ("Binary", "Integer", "Real", "Subset")
NSELF_CODES = (0, 1, 2, 5, "inf")
MEM_CODES = (1, 2, 3, "none", 1024)
COUNTS = ((1, 1), (2, 3), (5, 1))
RTOL, ATOL = 1e-9, 1e-12


def clsname(scheme, kind):
    return KINDS[kind][1].format(W=WAY[scheme])


_cls_cache = {}


def get_cls(scheme, kind):
    key = (scheme, kind)
    if key not in _cls_cache:
        pkg, pat = KINDS[kind][0], clsname(scheme, kind)
        _cls_cache[key] = getattr(importlib.import_module(f"pybrops.model.{pkg}.{pat}"), pat)
    return _cls_cache[key]


def get_factory(scheme, kind):
    name = FACTORIES[(scheme, kind)]
    return getattr(importlib.import_module(f"pybrops.model.vmat.fcty.{name}"), name)


def nself_val(code):
    return R.INF if code == "inf" else int(code)


def mem_kw(code):
    if code == "default":
        return {}
    return {"mem": None if code == "none" else int(code)}


# ----------------------------------------------------------------------------
# value alphabets (rotated by VERIF_SEED; the structure never depends on the seed)
def alphabet(seed):
    return [(-1.0, 0.0, 0.5, 2.0), (-2.0, 0.0, 0.25, 1.0), (-0.5, 0.0, 1.5, 3.0)][seed % 3]


def dists(seed):
    return [(0.1, 0.25), (0.05, 0.4), (0.2, 0.15)][seed % 3]


FAR = 50.0     # Morgans: Haldane r == 0.5 exactly in double precision


def layouts(m, seed):
    d1, d2 = dists(seed)
    if m == 1:
        return [((1,), (0.0,))]
    if m == 2:
        return [((2,), (0.0, d1)), ((2,), (0.3, 0.3)), ((1, 1), (0.0, 0.0)), ((2,), (0.0, FAR))]
    if m == 3:
        return [((3,), (0.0, d1, d1 + d2)), ((3,), (0.0, 0.0, d2)), ((2, 1), (0.0, d1, 0.0)),
                ((1, 1, 1), (0.0, 0.0, 0.0)), ((3,), (0.0, d1, d1 + FAR))]
    if m == 4:
        return [((4,), (0.0, d1, d1 + d2, 2 * d1 + d2)), ((4,), (0.0, d1, d1, d1 + d2)),
                ((2, 2), (0.0, d1, 0.0, d2)), ((3, 1), (0.0, d1, d1 + d2, 0.0)), ((1, 3), (0.0, 0.0, d2, d2 + d1))]
    raise ValueError(m)


def mem_layouts(seed):
    """Chromosome lengths 1..4 for the chunking layer."""
    d1, d2 = dists(seed)
    return [((1,), (0.0,)), ((2,), (0.0, d1)), ((3,), (0.0, d1, d1 + d2)), ((4,), (0.0, d1, d1 + d2, 2 * d1 + d2)),
            ((2, 2), (0.0, d1, 0.0, d2)), ((3, 1), (0.0, d2, d1 + d2, 0.0)), ((1, 3), (0.0, 0.0, d1, d1 + d2)),
            ((2, 1, 1), (0.0, d2, 0.0, 0.0))]


def uset(m, seed):
    """A few effect matrices (t = 1 and t = 2) over the alphabet; every letter occurs."""
    A = alphabet(seed)
    out = []
    for k in range(8):
        t = 1 + (k % 2)
        u = [[A[(k * 3 + j * 5 + c * 7 + j * c + (k // 2)) % 4] for c in range(t)] for j in range(m)]
        if all(v == 0.0 for row in u for v in row):
            u[0][0] = A[0]
        out.append(u)
    return out


def labels(n, seed):
    names = [["P%d", "line_%d", "T%d"][seed % 3] % (i + (seed % 3)) for i in range(n)]
    grp = [(n - i) * (1 + seed % 3) for i in range(n)]
    return names, grp


# ----------------------------------------------------------------------------
# populations
def hap_of(code, m):
    return tuple((code >> (m - 1 - j)) & 1 for j in range(m))


def npop(scheme, n, m, mode):
    per = (4 ** m) if scheme == "dihybrid" else (2 ** m)
    if mode == "full":
        return per ** n
    if mode == "flip":          # taxon 0 (copy 0) fixed to 0...0: one representative per allele relabelling
        return (per ** n) // (2 ** m)
    raise ValueError(mode)


def population(scheme, n, m, mode, idx):
    """Population number idx: tuple over taxa of (copy0, copy1); taxon 0 is the most significant digit."""
    H = 2 ** m
    per = (H * H) if scheme == "dihybrid" else H
    x = idx
    digs = []
    for _ in range(n - 1):
        digs.append(x % per)
        x //= per
    if mode == "full":
        assert 0 <= x < per
        lead = x
    else:                           # "flip": copy 0 of taxon 0 is 0...0
        if scheme == "dihybrid":
            assert 0 <= x < H
            lead = x                # code = copy0 * H + copy1 with copy0 = 0
        else:
            assert x == 0
            lead = 0
    digs.append(lead)
    digs.reverse()
    pop = []
    for d in digs:
        if scheme == "dihybrid":
            pop.append((hap_of(d // H, m), hap_of(d % H, m)))
        else:
            pop.append((hap_of(d, m), hap_of(d, m)))
    return tuple(pop)


# ----------------------------------------------------------------------------
# library objects
_HALDANE = None
# every input object handed to the library stays alive for a while: an id()-keyed cache inside the library can
# then never be hit by an unrelated later object that happens to get the same address, which would make a
# stale-cache defect show (or hide) depending on the allocator instead of on the history that was run
import collections
_KEEP = collections.deque(maxlen=1024)


def haldane_fn():
    global _HALDANE
    if _HALDANE is None:
        from pybrops.popgen.gmap.HaldaneMapFunction import HaldaneMapFunction
        _HALDANE = HaldaneMapFunction()
    return _HALDANE


def make_pgmat(pop, layout, seed, xoprob=False, order=None):
    """order: taxon i of the matrix is taxon order[i] of `pop` (genotype AND labels travel together)."""
    from pybrops.popgen.gmat.DensePhasedGenotypeMatrix import DensePhasedGenotypeMatrix
    sizes, genpos = layout
    n, m = len(pop), sum(sizes)
    names, grp = labels(n, seed)
    if order is not None:
        pop = [pop[i] for i in order]
        names = [names[i] for i in order]
        grp = [grp[i] for i in order]
    mat = numpy.array([[p[0] for p in pop], [p[1] for p in pop]], dtype="int8")
    kw = {}
    if xoprob:
        kw["vrnt_xoprob"] = numpy.array(R.Layout(sizes, genpos).radj, dtype="float64")
    pg = DensePhasedGenotypeMatrix(
        mat=mat,
        taxa=numpy.array(names, dtype=object),
        taxa_grp=numpy.array(grp, dtype="int64"),
        vrnt_chrgrp=numpy.repeat(numpy.arange(1, len(sizes) + 1), sizes).astype("int64"),
        vrnt_phypos=numpy.concatenate([numpy.arange(1, c + 1) * 10 for c in sizes]).astype("int64"),
        vrnt_name=numpy.array([f"m{j}" for j in range(m)], dtype=object),
        vrnt_genpos=numpy.array(genpos, dtype="float64"),
        **kw)
    pg.group_vrnt()
    _KEEP.append(pg)
    return pg


def make_model(u, seed):
    from pybrops.model.gmod.DenseAdditiveLinearGenomicModel import DenseAdditiveLinearGenomicModel
    u = numpy.array(u, dtype="float64")
    t = u.shape[1]
    gm = DenseAdditiveLinearGenomicModel(
        beta=numpy.zeros((1, t)), u_misc=None, u_a=u,
        trait=numpy.array([["yield", "protein"], ["t1", "t2"], ["A", "B"]][seed % 3][:t], dtype=object))
    _KEEP.append(gm)
    return gm


@contextlib.contextmanager
def poisoned_empty():
    """numpy.empty -> NaN-filled for float dtypes while the library runs (any content is a legal
    answer of numpy.empty), so an entry that is never written is read back as NaN every time."""
    real = numpy.empty

    def empty(shape, dtype=float, *a, **k):
        out = real(shape, dtype, *a, **k)
        if out.dtype.kind == "f":
            out.fill(numpy.nan)
        return out
    numpy.empty = empty
    try:
        yield
    finally:
        numpy.empty = real


def input_state(pg, gm=None):
    """Everything the caller handed to the library, as bytes / lists (for the 'inputs untouched' oracle)."""
    st = [pg.mat.tobytes(), pg.mat.shape, pg.mat.dtype.str]
    for f in ("taxa", "taxa_grp", "vrnt_chrgrp", "vrnt_phypos", "vrnt_name", "vrnt_genpos", "vrnt_xoprob",
              "vrnt_chrgrp_name", "vrnt_chrgrp_stix", "vrnt_chrgrp_spix", "vrnt_chrgrp_len",
              "taxa_grp_name", "taxa_grp_stix", "taxa_grp_spix", "taxa_grp_len"):
        v = getattr(pg, f, None)
        st.append(None if v is None else (numpy.asarray(v).dtype.str, numpy.asarray(v).tolist()))
    if gm is not None:
        for f in ("u_a", "beta", "u_misc", "trait"):
            v = getattr(gm, f, None)
            st.append(None if v is None else (numpy.asarray(v).dtype.str, numpy.asarray(v).shape, numpy.asarray(v).tolist()))
    return st


def check_untouched(ctx, before, pg, gm, sig_prefix, case):
    after = input_state(pg, gm)
    if after != before:
        idx = next(i for i, (a, b) in enumerate(zip(before, after)) if a != b)
        ctx.violation(f"{sig_prefix}input-mutated", f"the call changed its inputs (pgmat / model field #{idx} of input_state)", case)
        return False
    ctx.count("inputs-untouched-checked")
    return True


def lib_build(scheme, kind, entry, pg, gm, nself, mem, counts, fn=None, factory=None):
    """Call the real constructor path.  entry: from_algmod | from_gmod | factory.from_algmod | factory.from_gmod"""
    genetic, cntarg = KINDS[kind][2], KINDS[kind][4]
    kw = {"pgmat": pg, "nprogeny": int(counts[1])}
    if genetic:
        kw.update(nself=nself_val(nself), gmapfn=haldane_fn() if fn is None else fn)
    kw.update(mem_kw(mem))
    with poisoned_empty():
        if entry.startswith("factory."):
            f = get_factory(scheme, kind)() if factory is None else factory
            if genetic:
                kw["ncross"] = int(counts[0])
            if entry == "factory.from_algmod":
                return f.from_algmod(algmod=gm, **kw)
            return f.from_gmod(gmod=gm, **kw)
        C = get_cls(scheme, kind)
        if genetic:
            kw[cntarg] = int(counts[0])
        if entry == "from_algmod":
            return C.from_algmod(algmod=gm, **kw)
        if entry == "from_gmod":
            return C.from_gmod(gmod=gm, **kw)
    raise KeyError(entry)


# ----------------------------------------------------------------------------
# oracle tensors
_tensor_cache = {}


def moments_tensor(scheme, layout, pop, nself):
    """(mean (N,m), C (N,m,m)) for all parent index tuples in itertools.product order (C order)."""
    key = (scheme, layout, pop, nself)
    hit = _tensor_cache.get(key)
    if hit is not None:
        return hit
    lay = R.Layout(*layout)
    n, k = len(pop), NPAR[scheme]
    means, covs = [], []
    for tup in itertools.product(range(n), repeat=k):
        mean, C = R.allele_moments(scheme, lay, tuple(pop[i] for i in tup), nself_val(nself))
        means.append(mean)
        covs.append(C)
    out = (numpy.array(means), numpy.array(covs))
    if len(_tensor_cache) > 4000:
        _tensor_cache.clear()
    _tensor_cache[key] = out
    return out


def expected(scheme, layout, pop, nself, u):
    n, k = len(pop), NPAR[scheme]
    u = numpy.asarray(u, dtype=float)
    t = u.shape[1]
    mean, C = moments_tensor(scheme, layout, pop, nself)
    cov = 4.0 * numpy.einsum("jt,njk,ks->nts", u, C, u)
    Cd = numpy.einsum("njj->nj", C)
    gcov = 4.0 * numpy.einsum("jt,nj,js->nts", u, Cd, u)
    shp = (n,) * k
    return {"mean": (2.0 * mean @ u).reshape(shp + (t,)), "cov": cov.reshape(shp + (t, t)),
            "gcov": gcov.reshape(shp + (t, t))}


def entry_type(scheme, tup):
    if scheme in ("2way", "dihybrid"):
        return "self" if tup[0] == tup[1] else "cross"
    if scheme == "3way":
        return "female==male" if tup[1] == tup[2] else "cross"
    return "female1==male1" if tup[2] == tup[3] else "cross"


EXCHANGES = {   # name -> axis permutation of the parent axes under which the cross is the same cross
    "2way": {"female<->male": (1, 0)},
    "dihybrid": {"female<->male": (1, 0)},
    "3way": {"female<->male": (0, 2, 1)},
    "4way": {"female2<->male2": (1, 0, 2, 3), "female1<->male1": (0, 1, 3, 2), "pair1<->pair2": (2, 3, 0, 1)},
}

_etype_cache = {}


def etype_masks(scheme, n):
    key = (scheme, n)
    if key not in _etype_cache:
        k = NPAR[scheme]
        masks = {}
        for tup in itertools.product(range(n), repeat=k):
            masks.setdefault(entry_type(scheme, tup), numpy.zeros((n,) * k, dtype=bool))[tup] = True
        _etype_cache[key] = masks
    return _etype_cache[key]


_ident_cache = {}


def ident_mask(scheme, pop):
    key = (scheme, pop)
    hit = _ident_cache.get(key)
    if hit is None:
        n, k = len(pop), NPAR[scheme]
        hit = numpy.zeros((n,) * k, dtype=bool)
        for tup in itertools.product(range(n), repeat=k):
            g = pop[tup[0]]
            if g[0] == g[1] and all(pop[i] == g for i in tup):
                hit[tup] = True
        if len(_ident_cache) > 5000:
            _ident_cache.clear()
        _ident_cache[key] = hit
    return hit


def fmt(x):
    return numpy.array2string(numpy.asarray(x, dtype=float), precision=12, separator=",").replace("\n", "")


# ----------------------------------------------------------------------------
# the oracle for one built object
def check_object(ctx, case, scheme, kind, obj, pg, gm, exp, what="value", rec_case=None):
    """Compare every entry of a built matrix with the oracle; returns True iff everything agreed.
    `case` describes the build (for the message), `rec_case` is what is recorded for replay."""
    desc, case = case, (case if rec_case is None else rec_case)
    name = clsname(scheme, kind)
    genetic, iscov = KINDS[kind][2], KINDS[kind][3]
    n, k = pg.ntaxa, NPAR[scheme]
    t = gm.ntrait
    ok = True
    got = obj.mat
    full = exp["cov"] if genetic else exp["gcov"]
    want = full if iscov else numpy.einsum("...tt->...t", full)
    if got.shape != want.shape:
        ctx.violation(f"{name}:shape", f"matrix of shape {got.shape}, expected {want.shape} "
                      f"((ntaxa,)*{k} + {'(t,t)' if iscov else '(t,)'})", case)
        return False
    close = numpy.isclose(got, want, rtol=RTOL, atol=ATOL, equal_nan=False)
    close = close.reshape((n,) * k + (-1,)).all(-1)
    masks = etype_masks(scheme, n)
    for et in sorted(masks):
        msk = masks[et]
        ctx.count(f"entries:{et}", int(msk.sum()))
        bad = msk & ~close
        if bad.any():
            ok = False
            tup = tuple(int(v) for v in numpy.argwhere(bad)[0])
            nz = bool(numpy.any(got[tup] != 0))
            ctx.violation(f"{name}:{what}:{et}",
                          f"{name} entry {list(tup)} (parents {[_gt(desc['pop'][i]) for i in tup]}, layout {desc['layout']}, "
                          f"nself={desc['nself']}, mem={desc['mem']}, u={desc['u']}): got {fmt(got[tup])}"
                          f"{'' if nz else ' (entry never filled / zero)'}, exhaustive gamete enumeration gives {fmt(want[tup])}; "
                          f"{int(bad.sum())} of {int(msk.sum())} entries of this kind differ in this matrix", case)
    # zero for genetically identical inbred parents (implied by the oracle; counted for the vacuity guard)
    ident = ident_mask(scheme, desc["pop"])
    if ident.any():
        ctx.count("entries:identical-inbred-parents(expected 0)", int(ident.sum()))
        assert numpy.all(numpy.abs(want[ident]) <= ATOL), "reference gives variance for identical inbred parents"
    # symmetry in exchangeable parents, on the library output alone (entries of the regular kind only)
    reg = masks.get("cross")
    for xname, perm in (EXCHANGES[scheme].items() if reg is not None else ()):
        axes = tuple(perm) + tuple(range(k, got.ndim))
        sw = numpy.transpose(got, axes)
        both = reg & numpy.transpose(reg, perm)
        eq = numpy.isclose(got, sw, rtol=RTOL, atol=ATOL, equal_nan=True).reshape((n,) * k + (-1,)).all(-1)
        if (both & ~eq).any():
            ok = False
            tup = tuple(int(v) for v in numpy.argwhere(both & ~eq)[0])
            ctx.violation(f"{name}:symmetry:{xname}",
                          f"entry {list(tup)} = {fmt(got[tup])} but the same cross with {xname} exchanged has {fmt(sw[tup])}", case)
    if iscov:
        tt = numpy.isclose(got, numpy.swapaxes(got, -1, -2), rtol=RTOL, atol=ATOL, equal_nan=True)
        if not tt.all():
            ok = False
            ctx.violation(f"{name}:trait-asymmetry", "cov(trait a, trait b) != cov(trait b, trait a)", case)
    # parent labels stay attached to the parent axes
    if not (_same(obj.taxa, pg.taxa) and _same(obj.taxa_grp, pg.taxa_grp)):
        ok = False
        ctx.violation(f"{name}:taxa-labels", f"taxa {obj.taxa} / taxa_grp {obj.taxa_grp} differ from the parents' "
                      f"{pg.taxa} / {pg.taxa_grp}", case)
    if obj.trait is None:
        ctx.count(f"note:trait-names-dropped:{name}")
    return ok


def _same(a, b):
    if a is None or b is None:
        return a is None and b is None
    return list(numpy.asarray(a).tolist()) == list(numpy.asarray(b).tolist())


def _gt(p):
    a, b = ("".join(str(int(v)) for v in c) for c in p)
    return a if a == b else f"{a}|{b}"


def norm_case(case):
    """JSON round trip safe: lists -> tuples where the code needs hashables."""
    c = dict(case)
    c["pop"] = tuple((tuple(int(v) for v in p[0]), tuple(int(v) for v in p[1])) for p in case["pop"])
    c["layout"] = (tuple(int(v) for v in case["layout"][0]), tuple(float(v) for v in case["layout"][1]))
    c["u"] = [[float(v) for v in row] for row in case["u"]]
    c["counts"] = tuple(case.get("counts", (1, 1)))
    if "order" in case and case["order"] is not None:
        c["order"] = [int(v) for v in case["order"]]
    if case.get("arg") is not None:
        c["arg"] = [int(v) for v in case["arg"]]
    return c


def mem_flags(ctx, layout, mem):
    if mem == "none":
        ctx.flag("mem:None")
        return
    if mem == "default":
        ctx.flag("mem:default")
        return
    for c in layout[0]:
        if mem < c:
            ctx.flag("mem<chrom")
            ctx.flag("mem divides chrom" if c % mem == 0 else "mem does not divide chrom")
        elif mem == c:
            ctx.flag("mem==chrom")
        else:
            ctx.flag("mem>chrom")


def layout_flags(ctx, layout):
    lay = R.Layout(*layout)
    for i in range(lay.m):
        for j in range(i + 1, lay.m):
            r = lay.pair_r(i, j)
            if lay.chrom_of[i] != lay.chrom_of[j]:
                ctx.flag("r:unlinked-chromosomes")
            elif r == 0.0:
                ctx.flag("r:coincident(0)")
            elif r == 0.5:
                ctx.flag("r:half-within-chromosome")
            else:
                ctx.flag("r:linked")
    if 1 in layout[0]:
        ctx.flag("chromosome-with-one-marker")


def run_build(ctx, case, pg=None, gm=None, exp=None, ref_obj=None):
    """One evaluation: build + full comparison.  Returns the built object (or None)."""
    case = norm_case(case)
    scheme, kind = case["scheme"], case["kind"]
    name = clsname(scheme, kind)
    seed = case["seed"]
    if pg is None:
        pg = make_pgmat(case["pop"], case["layout"], seed)
    if gm is None:
        gm = make_model(case["u"], seed)
    if exp is None:
        exp = expected(scheme, case["layout"], case["pop"], case["nself"] if KINDS[kind][2] else 0, case["u"])
    ctx.evaluations += 1
    ctx.transitions += 1
    ctx.count(f"builds:{name}")
    ctx.flag(f"entry:{case['entry']}")
    ctx.flag(f"nself:{case['nself']}")
    mem_flags(ctx, case["layout"], case["mem"])
    box = {}
    before = input_state(pg, gm)

    def call():
        box["obj"] = lib_build(scheme, kind, case["entry"], pg, gm, case["nself"], case["mem"], case["counts"])
    raised = not ctx.guard(call, case=case, sig_prefix=f"{name}:")
    untouched = check_untouched(ctx, before, pg, gm, f"{name}:", case)
    if raised:
        ctx.count(f"raised:{name}")
        return None
    obj = box["obj"]
    ok = check_object(ctx, case, scheme, kind, obj, pg, gm, exp) and untouched
    if ref_obj is not None:       # same inputs, other mem / other entry point: must be the same matrix
        if not numpy.allclose(obj.mat, ref_obj.mat, rtol=RTOL, atol=ATOL, equal_nan=True):
            ok = False
            d = numpy.argwhere(~numpy.isclose(obj.mat, ref_obj.mat, rtol=RTOL, atol=ATOL, equal_nan=True))[0]
            ctx.violation(f"{name}:{case.get('ref_what', 'mem-dependence')}",
                          f"{case['entry']} with mem={case['mem']} gives {obj.mat[tuple(d)]!r} at {d.tolist()}, "
                          f"the reference build ({case.get('ref_desc', 'mem=None')}) gives {ref_obj.mat[tuple(d)]!r}", case)
    cfg = digest((scheme, kind, case["entry"], case["pop"], case["layout"], case["nself"], case["mem"], case["u"], case["counts"]))
    ctx.state(cfg)
    ctx.outcome(digest(numpy.round(numpy.nan_to_num(obj.mat, nan=-777.0), 9)))
    want = exp["cov"] if KINDS[kind][2] else exp["gcov"]
    dv = numpy.einsum("...tt->...t", exp["cov"])
    dg = numpy.einsum("...tt->...t", exp["gcov"])
    if numpy.any(numpy.abs(dv - dg) > 1e-9) if KINDS[kind][2] else numpy.any(numpy.abs(dg) > 1e-9):
        ctx.nontriv(cfg)        # genetic: linkage changes some value; genic: some non-zero variance
    if numpy.any(numpy.abs(want) > 1e-9):
        ctx.count("builds-with-nonzero-expected-variance")
    if ok:
        ctx.traces += 1
    return obj


# ----------------------------------------------------------------------------
# L4: the real mating protocols under every weighted generator answer
def simulate(scheme, pop, layout, tup, nself, u, seed):
    """Exact (Fraction-weighted) mean / covariance of the GEBV of one DH progeny of the real protocol."""
    from ..env import ScriptedGenerator, MeiosisHandler
    from ..explore import explore
    proto = PROTOCOL[scheme]
    Pcls = getattr(importlib.import_module(f"pybrops.breed.prot.mate.{proto}"), proto)
    pg = make_pgmat(pop, layout, seed, xoprob=True)
    xop = [float(v) for v in pg.vrnt_xoprob]
    xc = numpy.array([list(tup)], dtype="int64")
    uF = [[Fraction(v) for v in row] for row in u]
    t = len(u[0])

    def run(ch):
        h = MeiosisHandler(ch, xop, mode="classes")
        prot = Pcls(rng=ScriptedGenerator(h))
        out = prot.mate(pg, xc, 1, 1, nself=int(nself))
        return out.mat

    tot = Fraction(0)
    s1 = [Fraction(0)] * t
    s2 = [[Fraction(0)] * t for _ in range(t)]
    nexec = 0
    lines = set()
    for ch, mat in explore(run):
        nexec += 1
        assert mat.shape[1] == 1
        z = [int(mat[0, 0, j]) + int(mat[1, 0, j]) for j in range(mat.shape[2])]
        lines.add(tuple(z))
        g = [sum(Fraction(z[j]) * uF[j][c] for j in range(len(z))) for c in range(t)]
        w = ch.weight
        tot += w
        for a in range(t):
            s1[a] += w * g[a]
            for b in range(t):
                s2[a][b] += w * g[a] * g[b]
    assert tot == 1, f"weights of all generator answers sum to {tot}"
    cov = [[float(s2[a][b] - s1[a] * s1[b]) for b in range(t)] for a in range(t)]
    return {"mean": [float(v) for v in s1], "cov": cov, "executions": nexec, "lines": len(lines)}


def run_sim(ctx, case):
    case = norm_case(case)
    scheme, tup, nself = case["scheme"], tuple(case["tup"]), case["nself"]
    proto = PROTOCOL[scheme]
    box = {}
    ctx.evaluations += 1

    def call():
        box["sim"] = simulate(scheme, case["pop"], case["layout"], tup, nself, case["u"], case["seed"])
    if not ctx.guard(call, case=case, sig_prefix=f"simulation:{proto}:"):
        return
    sim = box["sim"]
    ctx.count("sim:executions", sim["executions"])
    ctx.count(f"sim:crosses:{scheme}")
    ctx.transitions += sim["executions"]
    st = R.progeny_stats(scheme, R.Layout(*case["layout"]), [case["pop"][i] for i in tup], nself_val(nself), case["u"])
    ok = True
    if not (numpy.allclose(sim["cov"], st["cov"], rtol=RTOL, atol=ATOL) and numpy.allclose(sim["mean"], st["mean"], rtol=RTOL, atol=ATOL)):
        ok = False
        ctx.violation(f"simulation:{proto}:disagrees-with-enumeration",
                      f"{proto}.mate over all {sim['executions']} weighted generator answers: mean {sim['mean']} cov {sim['cov']}; "
                      f"gamete enumeration: mean {fmt(st['mean'])} cov {fmt(st['cov'])} (cross {list(tup)}, nself {nself})", case)
    # the library's matrices for the same cross
    pg = make_pgmat(case["pop"], case["layout"], case["seed"])
    gm = make_model(case["u"], case["seed"])
    for kind in ("vG", "cG"):
        name = clsname(scheme, kind)
        b2 = {}

        def build():
            b2["o"] = lib_build(scheme, kind, "from_algmod", pg, gm, nself, "none", (1, 1))
        ctx.transitions += 1
        if not ctx.guard(build, case=dict(case, kind=kind), sig_prefix=f"{name}:"):
            continue
        got = b2["o"].mat[tup]
        want = numpy.array(sim["cov"]) if kind == "cG" else numpy.diag(numpy.array(sim["cov"]))
        if got.shape != want.shape or not numpy.allclose(got, want, rtol=RTOL, atol=ATOL):
            ok = False
            ctx.violation(f"{name}:value:{entry_type(scheme, tup)}",
                          f"{name} entry {list(tup)} = {fmt(got)} but the exact progeny distribution of the real {proto}.mate "
                          f"(all {sim['executions']} weighted generator answers, {sim['lines']} distinct DH lines) has {fmt(want)} "
                          f"(nself={nself}, layout {case['layout']})", dict(case, kind=kind))
    ctx.state(digest(("sim", scheme, case["pop"], case["layout"], tup, nself, case["u"])))
    ctx.outcome(digest(("sim", sim["cov"])))
    if sim["lines"] > 1:
        ctx.nontriv(digest(("sim", scheme, case["pop"], case["layout"], tup, nself)))
    if ok:
        ctx.traces += 1


# ----------------------------------------------------------------------------
# L6: usefulness criterion problems
def uc_problem(pname):
    mod = importlib.import_module("pybrops.breed.prot.sel.prob.UsefulnessCriterionSelectionProblem")
    return getattr(mod, f"UsefulnessCriterion{pname}MateSelectionProblem")


def triu(n, k, unique):
    out = []

    def rec(pre):
        if len(pre) == k:
            out.append(list(pre))
            return
        st = 0 if not pre else (pre[-1] + 1 if unique else pre[-1])
        for i in range(st, n):
            rec(pre + [i])
    rec([])
    return out


def uc_space(pname, L):
    """Decision-space arguments as the UsefulnessCriterion*Selection protocols build them."""
    if pname == "Subset":
        return dict(ndecn=1, decn_space=numpy.arange(L), decn_space_lower=numpy.repeat(0, 1), decn_space_upper=numpy.repeat(L - 1, 1))
    if pname == "Real":
        return dict(ndecn=L, decn_space=numpy.stack([numpy.repeat(0.0, L), numpy.repeat(1.0, L)]),
                    decn_space_lower=numpy.repeat(0.0, L), decn_space_upper=numpy.repeat(1.0, L))
    return dict(ndecn=L, decn_space=numpy.stack([numpy.repeat(0, L), numpy.repeat(1, L)]),
                decn_space_lower=numpy.repeat(0, L), decn_space_upper=numpy.repeat(1, L))


def uc_build(scheme, pname, via, unique, pg, gm, nself, counts, pct, factory, fn):
    k = NPAR[scheme]
    xmap = triu(pg.ntaxa, k, unique)
    common = dict(nparent=k, ncross=int(counts[0]), nprogeny=int(counts[1]), nself=int(nself),
                  upper_percentile=float(pct), vmatfcty=factory, gmapfn=fn,
                  unique_parents=bool(unique), pgmat=pg, gpmod=gm, nobj=gm.ntrait, **uc_space(pname, len(xmap)))
    P = uc_problem(pname)
    with poisoned_empty():
        if via == "xmap":
            return P.from_pgmat_gpmod_xmap(xmap=numpy.array(xmap, dtype="int64"), **common), xmap
        return P.from_pgmat_gpmod(**common), xmap


def uc_compare(ctx, rec_case, scheme, pname, prob, xmap, pop, layout, nself, u, pct):
    """ucmat == enumerated progeny mean + i * sqrt(enumerated variance), row by row."""
    sigp = f"UsefulnessCriterion{pname}MateSelectionProblem:{WAY[scheme]}DH:"
    sigv = f"UsefulnessCriterionSelectionProblemMixin._calc_uc:{WAY[scheme]}DH:"
    case = rec_case
    ok = True
    if prob.decn_space_xmap.tolist() != xmap:
        ok = False
        ctx.violation(sigp + "xmap", f"cross map {prob.decn_space_xmap.tolist()} expected {xmap}", case)
        xm = prob.decn_space_xmap.tolist()
    else:
        xm = xmap
    exp = expected(scheme, layout, pop, nself, u)
    si = R.selection_intensity(pct)
    want = numpy.array([exp["mean"][tuple(row)] + si * numpy.sqrt(numpy.diag(exp["cov"][tuple(row)])) for row in xm])
    got = prob.ucmat
    if got.shape != want.shape:
        ctx.violation(sigp + "ucmat-shape", f"{got.shape} expected {want.shape}", case)
        return False, want
    # the variance carries the usual tolerance; sqrt() magnifies it near zero, so the comparison is made on
    # ((uc - mean) / i)^2 = var (and uc >= mean)
    mean_x = numpy.array([exp["mean"][tuple(row)] for row in xm])
    var_x = numpy.array([numpy.diag(exp["cov"][tuple(row)]) for row in xm])
    dev = got - mean_x
    close = (numpy.isclose(dev * dev, si * si * var_x, rtol=4 * RTOL, atol=ATOL * max(1.0, si * si))
             & (dev >= -1e-9) & numpy.isfinite(got)).all(1)
    for et in sorted({entry_type(scheme, tuple(r)) for r in xm}):
        rows = [i for i, r in enumerate(xm) if entry_type(scheme, tuple(r)) == et]
        ctx.count(f"uc-entries:{et}", len(rows))
        bad = [i for i in rows if not close[i]]
        if bad:
            ok = False
            i = bad[0]
            ctx.violation(sigv + f"ucmat:{et}",
                          f"cross {xm[i]} (parents {[_gt(pop[j]) for j in xm[i]]}): ucmat row {fmt(got[i])}, expected progeny mean "
                          f"{fmt(exp['mean'][tuple(xm[i])])} + {si:.12g} * sqrt(var {fmt(numpy.diag(exp['cov'][tuple(xm[i])]))}) = {fmt(want[i])} "
                          f"(nself={nself}, upper_percentile={pct}, u={u})", case)
    if numpy.any(numpy.abs(want - mean_x) > 1e-9):
        ctx.count("uc-with-nonzero-sd")
    return ok, want


def run_uc(ctx, case):
    case = norm_case(case)
    scheme, pname, unique, via, nself, pct = (case["scheme"], case["problem"], case["unique"], case["via"],
                                              case["nself"], case["pct"])
    pg = make_pgmat(case["pop"], case["layout"], case["seed"])
    gm = make_model(case["u"], case["seed"])
    box = {}
    ctx.evaluations += 1
    ctx.transitions += 1
    sigp = f"UsefulnessCriterion{pname}MateSelectionProblem:{WAY[scheme]}DH:"
    before = input_state(pg, gm)

    def call():
        box["p"], box["xmap"] = uc_build(scheme, pname, via, unique, pg, gm, nself, case["counts"], pct,
                                         get_factory(scheme, "vG")(), haldane_fn())
    ctx.count(f"uc:{pname}:{scheme}")
    raised = not ctx.guard(call, case=case, sig_prefix=sigp)
    untouched = check_untouched(ctx, before, pg, gm, sigp, case)
    if raised:
        return
    prob = box["p"]
    ok, want = uc_compare(ctx, case, scheme, pname, prob, box["xmap"], case["pop"], case["layout"], nself, case["u"], pct)
    ctx.state(digest(("uc", scheme, pname, unique, via, case["pop"], case["layout"], nself, pct, case["u"])))
    ctx.outcome(digest(numpy.round(prob.ucmat, 9)))
    exp = expected(scheme, case["layout"], case["pop"], nself, case["u"])
    if numpy.any(numpy.abs(numpy.einsum("...tt->...t", exp["cov"])) > 1e-9):
        ctx.nontriv(digest(("uc", scheme, pname, unique, via, case["pop"], nself, pct)))
    if ok and untouched:
        ctx.traces += 1


# ----------------------------------------------------------------------------
# L5: taxon permutations
def run_perm(ctx, case):
    case = norm_case(case)
    scheme, kind = case["scheme"], case["kind"]
    name = clsname(scheme, kind)
    perm = list(case["perm"])
    seed = case["seed"]
    k = NPAR[scheme]
    pg = make_pgmat(case["pop"], case["layout"], seed)
    gm = make_model(case["u"], seed)
    ctx.evaluations += 1
    box = {}

    def call():
        box["a"] = lib_build(scheme, kind, "from_algmod", pg, gm, case["nself"], case["mem"], case["counts"])
        pg2 = make_pgmat(case["pop"], case["layout"], seed, order=perm)
        box["pg2"] = pg2
        box["b"] = lib_build(scheme, kind, "from_algmod", pg2, gm, case["nself"], case["mem"], case["counts"])
    ctx.transitions += 2
    ctx.count(f"perm:{name}")
    if not ctx.guard(call, case=case, sig_prefix=f"{name}:"):
        ctx.count(f"raised:{name}")
        return
    a, b, pg2 = box["a"], box["b"], box["pg2"]
    ok = True
    # b[i0,..,ik-1] must be a[perm[i0],...,perm[ik-1]]
    idx = numpy.ix_(*([perm] * k))
    want = a.mat[idx]
    if not numpy.allclose(b.mat, want, rtol=RTOL, atol=ATOL, equal_nan=True):
        ok = False
        d = numpy.argwhere(~numpy.isclose(b.mat, want, rtol=RTOL, atol=ATOL, equal_nan=True))[0]
        ctx.violation(f"{name}:permutation-equivariance",
                      f"taxa reordered by {perm}: entry {d.tolist()} is {b.mat[tuple(d)]!r}, the same cross in the original order has "
                      f"{want[tuple(d)]!r}", case)
    exp_taxa = [pg.taxa[i] for i in perm]
    exp_grp = [int(pg.taxa_grp[i]) for i in perm]
    if not (_same(b.taxa, exp_taxa) and _same(b.taxa_grp, exp_grp) and _same(pg2.taxa, exp_taxa)):
        ok = False
        ctx.violation(f"{name}:taxa-labels", f"after reordering by {perm}: taxa {b.taxa} grp {b.taxa_grp}, expected {exp_taxa} {exp_grp}", case)
    ctx.state(digest(("perm", scheme, kind, case["pop"], perm, case["nself"])))
    ctx.outcome(digest(numpy.round(numpy.nan_to_num(b.mat, nan=-777.0), 9)))
    if perm != sorted(perm) and not numpy.allclose(numpy.nan_to_num(a.mat), numpy.nan_to_num(b.mat)):
        ctx.nontriv(digest(("perm", scheme, kind, case["pop"], perm, case["nself"])))
    if ok:
        ctx.traces += 1


# ----------------------------------------------------------------------------
# L7: histories — several builds in ONE process that share the pgmat / factory / map-function / model
# objects; between builds exactly one ingredient changes (a new model object, the same model edited in
# place, pgmat.mat or pgmat.vrnt_genpos edited in place, nself, counts, another map-function object, mem,
# unique_parents, entry point, percentile).  Oracle: every build equals the enumeration reference for the
# CURRENT contents, and equals the build obtained in isolation from fresh objects (made after the whole
# sequence, so that it cannot refresh a "last value" memo in between).
UC_INGREDIENTS = ("model", "model-inplace", "genotype-inplace", "genpos-inplace", "nself", "counts", "mapfn-object",
                  "unique", "via", "pct")
MAT_INGREDIENTS_GENETIC = ("model", "model-inplace", "genotype-inplace", "genpos-inplace", "nself", "counts",
                           "mapfn-object", "mem")
MAT_INGREDIENTS_GENIC = ("model", "model-inplace", "genotype-inplace", "counts", "mem")
EFFECTIVE = ("model", "model-inplace", "genotype-inplace", "genpos-inplace", "nself")


def _other_genotype(scheme, pop, taxon):
    """A different genotype for one taxon (inbred stays inbred): alleles complemented, last marker kept."""
    a, b = pop[taxon]
    flip = lambda h: tuple((1 - v) if j < len(h) - 1 else v for j, v in enumerate(h))
    na, nb = flip(a), flip(b)
    if len(a) == 1:
        na, nb = tuple(1 - v for v in a), tuple(1 - v for v in b)
    return tuple((na, nb) if i == taxon else g for i, g in enumerate(pop))


def history_variants(target, scheme, kind, base, seed):
    """ingredient -> the base configuration with exactly this ingredient changed."""
    m = len(base["genpos"])
    U = uset(m, seed)
    alt_u = next(u for u in U[::-1] if len(u[0]) == len(base["u"][0]) and u != base["u"])
    gp = list(base["genpos"])
    gp[-1] = gp[-1] + 0.2
    out = {
        "model": dict(base, u=alt_u),
        "model-inplace": dict(base, u=alt_u),
        "genotype-inplace": dict(base, pop=_other_genotype(scheme, base["pop"], 1)),
        "genpos-inplace": dict(base, genpos=tuple(gp)),
        "nself": dict(base, nself=2),
        "counts": dict(base, counts=(2, 3)),
        "mapfn-object": dict(base, fn=1),
        "mem": dict(base, mem=1),
        "unique": dict(base, unique=not base["unique"]),
        "via": dict(base, via="xmap"),
        "pct": dict(base, pct=0.5),
    }
    if target == "uc":
        names = UC_INGREDIENTS
    else:
        names = MAT_INGREDIENTS_GENETIC if KINDS[kind][2] else MAT_INGREDIENTS_GENIC
    return [(g, out[g]) for g in names]


def history_sequences(target, scheme, kind, base, seed):
    """[A, B, A] for every single-ingredient change B of A (covers A->B and B->A), and one chain in which the
    changes accumulate (pairs whose first member is not the base)."""
    var = history_variants(target, scheme, kind, base, seed)
    seqs = []
    for g, cfg in var:
        seqs.append([dict(base, changed="first"), dict(cfg, changed=g), dict(base, changed=g)])
    chain = [dict(base, changed="first")]
    cur = dict(base)
    for g, cfg in var:
        key = {"model": "u", "model-inplace": "u", "genotype-inplace": "pop", "genpos-inplace": "genpos",
               "mapfn-object": "fn"}.get(g, g)
        if g == "model-inplace":
            continue        # same value as "model" — already changed in the chain
        cur = dict(cur, **{key: cfg[key]})
        chain.append(dict(cur, changed=g))
    seqs.append(chain)
    return seqs


def _norm_step(c):
    c = dict(c)
    c["pop"] = tuple((tuple(int(v) for v in g[0]), tuple(int(v) for v in g[1])) for g in c["pop"])
    c["genpos"] = tuple(float(v) for v in c["genpos"])
    c["u"] = [[float(v) for v in row] for row in c["u"]]
    c["counts"] = tuple(int(v) for v in c["counts"])
    return c


def run_history(ctx, case):
    from pybrops.popgen.gmap.HaldaneMapFunction import HaldaneMapFunction
    case = dict(case)
    case["steps"] = [_norm_step(c) for c in case["steps"]]
    case["sizes"] = tuple(int(v) for v in case["sizes"])
    target, scheme, seed, sizes = case["target"], case["scheme"], case["seed"], case["sizes"]
    steps = case["steps"]
    kind = case.get("kind", "vG")
    entry = case.get("entry", "from_algmod")
    pname = case.get("problem")
    if target == "uc":
        name = "UsefulnessCriterionSelectionProblemMixin._calc_uc"
        prefix = f"UsefulnessCriterion{pname}MateSelectionProblem:{WAY[scheme]}DH:"
    else:
        name = clsname(scheme, kind)
        prefix = f"{name}:"
    genetic = target == "uc" or KINDS[kind][2]

    def build(cfg, pg, gm, factory, fns):
        if target == "uc":
            prob, xmap = uc_build(scheme, pname, cfg["via"], cfg["unique"], pg, gm, cfg["nself"], cfg["counts"], cfg["pct"],
                                  factory, fns[cfg["fn"]])
            return prob, xmap, prob.ucmat.copy()
        obj = lib_build(scheme, kind, entry, pg, gm, cfg["nself"], cfg["mem"], cfg["counts"], fn=fns[cfg["fn"]],
                        factory=factory if entry.startswith("factory.") else None)
        return obj, None, obj.mat.copy()

    def new_factory():
        if target == "uc":
            f = get_factory(scheme, "vG")()
        else:
            f = get_factory(scheme, kind)() if entry.startswith("factory.") else None
        _KEEP.append(f)
        return f

    def new_fns():
        fns = [HaldaneMapFunction(), HaldaneMapFunction()]
        _KEEP.append(fns)
        return fns

    # ---- the history on shared objects
    first = steps[0]
    pg = make_pgmat(first["pop"], (sizes, first["genpos"]), seed)
    gm = make_model(first["u"], seed)
    factory, fns = new_factory(), new_fns()
    results, ok = [], True
    prev = first
    for i, cfg in enumerate(steps):
        g = cfg["changed"]
        if i > 0:
            if cfg["pop"] != prev["pop"]:
                pg.mat[:, :, :] = numpy.array([[q[0] for q in cfg["pop"]], [q[1] for q in cfg["pop"]]], dtype="int8")
            if cfg["genpos"] != prev["genpos"]:
                pg.vrnt_genpos[:] = numpy.array(cfg["genpos"], dtype="float64")
            if cfg["u"] != prev["u"]:
                if g == "model-inplace":
                    gm.u_a[:, :] = numpy.array(cfg["u"], dtype="float64")
                else:
                    gm = make_model(cfg["u"], seed)
        ctx.evaluations += 1
        ctx.transitions += 1
        ctx.count("history:steps")
        ctx.flag(f"history:{target}:{g}")
        before = input_state(pg, gm)
        box = {}

        def call():
            box["r"] = build(cfg, pg, gm, factory, fns)
        raised = not ctx.guard(call, case=case, sig_prefix=prefix)
        ok &= check_untouched(ctx, before, pg, gm, prefix, case)
        if raised:
            ok = False
            results.append(None)
            prev = cfg
            continue
        obj, xmap, arr = box["r"]
        results.append(arr)
        layout = (sizes, cfg["genpos"])
        if target == "uc":
            ok &= uc_compare(ctx, case, scheme, pname, obj, xmap, cfg["pop"], layout, cfg["nself"], cfg["u"], cfg["pct"])[0]
        else:
            exp = expected(scheme, layout, cfg["pop"], cfg["nself"] if genetic else 0, cfg["u"])
            desc = dict(pop=cfg["pop"], layout=layout, nself=cfg["nself"], mem=cfg["mem"], u=cfg["u"])
            ok &= check_object(ctx, desc, scheme, kind, obj, pg, gm, exp, rec_case=case)
        prev = cfg
    # ---- the same builds in isolation (fresh objects), after the whole sequence
    iso = []
    for i, cfg in enumerate(steps):
        ctx.transitions += 1
        try:
            _, _, arr = build(cfg, make_pgmat(cfg["pop"], (sizes, cfg["genpos"]), seed), make_model(cfg["u"], seed),
                              new_factory(), new_fns())
        except Exception:
            arr = None
        iso.append(arr)
        a = results[i]
        if (a is None) != (arr is None) or (a is not None and (a.shape != arr.shape or not numpy.allclose(
                a, arr, rtol=RTOL, atol=ATOL, equal_nan=True))):
            ok = False
            ctx.violation(f"{name}:history-dependence",
                          f"build #{i} of a sequence on shared objects (changed since the previous build: {cfg['changed']}; "
                          f"sequence of changes {[c['changed'] for c in steps]}) gives "
                          f"{None if a is None else fmt(a.ravel()[:8])}, the same configuration built in isolation from fresh objects gives "
                          f"{None if arr is None else fmt(arr.ravel()[:8])}", case)
        if i > 0 and arr is not None and iso[i - 1] is not None and (
                arr.shape != iso[i - 1].shape or not numpy.allclose(arr, iso[i - 1], rtol=RTOL, atol=ATOL, equal_nan=True)):
            ctx.flag(f"history-effective:{target}:{cfg['changed']}")
    d = digest(("hist", target, scheme, kind, entry, pname, sizes, [sorted(c.items(), key=str) for c in steps]))
    ctx.state(d)
    ctx.outcome(digest([None if r is None else numpy.round(numpy.nan_to_num(r, nan=-777.0), 9) for r in results]))
    ctx.count("history:sequences")
    if any(f"history-effective:{target}:{c['changed']}" in ctx.flags for c in steps[1:]):
        ctx.nontriv(d)
    if ok:
        ctx.traces += 1


def history_base(scheme, seed, pi):
    m = 2 if scheme == "4way" else 3
    n = 4 if scheme == "4way" else 3
    sizes, genpos = layouts(m, seed)[0]
    pop = rich_pops(scheme, n, m, 2)[pi]
    return sizes, dict(pop=pop, genpos=tuple(genpos), u=uset(m, seed)[1 + 2 * pi], nself=0, counts=(1, 1), fn=0,
                       mem=1024, unique=(scheme != "4way"), via="direct", pct=0.1)


# ----------------------------------------------------------------------------
# L8: operations on the RESULT object.  The computed matrix is a labelled square-taxa matrix; after
# reorder_taxa(perm) / reorder(perm, axis) / sort_taxa() / group_taxa() (in place) and select_taxa(subset)
# (new object) every entry addressed BY LABEL must still be the value computed for that labelled parent tuple
# (and equal the reference), on ALL parent axes; the square-axes metadata must describe the parent axes.
RESULT_OPS = ("deepcopy", "reorder_taxa", "reorder", "sort_taxa", "group_taxa", "select_taxa")


def result_op_cases(n):
    out = [("deepcopy", None), ("sort_taxa", None), ("group_taxa", None)]
    for perm in itertools.permutations(range(n)):
        out.append(("reorder_taxa", list(perm)))
    out.append(("reorder", list(range(n))[::-1]))
    out.append(("reorder", [(i + 1) % n for i in range(n)]))
    for r in range(1, n + 1):
        for sub in itertools.permutations(range(n), r):
            out.append(("select_taxa", list(sub)))
    return out


def run_result_op(ctx, case, base=None):
    import types
    case = norm_case(case)
    scheme, kind, op, arg, seed = case["scheme"], case["kind"], case["op"], case["arg"], case["seed"]
    name = clsname(scheme, kind)
    k = NPAR[scheme]
    order = list(case["order"])
    pop_eff = tuple(case["pop"][i] for i in order)            # population in the order of the matrix axes
    ctx.evaluations += 1
    ctx.count(f"result-op:{name}")
    if base is None:
        box0 = {}

        def build0():
            pg = make_pgmat(case["pop"], case["layout"], seed, order=order)
            gm = make_model(case["u"], seed)
            box0["o"] = lib_build(scheme, kind, "from_algmod", pg, gm, case["nself"], case["mem"], case["counts"])
        ctx.transitions += 1
        if not ctx.guard(build0, case=case, sig_prefix=f"{name}:"):
            ctx.count(f"raised:{name}")
            return
        base = box0["o"]
    names0 = list(base.taxa.tolist())
    grp0 = [int(v) for v in base.taxa_grp.tolist()]
    mat0 = base.mat.copy()
    box = {}

    def call():
        q = base.deepcopy()
        if op == "deepcopy":
            r = q
        elif op == "reorder_taxa":
            q.reorder_taxa(numpy.array(arg, dtype="int64"))
            r = q
        elif op == "reorder":
            q.reorder(numpy.array(arg, dtype="int64"), axis=q.taxa_axis)
            r = q
        elif op == "sort_taxa":
            q.sort_taxa()
            r = q
        elif op == "group_taxa":
            q.group_taxa()
            r = q
        elif op == "select_taxa":
            before = q.mat.copy()
            r = q.select_taxa(numpy.array(arg, dtype="int64"))
            box["src_untouched"] = bool(numpy.array_equal(q.mat, before, equal_nan=True)) and list(q.taxa.tolist()) == names0
        else:
            raise KeyError(op)
        box["r"] = r
    ctx.transitions += 1
    ctx.flag(f"result-op:{op}")
    if not ctx.guard(call, case=case, sig_prefix=f"{name}:result-op:{op}:"):
        return
    r = box["r"]
    ok = True
    if not numpy.array_equal(base.mat, mat0, equal_nan=True) or list(base.taxa.tolist()) != names0 or not box.get("src_untouched", True):
        ok = False
        ctx.violation(f"{name}:result-op:aliasing", f"{op}({arg}) on a deep copy / selection changed the source object", case)
    labels_now = list(r.taxa.tolist())
    if len(set(labels_now)) != len(labels_now) or any(l not in names0 for l in labels_now):
        ctx.violation(f"{name}:result-op:labels-detached", f"{op}({arg}): taxa {labels_now} is not a selection of {names0}", case)
        return
    idx = [names0.index(l) for l in labels_now]
    nn = len(idx)
    if op in ("reorder_taxa", "reorder", "select_taxa") and idx != list(arg):
        ok = False
        ctx.violation(f"{name}:result-op:labels-detached", f"{op}({arg}): taxa are {labels_now}, expected {[names0[i] for i in arg]}", case)
    if op in ("sort_taxa", "group_taxa", "deepcopy") and sorted(idx) != list(range(len(names0))):
        ok = False
        ctx.violation(f"{name}:result-op:labels-detached", f"{op}: taxa {labels_now} are not a permutation of {names0}", case)
    if [int(v) for v in r.taxa_grp.tolist()] != [grp0[i] for i in idx]:
        ok = False
        ctx.violation(f"{name}:result-op:labels-detached", f"{op}({arg}): taxa_grp {r.taxa_grp.tolist()} does not follow the taxa "
                      f"{labels_now} (groups were {dict(zip(names0, grp0))})", case)
    want = mat0[numpy.ix_(*([idx] * k))]
    if r.mat.shape != want.shape or not numpy.array_equal(r.mat, want, equal_nan=True):
        ok = False
        if r.mat.shape == want.shape:
            d = tuple(int(v) for v in numpy.argwhere(~((r.mat == want) | (numpy.isnan(r.mat) & numpy.isnan(want))))[0])
            det = (f"entry {list(d[:k])} (parents by label {[labels_now[i] for i in d[:k]]}) holds {r.mat[d]!r}, the value computed for "
                   f"these parents is {want[d]!r}")
        else:
            det = f"shape {r.mat.shape}, expected {want.shape}"
        ctx.violation(f"{name}:result-op:labels-detached", f"after {op}({arg}) on the computed matrix (taxa {names0} -> {labels_now}): {det}", case)
    # metadata: the parent axes are the square taxa axes
    iscov = KINDS[kind][3]
    meta = dict(square_taxa_axes=tuple(r.square_taxa_axes), nsquare_taxa=int(r.nsquare_taxa), ndim=r.mat.ndim,
                is_square_taxa=bool(r.is_square_taxa()), taxa_axis=int(r.taxa_axis))
    exp_meta = dict(square_taxa_axes=tuple(range(k)), nsquare_taxa=k, ndim=k + (2 if iscov else 1), is_square_taxa=True, taxa_axis=0)
    if iscov:
        meta["square_trait_axes"] = tuple(r.square_trait_axes)
        exp_meta["square_trait_axes"] = (k, k + 1)
    else:
        meta["trait_axis"] = int(r.trait_axis)
        exp_meta["trait_axis"] = k
    if meta != exp_meta:
        ok = False
        ctx.violation(f"{name}:square-axes-metadata", f"{meta}, expected {exp_meta} for a {k}-parent cross tensor", case)
    # and the reference, addressed by label
    if ok:
        sel_pop = tuple(pop_eff[i] for i in idx)
        exp = expected(scheme, case["layout"], sel_pop, case["nself"] if KINDS[kind][2] else 0, case["u"])
        stub = types.SimpleNamespace(ntaxa=nn, taxa=r.taxa, taxa_grp=r.taxa_grp)
        gmstub = types.SimpleNamespace(ntrait=len(case["u"][0]))
        desc = dict(pop=sel_pop, layout=case["layout"], nself=case["nself"], mem=case["mem"], u=case["u"])
        ok = check_object(ctx, desc, scheme, kind, r, stub, gmstub, exp, rec_case=case)
    cfg = digest(("resop", scheme, kind, case["pop"], order, op, arg))
    ctx.state(cfg)
    ctx.outcome(digest((labels_now, numpy.round(numpy.nan_to_num(r.mat, nan=-777.0), 9))))
    if idx != list(range(len(names0))) and not numpy.array_equal(numpy.nan_to_num(r.mat), numpy.nan_to_num(mat0)):
        ctx.nontriv(cfg)
        ctx.count("result-op:changed-the-matrix")
    if ok:
        ctx.traces += 1


# ----------------------------------------------------------------------------
# shards
def l1_spaces(tier):
    """(n taxa, m markers, mode) population spaces per scheme; 'full' = every population, 'flip' = one
    representative per allele relabelling (copy 0 of taxon 0 is 0...0)."""
    if tier == "thorough":
        return {"2way": [(4, 3, "full"), (3, 4, "full")],
                "3way": [(4, 3, "full"), (3, 4, "full")],
                "4way": [(4, 2, "full"), (4, 3, "full"), (3, 4, "flip")],
                "dihybrid": [(2, 3, "full"), (3, 2, "full"), (2, 4, "flip")]}
    return {"2way": [(3, 3, "full")],
            "3way": [(3, 3, "full")],
            "4way": [(4, 2, "full"), (3, 3, "flip")],
            "dihybrid": [(2, 2, "full"), (2, 3, "flip")]}


L1_BLOCK = {"quick": 512, "thorough": 2048}
MEM_LIGHT = ("none", 2, 1024, 3, "none")     # L1 at n*m > 9: the single-marker chunking is left to L3 (cost)


def shards(tier, seed):
    T = tier == "thorough"
    out = []
    # ---- L1 genotype-exhaustive
    for scheme in SCHEMES:
        for (n, m, mode) in l1_spaces(tier)[scheme]:
            N = npop(scheme, n, m, mode)
            nb = max(1, N // L1_BLOCK[tier])
            for li in range(len(layouts(m, seed))):
                for ns in NSELF_CODES:
                    for b in range(nb):
                        out.append(("L1", scheme, n, m, mode, li, ns, b, nb))
    # ---- L2 effect-exhaustive
    for scheme in SCHEMES:
        for pi in range(4 if (T or scheme in ("2way", "dihybrid")) else 2):
            for li in (0, 2):
                for ns in ((0, 1, 2, 5, "inf") if T else (0, 2, "inf")):
                    out.append(("L2", scheme, pi, li, ns))
    # ---- L3 chunking
    for scheme in SCHEMES:
        for li in range(len(mem_layouts(seed))):
            for ns in (NSELF_CODES if T else (0, 2, "inf")):
                out.append(("L3", scheme, li, ns))
    # ---- L4 simulation differential
    out += sim_shards(tier, seed)
    # ---- L5 permutations
    for scheme in SCHEMES:
        for kind in KINDS:
            out.append(("L5", scheme, kind))
    # ---- L6 factories / UC
    for scheme in SCHEMES:
        out.append(("L6f", scheme))
        for pname in UCPROBLEMS:
            out.append(("L6u", scheme, pname))
    # ---- L7 histories on shared objects
    for scheme in SCHEMES:
        out.append(("L7u", scheme))
        out.append(("L7m", scheme))
    # ---- L8 operations on the result objects
    for scheme in SCHEMES:
        out.append(("L8", scheme))
    return out


# populations used by the small layers -------------------------------------------------------
def rich_pops(scheme, n, m, count):
    """Deterministic spread of populations that contains all-distinct haplotypes, repeats and complements."""
    N = npop(scheme, n, m, "full")
    step = max(1, (N // count) | 1)
    seen, out = set(), []
    x = N // 3 + 1
    while len(out) < count:
        p = population(scheme, n, m, "full", x % N)
        if p not in seen:
            seen.add(p)
            out.append(p)
        x += step
    return out


def l2_pops(scheme):
    if scheme == "dihybrid":
        return [(((0, 0, 1), (1, 1, 0)), ((0, 1, 0), (1, 0, 0))),
                (((1, 1, 1), (0, 0, 0)), ((1, 1, 1), (0, 0, 0))),
                (((0, 1, 1), (0, 1, 0)), ((1, 0, 1), (0, 0, 1))),
                (((1, 0, 0), (1, 0, 0)), ((0, 1, 1), (1, 1, 0)))]
    ib = lambda *hs: tuple((h, h) for h in hs)
    if scheme == "4way":
        return [ib((0, 0, 0), (1, 1, 1), (0, 1, 0), (1, 0, 0)), ib((0, 0, 1), (1, 1, 0), (1, 0, 1), (0, 1, 1)),
                ib((1, 1, 1), (0, 0, 0), (0, 0, 0), (1, 0, 1)), ib((0, 1, 1), (1, 0, 0), (1, 1, 1), (0, 1, 0))]
    return [ib((0, 0, 0), (1, 1, 1), (0, 1, 0)), ib((0, 0, 1), (1, 1, 0), (1, 0, 1)),
            ib((1, 1, 1), (0, 0, 0), (0, 0, 0)), ib((0, 1, 1), (1, 0, 0), (1, 1, 1))]


def sim_specs(tier, seed):
    """(scheme, pop, layout, tuple, nself) for the simulation differential (m = 2; m = 3 for the cheap ones)."""
    T = tier == "thorough"
    d1, _ = dists(seed)
    lay2 = [((2,), (0.0, d1)), ((1, 1), (0.0, 0.0)), ((2,), (0.3, 0.3))]
    lay3 = [((3,), (0.0, d1, d1 + 0.3)), ((2, 1), (0.0, d1, 0.0))]
    ib = lambda *hs: tuple((h, h) for h in hs)
    pop2 = ib((0, 0), (1, 1), (0, 1), (1, 0))
    het2 = (((0, 1), (1, 0)), ((0, 0), (1, 1)), ((1, 1), (1, 0)))
    pop3 = ib((0, 0, 0), (1, 1, 1), (0, 1, 0), (1, 0, 1))
    het3 = (((0, 1, 1), (1, 0, 0)), ((0, 0, 1), (1, 1, 1)))
    specs = []
    # (scheme, tuples, nselfs, layouts) ; cost per cross = 4^(number of gametes) at m = 2
    plan = [
        ("2way", pop2, [(0, 1), (1, 0), (2, 3), (0, 0), (0, 2)], (0, 1), lay2),
        ("2way", pop2, [(0, 1), (2, 3)] if T else [(2, 3)], (2,), lay2 if T else lay2[:1]),
        ("3way", pop2, [(0, 1, 2), (2, 0, 1), (0, 1, 1), (1, 0, 0), (2, 3, 1), (0, 2, 3)], (0,), lay2),
        ("3way", pop2, [(0, 1, 2), (2, 3, 1), (0, 1, 1)] if T else [(2, 3, 1)], (1,), lay2 if T else lay2[:1]),
        ("4way", pop2, [(0, 1, 2, 3), (0, 0, 1, 2), (1, 2, 0, 0), (0, 1, 0, 1), (2, 3, 0, 1)] if T else [(0, 1, 2, 3), (1, 2, 0, 0)],
         (0,), lay2 if T else lay2[:1]),
        ("dihybrid", het2, [(0, 1), (1, 0), (0, 0), (2, 0), (1, 2)], (0, 1), lay2),
        ("dihybrid", het2, [(0, 1), (2, 0)] if T else [(0, 1)], (2,), lay2 if T else lay2[:1]),
        ("2way", pop3, [(0, 1), (2, 3), (1, 2)], (0, 1) if T else (0,), lay3),
        ("dihybrid", het3, [(0, 1), (1, 1)], (0,), lay3),
    ]
    if T:
        plan += [("3way", pop3, [(0, 1, 2), (2, 3, 3)], (0,), lay3[:1]),
                 ("dihybrid", het3, [(0, 1)], (1,), lay3[:1]), ("3way", pop3, [(3, 1, 2)], (0,), lay3[1:])]
    for scheme, pop, tups, nselfs, lays in plan:
        for lay in lays:
            for ns in nselfs:
                for tup in tups:
                    specs.append((scheme, pop, lay, tup, ns))
    return specs


def sim_cost(scheme, layout, nself):
    m = sum(layout[0])
    ngam = {"2way": 3, "dihybrid": 3, "3way": 5, "4way": 7}[scheme] + 2 * nself
    return (2 ** m) ** ngam


def sim_shards(tier, seed):
    specs = sim_specs(tier, seed)
    out, cur, cost = [], [], 0
    for i, s in enumerate(specs):
        c = sim_cost(s[0], s[2], s[4])
        if cur and cost + c > 20000:
            out.append(("L4", tuple(cur)))
            cur, cost = [], 0
        cur.append(i)
        cost += c
    if cur:
        out.append(("L4", tuple(cur)))
    return out


# ----------------------------------------------------------------------------
def run_shard(spec, ctx):
    seed = ctx.seed
    layer = spec[0]
    ctx.bounds.update({"nself": list(NSELF_CODES), "mem": list(MEM_CODES) + ["default", 4, 5],
                       "taxa_max": 4, "markers_max": 4, "chromosomes_max": 3, "traits_max": 2,
                       "effect_alphabet": list(alphabet(seed)), "map_distances_morgan": list(dists(seed)) + [0.0, FAR],
                       "tolerance": "rel 1e-9 / abs 1e-12",
                       "L1_population_spaces": {k: ["n=%d m=%d %s" % v for v in vs] for k, vs in l1_spaces(ctx.tier).items()}})
    if layer == "L1":
        _, scheme, n, m, mode, li, ns, b, nb = spec
        layout = layouts(m, seed)[li]
        layout_flags(ctx, layout)
        N = npop(scheme, n, m, mode)
        lo, hi = (N * b) // nb, (N * (b + 1)) // nb
        U = uset(m, seed)
        nsi = NSELF_CODES.index(ns)
        ctx.flag(f"L1:{scheme}:n{n}m{m}:{mode}")
        for idx in range(lo, hi):
            pop = population(scheme, n, m, mode, idx)
            pg = make_pgmat(pop, layout, seed)
            kinds = ("vG", "cG", "vg", "cg") if ns == 0 else ("vG", "cG")
            for ki, kind in enumerate(kinds):
                rot = idx + li + 2 * nsi + ki
                u = U[(idx // 5 + ki + li) % len(U)]
                case = dict(layer="L1", scheme=scheme, kind=kind, entry=("from_algmod", "from_gmod")[(rot // 5) % 2],
                            pop=pop, layout=layout, nself=ns, mem=(MEM_CODES if n * m <= 9 else MEM_LIGHT)[rot % 5], u=u,
                            counts=COUNTS[rot % 3], seed=seed)
                if not KINDS[kind][2] and case["mem"] == "none":
                    case["mem"] = 1024          # the genic classes document `mem : int`
                run_build(ctx, case, pg=pg)
            if idx % 257 == 0:
                ctx.sample(dict(layer="L1", scheme=scheme, parents=[_gt(p) for p in pop], layout=layout, nself=ns))
    elif layer == "L2":
        _, scheme, pi, li, ns = spec
        pop = l2_pops(scheme)[pi]
        m = 3
        layout = layouts(m, seed)[li]
        A = alphabet(seed)
        vecs = list(itertools.product(A, repeat=m))
        pg = make_pgmat(pop, layout, seed)
        T = ctx.tier == "thorough"
        ctx.flag("L2")
        for i, u1 in enumerate(vecs):
            u = [[v] for v in u1]
            for kind in ("vG", "cG") + (("vg", "cg") if ns == 0 else ()):
                mem = (1024, 2, "default")[i % 3]
                if mem == "default" and not KINDS[kind][2] and scheme != "2way":
                    mem = 3         # genic 3-/4-way/dihybrid from_algmod documents `mem` as a required argument
                run_build(ctx, dict(layer="L2", scheme=scheme, kind=kind, entry="from_algmod", pop=pop, layout=layout,
                                    nself=ns, mem=mem, u=u, counts=(1, 1), seed=seed), pg=pg)
        full_pairs = scheme in ("2way", "dihybrid") and T
        seconds = vecs if full_pairs else [vecs[(7 * j + 3) % len(vecs)] for j in range(8 if not T else 16)]
        for i, u1 in enumerate(vecs):
            for j, u2 in enumerate(seconds):
                u = [[a, b] for a, b in zip(u1, u2)]
                kinds = ("cG",) if (i + j) % 4 else ("cG", "vG")
                if ns == 0 and (i + j) % 8 == 0:
                    kinds = kinds + ("cg", "vg")
                for kind in kinds:
                    run_build(ctx, dict(layer="L2", scheme=scheme, kind=kind, entry="from_algmod", pop=pop, layout=layout,
                                        nself=ns, mem="none" if KINDS[kind][2] else 1024, u=u, counts=(1, 1), seed=seed), pg=pg)
        ctx.flag("L2:all-effect-vectors")
    elif layer == "L3":
        _, scheme, li, ns = spec
        layout = mem_layouts(seed)[li]
        layout_flags(ctx, layout)
        m = sum(layout[0])
        n = 4 if (scheme == "4way" and m <= 2) else (2 if scheme == "dihybrid" and m >= 3 else 3)
        U = uset(m, seed)
        T = ctx.tier == "thorough"
        for pi, pop in enumerate(rich_pops(scheme, n, m, 8 if T else 4)):
            pg = make_pgmat(pop, layout, seed)
            u = U[(pi + li) % len(U)]
            for kind in KINDS:
                if not KINDS[kind][2] and ns != 0:
                    continue
                base = dict(layer="L3", scheme=scheme, kind=kind, entry="from_algmod", pop=pop, layout=layout,
                            nself=ns, u=u, counts=COUNTS[pi % 3], seed=seed)
                ref = run_build(ctx, dict(base, mem="none" if KINDS[kind][2] else 1024), pg=pg)
                for mem in (1, 2, 3, 4, 5, 1024, "default"):
                    if mem == "default" and not KINDS[kind][2] and scheme != "2way":
                        continue        # genic 3-/4-way/dihybrid: `mem` has no default in from_algmod (documented as required)
                    run_build(ctx, dict(base, mem=mem), pg=pg, ref_obj=ref)
        ctx.flag("L3")
    elif layer == "L4":
        specs = sim_specs(ctx.tier, seed)
        U2 = uset(2, seed)
        U3 = uset(3, seed)
        for i in spec[1]:
            scheme, pop, lay, tup, ns = specs[i]
            m = sum(lay[0])
            u = (U2 if m == 2 else U3)[(2 * i + 1) % 8]     # odd index: two traits
            run_sim(ctx, dict(layer="L4", scheme=scheme, pop=pop, layout=lay, tup=tup, nself=ns, u=u, seed=seed))
            layout_flags(ctx, lay)
        ctx.flag("L4")
    elif layer == "L5":
        _, scheme, kind = spec
        T = ctx.tier == "thorough"
        n = 4 if (scheme == "4way" or T) else 3
        m = 2 if scheme == "4way" and not T else 3
        if scheme == "dihybrid":
            n = 3
            m = 2
        layout = layouts(m, seed)[0]
        U = uset(m, seed)
        for pi, pop in enumerate(rich_pops(scheme, n, m, 4 if T else 2)):
            for perm in itertools.permutations(range(n)):
                run_perm(ctx, dict(layer="L5", scheme=scheme, kind=kind, pop=pop, layout=layout, nself=(1, "inf")[pi % 2],
                                   mem=(2, "none")[pi % 2] if KINDS[kind][2] else 2, u=U[(pi + 1) % 8], counts=(1, 1),
                                   perm=list(perm), seed=seed))
        ctx.flag("L5")
    elif layer == "L6f":
        _, scheme = spec
        for kind in ("vG", "vg"):
            if (scheme, kind) not in FACTORIES:
                continue
            for m in (2, 3):
                n = 4 if scheme == "4way" and m == 2 else 3
                U = uset(m, seed)
                for li, layout in enumerate(layouts(m, seed)[:3]):
                    for pi, pop in enumerate(rich_pops(scheme, n, m, 3)):
                        pg = make_pgmat(pop, layout, seed)
                        for ns in (NSELF_CODES if KINDS[kind][2] else (0,)):
                            base = dict(layer="L6f", scheme=scheme, kind=kind, pop=pop, layout=layout, nself=ns, u=U[(pi + li) % 8],
                                        counts=COUNTS[(pi + li) % 3], seed=seed, ref_what="factory-differs-from-class",
                                        ref_desc="class.from_algmod(mem=None)")
                            ref = run_build(ctx, dict(base, entry="from_algmod", mem="none" if KINDS[kind][2] else 1024), pg=pg)
                            for entry in ("factory.from_algmod", "factory.from_gmod"):
                                for mem in ("default", 2):
                                    run_build(ctx, dict(base, entry=entry, mem=mem), pg=pg, ref_obj=ref)
        # every class through its interface method from_gmod with the documented required arguments only
        for kind in KINDS:
            for m in (2, 3):
                n = 4 if scheme == "4way" and m == 2 else 3
                layout = layouts(m, seed)[0]
                for pi, pop in enumerate(rich_pops(scheme, n, m, 2)):
                    for ns in ((0, "inf") if KINDS[kind][2] else (0,)):
                        run_build(ctx, dict(layer="L6g", scheme=scheme, kind=kind, entry="from_gmod", mem="default", pop=pop,
                                            layout=layout, nself=ns, u=uset(m, seed)[pi + 1], counts=COUNTS[pi], seed=seed))
        ctx.flag("L6f")
    elif layer == "L6u":
        _, scheme, pname = spec
        T = ctx.tier == "thorough"
        k = NPAR[scheme]
        for m in (2, 3):
            n = 4 if (scheme == "4way") else 3
            if scheme == "4way" and m == 3 and not T:
                continue
            U = uset(m, seed)
            for li, layout in enumerate(layouts(m, seed)[:2]):
                for pi, pop in enumerate(rich_pops(scheme, n, m, 3 if T else 2)):
                    for ni, ns in enumerate((0, 1, 2, 5)):
                        for unique in (True, False):
                            if unique and k > n:
                                continue
                            via = ("direct", "xmap")[(pi + ni + li) % 2]
                            pct = (0.1, 0.5, 1.0, 0.02)[(pi + ni + int(unique)) % 4]
                            run_uc(ctx, dict(layer="L6u", scheme=scheme, problem=pname, unique=unique, via=via, pop=pop,
                                             layout=layout, nself=ns, pct=pct, u=U[(2 * pi + li + 1) % 8],
                                             counts=COUNTS[(pi + ni) % 3], seed=seed))
        ctx.flag("L6u")
    elif layer == "L7u":
        _, scheme = spec
        for pi in range(2):
            sizes, base = history_base(scheme, seed, pi)
            for pname in UCPROBLEMS:
                for steps in history_sequences("uc", scheme, "vG", base, seed):
                    run_history(ctx, dict(layer="L7", target="uc", scheme=scheme, problem=pname, sizes=sizes, steps=steps, seed=seed))
        ctx.flag("L7u")
    elif layer == "L7m":
        _, scheme = spec
        for pi in range(2):
            sizes, base = history_base(scheme, seed, pi)
            for kind in KINDS:
                entries = ["from_algmod", "from_gmod"] + (["factory.from_algmod", "factory.from_gmod"] if (scheme, kind) in FACTORIES else [])
                for entry in entries:
                    for steps in history_sequences("matrix", scheme, kind, base, seed):
                        run_history(ctx, dict(layer="L7", target="matrix", scheme=scheme, kind=kind, entry=entry, sizes=sizes,
                                              steps=steps, seed=seed))
        ctx.flag("L7m")
    elif layer == "L8":
        _, scheme = spec
        n = 4 if scheme == "4way" else 3
        m = 2
        layout = layouts(m, seed)[0]
        order = [2, 0, 3, 1][:n] if n == 4 else [2, 0, 1]          # labels are NOT in sorted order on the axes
        for pi, pop in enumerate(rich_pops(scheme, n, m, 2)):
            u = uset(m, seed)[1 + 2 * pi]
            for kind in KINDS:
                common = dict(layer="L8", scheme=scheme, kind=kind, pop=pop, layout=layout, order=order, nself=(1, "inf")[pi],
                              mem=1024, u=u, counts=(1, 1), seed=seed)
                name = clsname(scheme, kind)
                box = {}

                def build0():
                    pg = make_pgmat(pop, layout, seed, order=order)
                    box["o"] = lib_build(scheme, kind, "from_algmod", pg, make_model(u, seed), common["nself"], 1024, (1, 1))
                ctx.transitions += 1
                if not ctx.guard(build0, case=dict(common, op="deepcopy", arg=None), sig_prefix=f"{name}:"):
                    ctx.count(f"raised:{name}")
                    ctx.count(f"result-op:{name}")
                    continue
                for op, arg in result_op_cases(n):
                    run_result_op(ctx, dict(common, op=op, arg=arg), base=box["o"])
        ctx.flag("L8")
    else:
        raise KeyError(layer)


# ----------------------------------------------------------------------------
def finalize(ctx, tier, seed):
    c = ctx.counters
    for scheme in SCHEMES:
        for kind in KINDS:
            name = clsname(scheme, kind)
            assert c.get(f"builds:{name}", 0) > 0, f"class {name} never exercised"
            assert c.get(f"perm:{name}", 0) > 0, f"class {name} not permuted"
        assert c.get(f"sim:crosses:{scheme}", 0) > 0, scheme
        for p in UCPROBLEMS:
            assert c.get(f"uc:{p}:{scheme}", 0) > 0, (p, scheme)
    for f in ("nself:0", "nself:1", "nself:2", "nself:5", "nself:inf", "mem:None", "mem:default", "mem<chrom", "mem==chrom",
              "mem>chrom", "mem divides chrom", "mem does not divide chrom", "r:unlinked-chromosomes", "r:coincident(0)",
              "r:half-within-chromosome", "r:linked", "chromosome-with-one-marker", "entry:from_algmod", "entry:from_gmod",
              "entry:factory.from_algmod", "entry:factory.from_gmod", "L2:all-effect-vectors", "L3", "L4", "L5", "L6f", "L6u", "L7u", "L7m", "L8"):
        assert f in ctx.flags, f"shortcut case never exercised: {f}"
    for et in ("cross", "self", "female==male", "female1==male1"):
        assert c.get(f"entries:{et}", 0) > 0, et
        assert c.get(f"uc-entries:{et}", 0) > 0, et
    for op in RESULT_OPS:
        assert f"result-op:{op}" in ctx.flags, op
    for scheme in SCHEMES:
        for kind in KINDS:
            assert c.get(f"result-op:{clsname(scheme, kind)}", 0) > 0, (scheme, kind)
    assert c.get("result-op:changed-the-matrix", 0) > 100
    for g in UC_INGREDIENTS:
        assert f"history:uc:{g}" in ctx.flags, g
    for g in MAT_INGREDIENTS_GENETIC:
        assert f"history:matrix:{g}" in ctx.flags, g
    for g in EFFECTIVE:
        assert f"history-effective:uc:{g}" in ctx.flags, f"history change of {g} never changed a UC matrix"
        assert f"history-effective:matrix:{g}" in ctx.flags, f"history change of {g} never changed a variance matrix"
    assert c.get("history:sequences", 0) > 50 and c.get("inputs-untouched-checked", 0) > 1000
    assert c.get("entries:identical-inbred-parents(expected 0)", 0) > 0
    assert c.get("builds-with-nonzero-expected-variance", 0) > 100
    assert c.get("sim:executions", 0) > 1000
    assert len(ctx.nontrivial) > 100, len(ctx.nontrivial)
    assert len(ctx.outcomes) > 100, len(ctx.outcomes)
    assert ctx.traces > 0


def replay(case, ctx):
    layer = case.get("layer")
    if layer == "L4":
        run_sim(ctx, case)
    elif layer == "L5":
        run_perm(ctx, case)
    elif layer == "L6u":
        run_uc(ctx, case)
    elif layer == "L7":
        run_history(ctx, case)
    elif layer == "L8":
        run_result_op(ctx, case)
    else:
        c = norm_case(case)
        ref = None
        if layer == "L3" and c["mem"] not in ("none", 1024):
            ref = _quiet_build(dict(c, mem="none" if KINDS[c["kind"]][2] else 1024))
        if layer == "L6f" and c["entry"].startswith("factory."):
            ref = _quiet_build(dict(c, entry="from_algmod", mem="none" if KINDS[c["kind"]][2] else 1024))
        run_build(ctx, c, ref_obj=ref)


def _quiet_build(case):
    try:
        pg = make_pgmat(case["pop"], case["layout"], case["seed"])
        gm = make_model(case["u"], case["seed"])
        return lib_build(case["scheme"], case["kind"], case["entry"], pg, gm, case["nself"], case["mem"], case["counts"])
    except Exception:
        return None
