"""C01 — Mendelian fidelity of the seven mating protocols.

Stateless exhaustive enumeration of cross configurations x every answer of the
random generator (crossover / no crossover / boundary value per gamete cell) on
the real mate() methods with provenance-coded parents.
"""
from __future__ import annotations
import itertools
import numpy

from .. import compat  # noqa: F401
from ..core import Violation, require, digest, same
from ..env import ScriptedGenerator, MeiosisHandler
from ..explore import explore
from ..fix import prov_pgmat, snapshot, snap_equal, partition_ok
from ..ref import mating as R

ID = "C01"
TECHNIQUE = ("stateless exhaustive enumeration of cross configurations x all generator answers "
             "(deviation-bounded DFS with prefix replay) against a pedigree reference model + mosaic predicate")
RULE = ("one execution = one (protocol, parents, xconfig, nmating, nprogeny, nself, xoprob, initial counters, "
        "answer vector of every uniform() cell) run through the real mate(); layers: L1 all xconfigs x single "
        "deviations, L2 all answer vectors of one gamete pair for all xoprob vectors, L3 array counts with <=k "
        "deviations, incl. 2-call histories on one protocol object; non-trivial = at least one crossover answer "
        "or >=2 founders in one progeny; distinct by digest of (configuration, answers)")
ASSUME = ["numpy.random.Generator.uniform(0,1) returns multiples of 2^-53 in [0,1) (answers injected are such values)",
          "mc/compat.py restores removed numpy names only",
          "diploid parents (the library's mating code is diploid)"]


def _proto_cls(name):
    import importlib
    return getattr(importlib.import_module(f"pybrops.breed.prot.mate.{name}"), name)


def q_value(seed):
    return [0.25, 0.375, 0.1][seed % 3]


# ----------------------------------------------------------------------------
def shards(tier, seed):
    T = tier == "thorough"
    q = q_value(seed)
    out = []
    n = 3
    layouts = [((3,), [0.5, q, 0.5])]
    if T:
        layouts += [((2, 1), [0.5, 0.0, 0.5]), ((3,), [0.0, 1.0, q])]
    else:
        layouts += [((2, 1), [0.5, 0.0, 0.5])]
    layouts.append(((2, 1), [0.5, q, 0.0]))     # zero crossover probability exactly at the start of chromosome 2
    # ---- L1: wiring — all xconfigs (ncross=1), covering pairs (ncross=2), single deviations
    for proto in R.PROTOS:
        k = R.NPARENT[proto]
        tuples = list(itertools.product(range(n), repeat=k))
        cover = _cover(tuples, k)
        for li, (lay, xop) in enumerate(layouts):
            for nself in ((0, 1, 2) if T else (0, 1)):
                cfgs = []
                full = tuples if (T or k <= 3) else tuples
                for t in full:
                    cfgs.append(([t], 1, 1))
                cnts = [(2, 1), (1, 2), (2, 2)]
                for t in (tuples if (T and k <= 3) else cover):
                    for c in cnts:
                        cfgs.append(([t], c[0], c[1]))
                if li > 0 and not T:
                    cfgs = [c for i, c in enumerate(cfgs) if i % 5 == 0]
                if nself == 2:
                    cfgs = [c for i, c in enumerate(cfgs) if i % 7 == 0]
                # chunk
                step = 12 if k >= 3 else 30
                for i in range(0, len(cfgs), step):
                    out.append(("L1", proto, lay, xop, nself, cfgs[i:i + step], 1, False))
        # ncross = 2 with scalar and array counts
        pairs = [(a, b) for a in cover[:4] for b in cover[:4]]
        arrs = [1, 2, [1, 2], [2, 1], [0, 2], [2, 0]]
        cfgs = []
        for pi, (a, b) in enumerate(pairs):
            for ci, (nm, npg) in enumerate(itertools.product(arrs, arrs)):
                if T or (pi + ci) % 4 == 0:
                    cfgs.append(([a, b], nm, npg))
        step = 6 if k >= 3 else 12
        for i in range(0, len(cfgs), step):
            out.append(("L1", proto, layouts[0][0], layouts[0][1], 0, cfgs[i:i + step], 1, True))
            if T:
                out.append(("L1", proto, layouts[1][0], layouts[1][1], 1, cfgs[i:i + step], 1, True))
    # ---- L4: states of the parental matrix: never grouped / variants stored unsorted / optional arrays absent
    pgvars = [dict(group=False), dict(group=False, vperm=[2, 0, 1]), dict(group=False, vperm=[1, 2, 0], drop=["vrnt_name", "vrnt_genpos"]),
              dict(drop=["vrnt_hapgrp", "vrnt_mask", "vrnt_name"]), dict(group=False, drop=["vrnt_genpos", "vrnt_hapgrp", "vrnt_mask"]),
              dict(group=True, vperm=[2, 1, 0])]
    for proto in R.PROTOS:
        k = R.NPARENT[proto]
        cov = _cover(list(itertools.product(range(n), repeat=k)), k)
        for pi, pgo in enumerate(pgvars):
            for nself in (0, 1):
                cfgs = [([cov[(pi + nself) % len(cov)]], 1, 2), ([cov[1], cov[(pi + 2) % len(cov)]], [1, 2], [2, 1])]
                if not T:
                    cfgs = cfgs[(pi + nself) % 2::2]
                out.append(("L4", proto, (2, 1), [0.5, q, 0.5], nself, cfgs, 1, pgo))
    # ---- L6: large mating counts with narrow integer index dtypes (int8 / uint8 / int16 xconfig), default answers only
    for proto in R.PROTOS:
        for dt in ("int8", "uint8", "int16"):
            out.append(("L6", proto, (2,), [0.5, q], 0, None, dt, None))
    # ---- L5: the duplicate utilities in pybrops/core/util/mate.py (dense_meiosis / dense_dh / dense_cross) with
    #          DIFFERENT female and male matrices (two parental pools), every selection pair, <= 2 deviations
    for lay, xop in layouts[:2]:
        out.append(("L5", "dense", lay, xop, 0, None, 2, None))
    # ---- L2: all answers of one gamete pair for all xoprob vectors (meiosis exactness)
    vals = [0.0, q, 0.5, 1.0]
    vecs = list(itertools.product(vals, repeat=3))
    for proto in ("TwoWayCross", "SelfCross"):
        step = 4 if T else 8
        use = vecs if T else vecs
        for i in range(0, len(use), step):
            out.append(("L2", proto, (3,), use[i:i + step], 0, None, None, False))
    if T:
        vecs2 = list(itertools.product(vals, repeat=2))
        for i in range(0, len(vecs2), 2):
            out.append(("L2", "TwoWayDHCross", (2,), vecs2[i:i + 2], 0, None, None, False))
        for i in range(0, len(vecs2), 4):
            out.append(("L2", "TwoWayCross", (1, 1), vecs2[i:i + 4], 1, None, None, False))
    # ---- L3: array counts, <= 2 deviations, all protocols (up to ~110 cells per execution);
    #          thorough adds <= 3 deviations on a one-cross configuration (<= ~36 cells)
    for proto in R.PROTOS:
        kk = R.NPARENT[proto]
        base = [tuple((i + j) % n for j in range(kk)) for i in range(2)]
        for nself in ((0, 1, 2) if T else (0, 1)):
            nm, npg = ([1, 2], [2, 1])
            # split the DFS by the first-level deviation index to spread the load
            nsplit = 8 if T else 4
            for part in range(nsplit):
                out.append(("L3", proto, (3,), [0.5, q, 0.5], nself, [(base, nm, npg)], 2, (part, nsplit)))
        if T:
            one = [tuple((2 - j) % n for j in range(kk))]
            for nself in (0, 1):
                for part in range(8):
                    out.append(("L3", proto, (3,), [0.5, q, 0.5], nself, [(one, 1, 2)], 3, (part, 8)))
    return out


def _cover(tuples, k):
    """A small covering subset: selfs / repeated parents / all-distinct / reversed."""
    cov = []
    n = 3
    cand = [tuple([0] * k), tuple(range(k)) if k <= n else tuple(i % n for i in range(k)),
            tuple(reversed(range(k))) if k <= n else tuple((k - 1 - i) % n for i in range(k)),
            tuple((2 - (i % 2)) for i in range(k)), tuple((i // 2) % n for i in range(k)),
            tuple(((i + 1) // 2) % n for i in range(k)), tuple([2] * (k - 1) + [1])]
    for c in cand:
        if c in tuples and c not in cov:
            cov.append(c)
    return cov


# ----------------------------------------------------------------------------
def run_case(ctx, proto, lay, xop, nself, xconfig, nm, npg, answers=None, bound=None, counters=(0, 0),
             two_calls=False, split=None, seed=None, pgopts=None, xdtype="int64", use_miscout=False):
    """Explore all answer vectors (<= bound deviations) of one configuration."""
    n = 3 if max(max(r) for r in xconfig) >= 2 else 3
    seed = ctx.seed if seed is None else seed
    pgopts = pgopts or {}
    pg, decode = prov_pgmat(n, lay, xop, seed, **{k: (tuple(v) if isinstance(v, list) else v) for k, v in pgopts.items()})
    xop = [float(v) for v in pg.vrnt_xoprob]   # as stored (grouping may have re-ordered the columns)
    before = snapshot(pg)
    cls = _proto_cls(proto)
    xc = numpy.array(xconfig, dtype=xdtype)
    nm_a = nm if isinstance(nm, int) else numpy.array(nm, dtype="int64")
    np_a = npg if isinstance(npg, int) else numpy.array(npg, dtype="int64")
    case_base = dict(proto=proto, layout=list(lay), xoprob=list(xop), nself=nself, xconfig=[list(r) for r in xconfig],
                     nmating=nm, nprogeny=npg, counters=list(counters), two_calls=two_calls, seed=seed, pgopts=pgopts, xdtype=xdtype, use_miscout=use_miscout)

    def run(ch):
        h = MeiosisHandler(ch, xop, mode="full")
        rng = ScriptedGenerator(h)
        prot = cls(progeny_counter=counters[0], family_counter=counters[1], rng=rng)
        # fresh argument arrays per execution (a library build that edits them in place must not poison later
        # executions); they are compared with the originals afterwards
        xc_i = xc.copy()
        nm_i = nm_a if isinstance(nm_a, int) else nm_a.copy()
        np_i = np_a if isinstance(np_a, int) else np_a.copy()
        mo = {} if use_miscout else None        # optional output dict given / omitted
        o1 = prot.mate(pg, xc_i, nm_i, np_i, nself=nself, miscout=mo)
        ncall1 = len(h.draws)
        cnt1 = (prot.progeny_counter, prot.family_counter)
        o2 = None
        cnt2 = None
        if two_calls:
            h.menus = [m[:1] for m in h.menus]     # second call: default answers only
            o2 = prot.mate(pg, xc_i, nm_i, np_i, nself=nself)      # the SAME argument objects as the first call
            cnt2 = (prot.progeny_counter, prot.family_counter)
        args_same = (numpy.array_equal(xc_i, xc) and (isinstance(nm_a, int) or numpy.array_equal(nm_i, nm_a))
                     and (isinstance(np_a, int) or numpy.array_equal(np_i, np_a)))
        h.args_same = args_same
        return (cnt1, cnt2), o1, o2, h, ncall1

    if split is not None:
        part, nsplit = split
        it = explore(run, bound=bound, root_filter=lambda i: i % nsplit == part, yield_root=(part == 0))
    else:
        it = explore(run, bound=bound) if answers is None else None
    if answers is not None:
        from ..explore import Chooser
        ch = Chooser(answers)
        res = run(ch)
        it = [(ch, res)]
    for ch, (cnts, o1, o2, h, ncall1) in it:
        ctx.evaluations += 1
        ctx.transitions += 2 if two_calls else 1
        case = dict(case_base, answers=_trim(ch.taken))
        xo1 = [d[2] for d in h.draws[:ncall1]]
        ctx.guard(lambda: require(h.args_same, f"{proto}:argument-mutated", "mate() changed xconfig / nmating / nprogeny in place"),
                  case=case)
        ok = ctx.guard(lambda: oracle(ctx, proto, pg, before, decode, xc, nm, npg, nself, xop, counters, cnts[0], o1, xo1, first=True),
                       case=case, sig_prefix=f"{proto}:")
        if two_calls and ok:
            nprog1 = o1.mat.shape[1]
            c2 = (counters[0] + nprog1, counters[1] + len(xc))
            xo2 = [d[2] for d in h.draws[ncall1:]]
            ctx.guard(lambda: oracle(ctx, proto, pg, before, decode, xc, nm, npg, nself, xop, c2, cnts[1], o2, xo2, first=False),
                      case=case, sig_prefix=f"{proto}:second-call:")
        ncross_flags = int(sum(int(x.sum()) for x in xo1))
        key = digest((proto, lay, xop, nself, xconfig, nm, npg, tuple(_trim(ch.taken))))
        if ncross_flags > 0 or (o1.mat.shape[1] > 0 and len({decode[int(v)][1] for v in o1.mat[:, 0, :].ravel()}) > 1):
            ctx.nontriv(key)
        ctx.state(digest((proto, nself, o1.mat, o1.taxa_grp)))
        ctx.outcome(digest(o1.mat))
        if ok:
            ctx.traces += 1
        if ctx.evaluations % 4001 == 1 and o1.mat.shape[1] > 0:
            ctx.sample(dict(case, progeny_provenance=[[list(decode[int(v)]) for v in o1.mat[p, 0, :]] for p in range(2)]))
        ctx.count(f"exec:{proto}")
    if answers is None and explore.capped:
        ctx.capped.append(f"{proto} cap")


def _trim(taken):
    t = list(taken)
    while t and t[-1] == 0:
        t.pop()
    return t


def oracle(ctx, proto, pg, before, decode, xc, nm, npg, nself, xop, counters, after, out, xo, first):
    P = f"{proto}:"
    nc = len(xc)
    nm_l = [nm] * nc if isinstance(nm, int) else list(nm)
    np_l = [npg] * nc if isinstance(npg, int) else list(npg)
    nprog = sum(a * b for a, b in zip(nm_l, np_l))
    m = pg.mat.shape[2]
    # (v) input untouched
    okb, fld = snap_equal(before, snapshot(pg))
    require(okb, P + "input-mutated:" + str(fld), lambda: f"mate() changed the parental matrix field {fld}")
    # (iv) counts / order / names / families / counters
    mat = out.mat
    require(mat.shape == (2, nprog, m) and mat.dtype == pg.mat.dtype, P + "shape",
            lambda: f"progeny matrix shape {mat.shape} dtype {mat.dtype}, expected {(2, nprog, m)} int8")
    fam = R.rep(range(nc), [a * b for a, b in zip(nm_l, np_l)])
    exp_grp = [counters[1] + f for f in fam]
    require(out.taxa_grp is not None and list(out.taxa_grp.tolist()) == exp_grp, P + "family-labels",
            lambda: f"taxa_grp {None if out.taxa_grp is None else out.taxa_grp.tolist()} expected {exp_grp}")
    names = list(out.taxa.tolist())
    require(len(names) == nprog and len(set(names)) == nprog, P + "names-unique", lambda: f"names {names}")
    exp_suffix = [str(counters[0] + i).zfill(7) for i in range(nprog)]
    pref = {nme[:-7] for nme in names}
    require([nme[-7:] for nme in names] == exp_suffix and len(pref) == (1 if nprog else 0), P + "names-counter",
            lambda: f"names {names} expected running counter {exp_suffix} behind one constant prefix")
    require(tuple(after) == (counters[0] + nprog, counters[1] + nc), P + "counters",
            lambda: f"counters after call {tuple(after)} expected ({counters[0]+nprog},{counters[1]+nc})")
    # metadata carried over
    for f in ("vrnt_chrgrp", "vrnt_phypos", "vrnt_name", "vrnt_genpos", "vrnt_xoprob", "vrnt_hapgrp", "vrnt_mask",
              "vrnt_chrgrp_name", "vrnt_chrgrp_stix", "vrnt_chrgrp_spix", "vrnt_chrgrp_len"):
        require(same(getattr(out, f), before[f]), P + "metadata:" + f,
                lambda: f"{f} of progeny {getattr(out, f)} differs from parents' {before[f]}")
    # (vi) taxa grouping is a true partition
    require(out.is_grouped_taxa() and partition_ok(out.taxa_grp, out.taxa_grp_name, out.taxa_grp_stix,
                                                    out.taxa_grp_spix, out.taxa_grp_len),
            P + "taxa-partition", lambda: f"group metadata {out.taxa_grp_name},{out.taxa_grp_stix},{out.taxa_grp_spix},{out.taxa_grp_len} for {out.taxa_grp}")
    # (ii) mosaic predicate, independent of the reference simulator
    for i in range(nprog):
        row = xc[fam[i]]
        S = R.founders(proto, row, nself)
        for p in range(2):
            prev = None
            for j in range(m):
                v = int(mat[p, i, j])
                require(v in decode, P + "alien-allele", lambda: f"progeny {i} copy {p} marker {j} carries code {v} that no parent has")
                sp, st, sj = decode[v]
                require(sj == j, P + "marker-shift", lambda: f"progeny {i} copy {p} marker {j} holds the allele of marker {sj}")
                require(st in S[p], P + "wrong-parent",
                        lambda: f"progeny {i} (cross {row.tolist()}) copy {p} marker {j} comes from taxon {st}, allowed {sorted(S[p])}")
                if prev is not None and prev != (sp, st):
                    require(xop[j] > 0, P + "switch-at-zero-interval",
                            lambda: f"progeny {i} copy {p}: source changes {prev}->{(sp, st)} in front of marker {j} whose xoprob is 0")
                prev = (sp, st)
    # (iii) DH homozygous
    if R.IS_DH[proto]:
        require(bool(numpy.array_equal(mat[0], mat[1])), P + "dh-heterozygous", "doubled haploid progeny differ between copies")
    # (i) exact agreement with the pedigree reference under the same answers; draw order inside a mating
    #     (female/male, ab/cd) is not part of the property, so alternative orders are accepted
    exp = None
    err = None
    for xo_try in _orders(xo):
        try:
            e, _ = R.simulate(proto, pg.mat, xc.tolist(), nm, npg, nself, xo_try)
        except R.DrawsExhausted as ex:
            err = str(ex)
            continue
        if exp is None:
            exp = e
        if e.shape == mat.shape and numpy.array_equal(e, mat):
            if xo_try is not xo:
                ctx.count("lockstep-matched-under-reordered-draws")
            break
    else:
        require(False, P + "pedigree-mismatch",
                lambda: f"progeny differ from the pedigree model under the same crossover answers ({err or ''}); "
                + f"got {_prov(mat, decode)} expected {_prov(exp, decode) if exp is not None else None}")


def _orders(xo):
    yield xo
    n = len(xo)
    # swap neighbours with equal shapes (female/male of one mating; ab/cd F1 matings)
    idx = [i for i in range(n - 1) if xo[i].shape == xo[i + 1].shape]
    seen = 0
    for r in range(1, min(len(idx), 4) + 1):
        for comb in itertools.combinations(idx, r):
            if any(b - a == 1 for a, b in zip(comb, comb[1:])):
                continue
            y = list(xo)
            for i in comb:
                y[i], y[i + 1] = y[i + 1], y[i]
            yield y
            seen += 1
            if seen > 64:
                return


def _prov(mat, decode):
    return [[["%d.%d.%d" % decode.get(int(v), (-1, -1, -1)) for v in mat[p, i]] for i in range(mat.shape[1])] for p in range(2)]


# ----------------------------------------------------------------------------
def run_shard(spec, ctx):
    layer, proto, lay, xop, nself, cfgs, bound, flag = spec
    ctx.bounds.update({"n_taxa": 3, "n_markers": 3, "L1_deviation_bound": 1,
                       "L3_deviation_bound": "2 (array counts, 2 crosses)" + ("; 3 (one cross, nprogeny 2)" if ctx.tier == "thorough" else ""),
                       "nself_max": 2 if ctx.tier == "thorough" else 1, "ncross_max": 2})
    if layer == "L1":
        for ci, (xconfig, nm, npg) in enumerate(cfgs):
            counters = (0, 0) if ci % 2 == 0 else (5, 17)
            run_case(ctx, proto, lay, xop, nself, xconfig, nm, npg, bound=bound, counters=counters,
                     two_calls=(ci % 3 == 0), use_miscout=(ci % 2 == 1))
            if ci % 2 == 1:
                ctx.flag("miscout-dict-given")
            ctx.flag(f"L1:{proto}:ncross{len(xconfig)}:nself{nself}")
            if not isinstance(nm, int) or not isinstance(npg, int):
                ctx.flag("array-counts")
            if any(len(set(r)) < len(r) for r in xconfig) and R.NPARENT[proto] > 1:
                ctx.flag("repeated-parents")
    elif layer == "L2":
        for vec in xop:
            k = R.NPARENT[proto]
            xconfig = [tuple(range(k))] if k > 1 else [(1,)]
            run_case(ctx, proto, lay, list(vec), nself, xconfig, 1, 1, bound=None)
            if 0.0 in vec:
                ctx.flag("xoprob-0")
            if 1.0 in vec:
                ctx.flag("xoprob-1")
            if 0.5 in vec:
                ctx.flag("xoprob-0.5")
        ctx.flag(f"L2:{proto}")
    elif layer == "L5":
        run_dense(ctx, lay, xop, bound)
    elif layer == "L6":
        kk = R.NPARENT[proto]
        base = [tuple((i + j) % 3 for j in range(kk)) for i in range(2)]
        for nm, npg in (([100, 70], 1), ([70, 100], [1, 2]) if ctx.tier == "thorough" else ([100, 70], 1)):
            run_case(ctx, proto, lay, xop, nself, base, nm, npg, answers=[], counters=(0, 0), xdtype=bound)
        ctx.flag("L6:narrow-index-dtype")
    elif layer == "L4":
        for ci, (xconfig, nm, npg) in enumerate(cfgs):
            run_case(ctx, proto, lay, xop, nself, xconfig, nm, npg, bound=bound, counters=(2, 9), pgopts=flag,
                     two_calls=(ci % 2 == 0))
        ctx.flag("pg:" + ",".join(f"{k}={v}" for k, v in sorted(flag.items())))
        if not flag.get("group", True):
            ctx.flag("parents-never-grouped")
        if flag.get("vperm"):
            ctx.flag("variants-stored-unsorted")
        if flag.get("drop"):
            ctx.flag("optional-arrays-absent")
    elif layer == "L3":
        (xconfig, nm, npg), = cfgs
        run_case(ctx, proto, lay, xop, nself, xconfig, nm, npg, bound=bound, counters=(3, 1), split=flag)
        ctx.flag(f"L3:{proto}:nself{nself}")
        ctx.flag("array-counts")


def run_dense(ctx, lay, xop, bound):
    """core/util/mate.py: gametes / DH / crosses are mosaics of exactly the selected taxon of the matrix given for
    that side (female matrix -> copy 0, male matrix -> copy 1), under every answer with <= bound deviations."""
    from pybrops.core.util import mate as M
    seed = ctx.seed
    pgF, decF = prov_pgmat(3, lay, xop, seed)
    pgM, _ = prov_pgmat(3, lay, xop, seed)
    # second pool: disjoint allele codes (negated and shifted); decode tables tell the pools apart
    fm = pgF.mat.copy()
    mm = (-(pgF.mat.astype(int)) - 1).astype("int8") if seed % 3 == 0 else (pgF.mat.astype(int) ^ 0x40).astype("int8")
    decM = {int(mm[p, t, j]): (p, t, j) for p in range(2) for t in range(3) for j in range(mm.shape[2])}
    assert not (set(decF) & set(decM))
    xo = numpy.array(xop, dtype=float)
    m = fm.shape[2]
    sels = [([0], [2]), ([1, 1], [0, 2]), ([2, 0, 1], [1, 1, 0])]
    for fsel, msel in sels:
        fs, ms = numpy.array(fsel), numpy.array(msel)
        for fname in ("dense_meiosis", "dense_dh", "dense_cross"):
            def run(ch):
                h = MeiosisHandler(ch, xop, mode="full")
                rng = ScriptedGenerator(h)
                f0, m0 = fm.copy(), mm.copy()
                if fname == "dense_meiosis":
                    o = M.dense_meiosis(f0, fs, xo.copy(), rng)
                elif fname == "dense_dh":
                    o = M.dense_dh(m0, ms, xo.copy(), rng)
                else:
                    o = M.dense_cross(f0, m0, fs, ms, xo.copy(), rng)
                return o, h, f0, m0
            for ch, (o, h, f0, m0) in explore(run, bound=bound):
                ctx.evaluations += 1
                ctx.transitions += 1
                case = dict(layer="L5", fn=fname, layout=list(lay), xoprob=list(xop), fsel=fsel, msel=msel, seed=seed, answers=_trim(ch.taken))
                def orc():
                    require(numpy.array_equal(f0, fm) and numpy.array_equal(m0, mm), f"core.util.mate.{fname}:input-mutated", "genotype argument changed")
                    xs = [d[2] for d in h.draws]
                    if fname == "dense_meiosis":
                        exp = R.meiosis(fm, fsel, xs[0])
                        sides = [(o, decF, fsel)]
                    elif fname == "dense_dh":
                        g = R.meiosis(mm, msel, xs[0])
                        exp = numpy.stack([g, g])
                        sides = [(o[0], decM, msel), (o[1], decM, msel)]
                    else:
                        exp = None
                        for a, b in ((0, 1), (1, 0)):      # draw order of the two sides is not part of the property
                            e = numpy.stack([R.meiosis(fm, fsel, xs[a]), R.meiosis(mm, msel, xs[b])])
                            if exp is None or (e.shape == numpy.shape(o) and numpy.array_equal(e, o)):
                                exp = e
                        sides = [(o[0], decF, fsel), (o[1], decM, msel)]
                    for arr, dec, sel in sides:
                        require(arr.shape == (len(sel), m), f"core.util.mate.{fname}:shape", lambda: f"shape {arr.shape}")
                        for i, t in enumerate(sel):
                            prev = None
                            for j in range(m):
                                v = int(arr[i, j])
                                require(v in dec, f"core.util.mate.{fname}:wrong-parent-matrix",
                                        lambda: f"gamete {i} marker {j} carries code {v}, which is not an allele of the matrix given for that side")
                                sp, st, sj = dec[v]
                                require(st == t and sj == j, f"core.util.mate.{fname}:wrong-parent",
                                        lambda: f"gamete {i} marker {j} comes from taxon {st} marker {sj}, selected taxon {t}")
                                if prev is not None and prev != sp:
                                    require(xop[j] > 0, f"core.util.mate.{fname}:switch-at-zero-interval", lambda: f"gamete {i} switches copy in front of marker {j}")
                                prev = sp
                    require(exp.shape == numpy.shape(o) and numpy.array_equal(exp, o), f"core.util.mate.{fname}:pedigree-mismatch",
                            lambda: f"differs from the reference meiosis under the same answers")
                ok = ctx.guard(orc, case=case, sig_prefix=f"core.util.mate.{fname}:")
                ctx.state(digest((fname, fsel, msel, o)))
                ctx.outcome(digest(o))
                if h.draws and any(bool(d[2].any()) for d in h.draws):
                    ctx.nontriv(digest((fname, fsel, msel, tuple(_trim(ch.taken)))))
                if ok:
                    ctx.traces += 1
                ctx.count(f"exec:core.util.mate.{fname}")
    ctx.flag("L5:core.util.mate")


def finalize(ctx, tier, seed):
    for proto in R.PROTOS:
        assert ctx.counters.get(f"exec:{proto}", 0) > 0, proto
        assert f"L3:{proto}:nself1" in ctx.flags
    for f in ("array-counts", "repeated-parents", "xoprob-0", "xoprob-1", "xoprob-0.5", "parents-never-grouped",
              "variants-stored-unsorted", "optional-arrays-absent"):
        assert f in ctx.flags, f
    assert len(ctx.outcomes) > 100, len(ctx.outcomes)
    assert "L5:core.util.mate" in ctx.flags and "L6:narrow-index-dtype" in ctx.flags and "miscout-dict-given" in ctx.flags


def replay(case, ctx):
    if case.get("layer") == "L5":
        ctx.seed = case.get("seed", ctx.seed)
        run_dense(ctx, tuple(case["layout"]), case["xoprob"], 2)
        return
    run_case(ctx, case["proto"], tuple(case["layout"]), case["xoprob"], case["nself"],
             [tuple(r) for r in case["xconfig"]], case["nmating"], case["nprogeny"],
             answers=case["answers"], counters=tuple(case["counters"]), two_calls=case["two_calls"], seed=case.get("seed"), pgopts=case.get("pgopts"), xdtype=case.get("xdtype", "int64"), use_miscout=case.get("use_miscout", False))
