"""C18 — haplotype blocks: partition laws, conservation of genomic value, optimal haploid /
population values.

Complete small-scope input enumeration on the real code, in five layers:

  P  nhaploblk_chrom / haplobin / haplobin_bounds on EVERY marker layout (per chromosome: every
     non-decreasing position sequence over a 5-point grid — clustered positions that leave an
     equal-width bin empty, markers exactly on a bin boundary, zero-length chromosomes), every
     block total from the chromosome count to the marker count and every per-chromosome block
     count vector.
  B  haplobin_bounds on every non-decreasing label sequence up to 6 markers.
  R  rounding sweep of haplobin's bin bounds: chromosome spans {k/10 : k=1..40} u {1..70}, start 0 and
     two non-zero starts, every block count 2..7, markers at start, tip and 7 interior points, as the
     only and as the second chromosome: every marker labelled in range, labels monotone, first / last
     marker in the first / last block.
  H  the four haplotype-matrix builders (core.util.haplo.haplomat and the _calc_haplomat of the
     OHV / OPV / GenotypeBuilder problem classes) on every layout x total with a basis of
     genotypes (unit vectors, all-ones, staircase) and provenance-coded effects (2^j), with
     numpy.empty answering with poisoned memory (the allocator is an environment whose answer
     the library must not depend on).
  V  _calc_ohvmat (all parent tuples, all chunk sizes), OPV and GenotypeBuilder latentfn on every
     block-value array over a value alphabet; plus set-then-query HISTORIES on one problem object
     (build, evaluate twice, assign haplomat / ohvmat / nbestfndr / obj_wt / decn_space_xmap through
     the public setter or edit the data array in place, evaluate again) whose every step must equal a
     FRESH problem built from the new data, with data and decision vectors left untouched.
  L  the whole pipeline from_pgmat_gpmod -> ohvmat / haplomat / latentfn for OHV (4 decision
     encodings), OPV and GenotypeBuilder on every small layout x total x genotype family x
     effect family; oracle computed marker by marker from the genotypes, incl. every doubled
     haploid that recombines only at block boundaries.
"""
from __future__ import annotations
import itertools, math
from fractions import Fraction as Q
import numpy

from .. import compat  # noqa: F401
from ..core import Violation
from ..ref import haplo as R

from pybrops.core.util import haplo as LH
from pybrops.popgen.gmat.DensePhasedGenotypeMatrix import DensePhasedGenotypeMatrix
from pybrops.model.gmod.DenseAdditiveLinearGenomicModel import DenseAdditiveLinearGenomicModel
from pybrops.breed.prot.sel.prob.OptimalHaploidValueSelectionProblem import (
    OptimalHaploidValueSubsetSelectionProblem, OptimalHaploidValueRealSelectionProblem,
    OptimalHaploidValueIntegerSelectionProblem, OptimalHaploidValueBinarySelectionProblem)
from pybrops.breed.prot.sel.prob.OptimalPopulationValueSelectionProblem import OptimalPopulationValueSubsetSelectionProblem
from pybrops.breed.prot.sel.prob.GenotypeBuilderSelectionProblem import GenotypeBuilderSubsetSelectionProblem

ID = "C18"
TECHNIQUE = ("complete small-scope input enumeration (every marker layout over a position grid x every block total x "
             "every per-chromosome block vector; every block-value array over a value alphabet; every small layout x genotype "
             "family through the whole problem pipeline) on the real code against partition laws and a marker-by-marker "
             "Fraction reference, with numpy.empty answering with poisoned memory")
RULE = ("P: one case = (layout, per-chromosome block vector) through haplobin + haplobin_bounds, and (layout, total) through "
        "nhaploblk_chrom; a layout = per chromosome a non-decreasing sequence of grid positions; non-trivial = some chromosome "
        "is cut into >= 2 blocks. H: one case = (layout, total, builder) with basis genotypes. V: one case = one block-value "
        "array (all crosses / subsets / chunk sizes evaluated on it) + the set-then-query histories OPV (4 steps), GenotypeBuilder (3), "
        "OHV-subset (3) with a partner array as the new data (the other OHV encodings on every 8th array). L: one case = (layout, total, genotype, effects) through "
        "from_pgmat_gpmod of OHV-subset, OPV, GenotypeBuilder (+ the three other OHV encodings on a fixed slice). "
        "states = distinct (layer, configuration) identifiers; transitions = real function / method calls; traces = cases whose "
        "every observation agreed with the reference")
ASSUME = ["genetic positions per chromosome are non-decreasing (documented input constraint); duplicates are allowed",
          "a block total is valid when it lies between the chromosome count and the marker count AND the library's own "
          "apportionment (nhaploblk_chrom) gives no chromosome more blocks than it has markers; otherwise the builders refuse "
          "with their explicit 'greater than number of available markers' error and the case is counted as skipped",
          "haplobin input vectors: 1 <= blocks_i <= markers_i for every chromosome",
          "the partition itself is not prescribed by the property (only its laws); block values, OHV/OPV values and the "
          "doubled-haploid bound are evaluated on the partition the library's haplobin returned (checked by the laws in layer P)",
          "uninitialised memory may hold any bit pattern: numpy.empty is patched (harness process only, during library calls) to "
          "return NaN-filled float arrays and sentinel-filled integer arrays",
          "block values are linear in genotypes and effects (numpy dot), so a basis of genotypes decides layer H for all genotypes",
          "genomic models carry 0, 1 or 2 rows of non-zero miscellaneous random effects (u_misc); block values are defined from the "
          "marker effects u_a only",
          "diploid phased genotypes (ploidy = number of phases = 2); positions, effects and block values are dyadic rationals",
          "mc/compat.py restores removed numpy names only"]

# ---------------------------------------------------------------------------- alphabets (VERIF_SEED rotates values only)
STEP = [0.25, 0.1, 12.5]                      # genetic position of grid point g is g * STEP
EFF = [(-1, 0, 0.5, 2), (-2, 0, 0.25, 1), (-0.5, 0, 1, 4)]
VAL2 = [(-1, 2), (0, 1), (-2, -0.5)]
VAL3 = [(-1, 0, 2), (-2, 0.5, 1), (-0.5, 0, 3)]
VAL4 = [(-1, 0, 0.5, 2), (-2, 0, 0.25, 1), (-0.5, 0, 1, 4)]
NGRID = 5
ISENT = -(2 ** 40) + 7

HAPLO = "core.util.haplo."
SITES = ["core.util.haplo.haplomat", "OptimalHaploidValueSelectionProblem._calc_haplomat",
         "OptimalPopulationValueSelectionProblem._calc_haplomat", "GenotypeBuilderSelectionProblem._calc_haplomat"]


class poisoned_empty:
    """numpy.empty answers with poisoned memory while the library runs (only code that looks up
    ``numpy.empty`` at call time is affected, i.e. pybrops; numpy's own internals are not)."""
    _orig = numpy.empty

    def __enter__(self):
        orig = poisoned_empty._orig

        def empty(shape, dtype=float, *a, **k):
            arr = orig(shape, dtype, *a, **k)
            if arr.dtype.kind == "f":
                arr.fill(numpy.nan)
            elif arr.dtype.kind in "iu":
                arr.fill(ISENT if arr.dtype.itemsize >= 8 else -99)
            return arr
        numpy.empty = empty

    def __exit__(self, *exc):
        numpy.empty = poisoned_empty._orig
        return False


POISON = poisoned_empty()


# ---------------------------------------------------------------------------- layouts
def chrom_seqs(L):
    return list(itertools.combinations_with_replacement(range(NGRID), L))


_LAY = {}


def layouts(lens):
    """All layouts with the given markers-per-chromosome: tuple (per chromosome) of grid index tuples."""
    if lens not in _LAY:
        _LAY[lens] = list(itertools.product(*[chrom_seqs(L) for L in lens]))
    return _LAY[lens]


class Layout:
    __slots__ = ("lay", "lens", "p", "c", "genpos", "stix", "spix", "clen", "st", "sp")

    def __init__(self, lay, seed):
        self.lay = lay
        self.lens = tuple(len(x) for x in lay)
        self.p = sum(self.lens)
        self.c = len(lay)
        step = STEP[seed % 3]
        self.genpos = numpy.array([g * step for ch in lay for g in ch], dtype="float64")
        sp = list(itertools.accumulate(self.lens))
        st = [0] + sp[:-1]
        self.st, self.sp = st, sp
        self.stix = numpy.array(st, dtype="int64")
        self.spix = numpy.array(sp, dtype="int64")
        self.clen = numpy.array(self.lens, dtype="int64")


def has_empty_bin(ch, nhap):
    """Input-side classification (exact, on grid indices): cutting the span of chromosome `ch` into `nhap`
    equal-width closed bins leaves a bin without marker (or the span is zero and several blocks are wanted)."""
    if nhap < 2:
        return False
    lo, hi = ch[0], ch[-1]
    if lo == hi:
        return True
    for j in range(nhap):
        a = lo + Q((hi - lo) * j, nhap)
        b = lo + Q((hi - lo) * (j + 1), nhap)
        if not any(a <= g <= b for g in ch):
            return True
    return False


def on_interior_boundary(ch, nhap):
    lo, hi = ch[0], ch[-1]
    return lo != hi and any(lo + Q((hi - lo) * j, nhap) == g for j in range(1, nhap) for g in ch)


def lay_id(lay):
    """Exact identifier bytes of a layout."""
    return bytes([len(lay)]) + b"".join(bytes([len(ch)]) + bytes(ch) for ch in lay)


def _plan(tier):
    T = tier == "thorough"
    mx = 5 if T else 4
    P = [(L,) for L in range(1, 6 + 1)] + [(a, b) for a in range(1, mx + 1) for b in range(1, mx + 1)]
    H = [(L,) for L in range(1, 6 + 1)] + [(a, b) for a in range(1, (5 if T else 4) + 1) for b in range(1, (5 if T else 4) + 1)]
    if T:
        P += [(a, b, c) for a in range(1, 4) for b in range(1, 4) for c in range(1, 4)]
        H += [(a, b, c) for a in range(1, 4) for b in range(1, 4) for c in range(1, 4)]
    else:
        P += [(a, b, c) for a in range(1, 3) for b in range(1, 3) for c in range(1, 3)]
        H += [(a, b, c) for a in range(1, 3) for b in range(1, 3) for c in range(1, 3)]
    Lp = [(1,), (2,), (3,), (1, 1), (1, 2), (2, 1)]
    if T:
        Lp += [(4,), (2, 2), (1, 3), (3, 1), (1, 1, 1), (1, 1, 2)]
    V = [("n2b1v4",), ("n2b2v3",), ("n3b1v3",), ("n3b2v2",)]
    if T:
        V += [("n2b2v4",), ("n2b3v2",)]
    return P, H, V, Lp


def shards(tier, seed):
    P, H, V, Lp = _plan(tier)
    out = [("B",)] + [("R", i, i + 22) for i in range(0, 110, 22)]
    for lens in P:
        n = len(layouts(lens))
        step = 3000 if tier == "quick" else 12000
        for i in range(0, n, step):
            out.append(("P", lens, i, min(i + step, n)))
    for lens in H:
        n = len(layouts(lens))
        step = 700 if tier == "quick" else 4000
        for i in range(0, n, step):
            out.append(("H", lens, i, min(i + step, n)))
    for (name,) in V:
        tot = v_space(name, seed)[3]
        step = 600 if tier == "quick" else 2000
        for i in range(0, tot, step):
            out.append(("V", name, i, min(i + step, tot)))
    for lens in Lp:
        n = len(layouts(lens))
        p = sum(lens)
        per_layout = (p - len(lens) + 1) * len(l_genotypes(p, seed, tier)) * len(l_effects(p, seed, tier))
        step = max(1, (2500 if tier == "quick" else 6000) // per_layout)
        for i in range(0, n, step):
            out.append(("L", lens, i, min(i + step, n)))
    return out


# ---------------------------------------------------------------------------- layer P
def p_haplobin(ctx, lo, nhap, case):
    """haplobin + haplobin_bounds for one per-chromosome block vector."""
    nh = numpy.array(nhap, dtype="int64")
    with POISON:
        hb = LH.haplobin(nh, lo.genpos.copy(), lo.stix.copy(), lo.spix.copy())
    ctx.transitions += 1
    if not (isinstance(hb, numpy.ndarray) and hb.shape == (lo.p,) and hb.dtype.kind in "iu"):
        raise Violation(HAPLO + "haplobin:shape", f"returned {type(hb).__name__} dtype {getattr(hb, 'dtype', None)} shape {getattr(hb, 'shape', None)} for {lo.p} markers")
    labels = hb.tolist()
    f = R.partition_failure(labels, lo.st, lo.sp, nhap)
    if f is not None:
        raise Violation(HAPLO + "haplobin:" + f[0],
                        f"positions {[lo.genpos[a:b].tolist() for a, b in zip(lo.st, lo.sp)]} blocks per chromosome {list(nhap)}: "
                        f"labels {labels}: {f[1]}")
    return labels


def p_bounds(ctx, labels):
    hb = numpy.array(labels, dtype="int64")
    with POISON:
        out = LH.haplobin_bounds(hb)
    ctx.transitions += 1
    rn = R.runs(labels)
    ok = (isinstance(out, tuple) and len(out) == 3 and all(isinstance(a, numpy.ndarray) and a.dtype.kind in "iu" for a in out))
    if ok:
        hst, hsp, hln = (a.tolist() for a in out)
        ok = hst == [a for a, b in rn] and hsp == [b for a, b in rn] and hln == [b - a for a, b in rn]
    if not ok:
        raise Violation(HAPLO + "haplobin_bounds:run-boundaries",
                        f"labels {labels}: returned {[getattr(a, 'tolist', lambda: a)() for a in out] if isinstance(out, tuple) else out}, "
                        f"run-length boundaries are start {[a for a, b in rn]} stop {[b for a, b in rn]} length {[b - a for a, b in rn]}")
    return rn


def p_apportion(ctx, lo, total):
    with POISON:
        nb = LH.nhaploblk_chrom(total, lo.genpos.copy(), lo.stix.copy(), lo.spix.copy())
    ctx.transitions += 1
    if not (isinstance(nb, numpy.ndarray) and nb.shape == (lo.c,) and nb.dtype.kind in "iu"):
        raise Violation(HAPLO + "nhaploblk_chrom:shape", f"returned {type(nb).__name__} dtype {getattr(nb, 'dtype', None)} shape {getattr(nb, 'shape', None)}")
    l = nb.tolist()
    pos = [lo.genpos[a:b].tolist() for a, b in zip(lo.st, lo.sp)]
    if sum(l) != total:
        raise Violation(HAPLO + "nhaploblk_chrom:total", f"positions {pos} total {total}: per-chromosome blocks {l} sum to {sum(l)}")
    if min(l) < 1:
        raise Violation(HAPLO + "nhaploblk_chrom:min-one", f"positions {pos} total {total}: per-chromosome blocks {l}: a chromosome has no block")
    return l


def guard_case(ctx, fn, case, prefix):
    """Fast path without closures; any failure is re-raised through Ctx.guard for classification."""
    try:
        return True, fn()
    except Exception:
        ok = ctx.guard(fn, case=case, sig_prefix=prefix)
        assert not ok, "non-deterministic observation"
        return False, None


def run_P(spec, ctx):
    _, lens, a, b = spec
    seed = ctx.seed
    ctx.flag(f"P:{lens}")
    for lay in layouts(lens)[a:b]:
        lo = Layout(lay, seed)
        lid = lay_id(lay)
        if any(len(set(ch)) == 1 and len(ch) > 1 for ch in lay):
            ctx.flag("P:zero-length-chromosome-with-several-markers")
        for total in range(lo.c, lo.p + 1):
            case = dict(layer="P-apportion", lay=[list(ch) for ch in lay], total=total, seed=seed)
            ctx.evaluations += 1
            ctx.states.add(b"A" + lid + bytes([total]))
            ctx.count("P:apportion-cases")
            ok, nb = guard_case(ctx, lambda: p_apportion(ctx, lo, total), case, HAPLO + "nhaploblk_chrom:")
            if ok:
                ctx.traces += 1
                ctx.outcome(("A", tuple(nb)))
                if any(x > y for x, y in zip(nb, lo.lens)):
                    ctx.count("P:apportionments-exceeding-a-chromosome's-markers")
        for nhap in itertools.product(*[range(1, L + 1) for L in lo.lens]):
            case = dict(layer="P-bin", lay=[list(ch) for ch in lay], nhap=list(nhap), seed=seed)
            ctx.evaluations += 1
            sid = b"P" + lid + bytes(nhap)
            ctx.states.add(sid)
            if max(nhap) >= 2:
                ctx.nontrivial.add(sid)
            ctx.count("P:bin-cases")
            if any(has_empty_bin(ch, k) for ch, k in zip(lay, nhap)):
                ctx.count("P:bin-cases-with-an-empty-equal-width-bin")
            if any(k >= 2 and on_interior_boundary(ch, k) for ch, k in zip(lay, nhap)):
                ctx.count("P:bin-cases-with-a-marker-on-an-interior-boundary")
            ok, labels = guard_case(ctx, lambda: p_haplobin(ctx, lo, nhap, case), case, HAPLO + "haplobin:")
            if ok:
                ctx.outcome(("P", tuple(labels)))
                ok2, _ = guard_case(ctx, lambda: p_bounds(ctx, labels), dict(layer="B", labels=labels, seed=seed), HAPLO + "haplobin_bounds:")
                if ok2:
                    ctx.traces += 1
            else:
                ctx.count("P:haplobin-cases-violating-a-law")
    if a == 0 and lens in ((4,), (2, 3)):
        lo = Layout(layouts(lens)[len(layouts(lens)) // 3], seed)
        nh = tuple(max(1, L - 1) for L in lens)
        ctx.sample(dict(layer="P", positions=[lo.genpos[x:y].tolist() for x, y in zip(lo.st, lo.sp)], blocks_per_chromosome=list(nh),
                        haplobin=LH.haplobin(numpy.array(nh), lo.genpos, lo.stix, lo.spix).tolist(),
                        note="every total and every per-chromosome block vector was run on this and every other layout of these sizes"))


def run_B(spec, ctx):
    """haplobin_bounds on every non-decreasing label sequence (labels may skip numbers) up to 6 markers."""
    for L in range(1, 7):
        for incs in itertools.product((0, 1, 2), repeat=L - 1):
            for first in (0, 3):
                labels = [first]
                for d in incs:
                    labels.append(labels[-1] + d)
                ctx.evaluations += 1
                ctx.count("B:cases")
                ctx.states.add(b"B" + bytes(labels))
                if len(set(labels)) > 1:
                    ctx.nontrivial.add(b"B" + bytes(labels))
                ok, rn = guard_case(ctx, lambda: p_bounds(ctx, labels), dict(layer="B", labels=labels, seed=ctx.seed), HAPLO + "haplobin_bounds:")
                if ok:
                    ctx.traces += 1
                    ctx.outcome(("B", tuple(rn)))
    ctx.flag("B")


# ---------------------------------------------------------------------------- layer R (rounding sweep of the bin bounds)
R_STARTS = [(0.0, 0.3, 5.0), (0.0, 0.7, 11.0), (0.0, 0.1, 3.0)]     # chromosome start positions (seed rotates the non-zero ones)


class FreeLayout:
    """A layout given by explicit positions per chromosome (same attributes as Layout)."""
    def __init__(self, chroms):
        self.lens = tuple(len(c) for c in chroms)
        self.p, self.c = sum(self.lens), len(chroms)
        self.genpos = numpy.array([x for c in chroms for x in c], dtype="float64")
        self.sp = list(itertools.accumulate(self.lens))
        self.st = [0] + self.sp[:-1]
        self.stix, self.spix = numpy.array(self.st, dtype="int64"), numpy.array(self.sp, dtype="int64")
        self.clen = numpy.array(self.lens, dtype="int64")


def r_spans():
    return [k / 10 for k in range(1, 41)] + [float(k) for k in range(1, 71)]


def r_chrom(start, span):
    """Markers at the start, the tip and seven interior points of a chromosome of the given span."""
    tip = start + span
    return [start] + [start + span * j / 8 for j in range(1, 8)] + [tip]


def r_case(ctx, case):
    start, span, nhap, second = case["start"], case["span"], case["nhap"], case["second"]
    chroms = ([[0.0, 1.0]] if second else []) + [r_chrom(start, span)]
    lo = FreeLayout(chroms)
    nh = ((1,) if second else ()) + (nhap,)
    nhv = numpy.array(nh, dtype="int64")
    with POISON:
        hb = LH.haplobin(nhv, lo.genpos.copy(), lo.stix.copy(), lo.spix.copy())
    ctx.transitions += 1
    labels = hb.tolist()
    total = sum(nh)
    desc = f"chromosome positions {chroms[-1]} ({'second' if second else 'only'} chromosome) cut into {nhap} blocks: labels {labels}"
    for j, v in enumerate(labels):
        if not (isinstance(v, int) and 0 <= v < total):
            raise Violation(HAPLO + "haplobin:unassigned-marker", f"{desc}: marker {j} carries {v}, not a block number in [0,{total}) "
                                                                  f"(uninitialised label; numpy.empty poisoned)")
    if any(labels[j] > labels[j + 1] for j in range(len(labels) - 1)):
        raise Violation(HAPLO + "haplobin:not-monotone", desc)
    if labels[-1] != total - 1 or labels[lo.st[-1]] != total - nhap:
        raise Violation(HAPLO + "haplobin:tip-marker-block",
                        f"{desc}: the first / last marker of the chromosome must lie in its first / last block ({total - nhap} / {total - 1})")
    return labels


def run_R(spec, ctx):
    """For every span in {k/10: k=1..40} u {1..70}, start 0 and two non-zero starts, every block count 2..7, as the only and as
    the second chromosome: the bounds of the equal-width bins must cover the chromosome tip whatever the rounding."""
    _, a, b = spec
    starts = R_STARTS[ctx.seed % 3]
    ctx.flag("R")
    for si, span in enumerate(r_spans()[a:b]):
        for start in starts:
            for nhap in range(2, 8):
                for second in (False, True):
                    case = dict(layer="R", start=start, span=span, nhap=nhap, second=second, seed=ctx.seed)
                    ctx.evaluations += 1
                    ctx.count("R:cases")
                    sid = ("R", a + si, start, nhap, second)
                    ctx.state(sid)
                    ctx.nontriv(sid)
                    ok, labels = guard_case(ctx, lambda: r_case(ctx, case), case, HAPLO + "haplobin:")
                    if ok:
                        ctx.traces += 1
                        ctx.outcome(("R", tuple(labels)))
                    # input-side: does start + nhap * ((tip - start) / nhap) round below the tip?  (the case a bound computed by
                    # multiplication would miss)
                    tip = start + span
                    if start + nhap * ((tip - start) / nhap) < tip:
                        ctx.count("R:cases-where-multiplied-bound-rounds-below-the-tip")


# ---------------------------------------------------------------------------- layer H
_BASIS = {}


def basis(p, seed):
    """Basis genotypes (2, p+1, p) int8, effects (p, 2) float64, and the exact prefix sums."""
    key = (p, seed % 3)
    if key not in _BASIS:
        n = p + 1
        G = [[[0] * p for _ in range(n)] for _ in range(2)]
        for j in range(p):
            G[0][j][j] = 1                       # unit vectors: reveal which block marker j went to
            for i in range(j + 1):
                G[1][j][i] = 1                   # staircase
        G[0][p] = [1] * p                        # all ones: block sums
        G[1][p] = [(j + 1) % 2 for j in range(p)]
        eff = EFF[seed % 3]
        u = [[Q(2) ** j, Q(eff[(3 * j + 1) % 4])] for j in range(p)]
        Gn = numpy.array(G, dtype="int8")
        un = numpy.array([[float(x) for x in r] for r in u], dtype="float64")
        _BASIS[key] = (G, u, Gn, un, R.prefix_sums(G, u))
    return _BASIS[key]


def make_pgmat(lo, Gn):
    p = lo.p
    pg = DensePhasedGenotypeMatrix(
        mat=Gn.copy(), taxa=None, taxa_grp=None,
        vrnt_chrgrp=numpy.repeat(numpy.arange(1, lo.c + 1), lo.lens).astype("int64"),
        vrnt_phypos=numpy.arange(1, p + 1, dtype="int64") * 10,
        vrnt_name=None, vrnt_genpos=lo.genpos.copy(), vrnt_xoprob=None)
    pg.group_vrnt()
    return pg


U_MISC = [[7.25, -3.5], [11.0, 0.75]]      # miscellaneous random effects (not marker effects): must never enter a block value


def make_gpmod(un, nmisc=0):
    """Additive linear genomic model with `nmisc` rows of non-zero miscellaneous random effects in front of the marker
    effects (model.u = [u_misc; u_a]); block values are defined from u_a only."""
    um = None if nmisc == 0 else numpy.array([r[:un.shape[1]] for r in U_MISC[:nmisc]], dtype="float64")
    return DenseAdditiveLinearGenomicModel(beta=numpy.zeros((1, un.shape[1])), u_misc=um, u_a=un.copy(), trait=None)


def call_site(site, lo, total, Gn, un, pg, gp):
    with POISON:
        if site == SITES[0]:
            return LH.haplomat(total, Gn.copy(), lo.genpos.copy(), lo.stix.copy(), lo.spix.copy(), lo.clen.copy(), un.copy())
        if site == SITES[1]:
            return OptimalHaploidValueSubsetSelectionProblem._calc_haplomat(pg, gp, total)
        if site == SITES[2]:
            return OptimalPopulationValueSubsetSelectionProblem._calc_haplomat(pg, gp, total)
        return GenotypeBuilderSubsetSelectionProblem._calc_haplomat(pg, gp, total)


def lib_partition(lo, total):
    """The partition the library uses for (layout, total): (nblk list, labels, runs); its laws are layer P's business."""
    nb = LH.nhaploblk_chrom(total, lo.genpos.copy(), lo.stix.copy(), lo.spix.copy())
    nbl = nb.tolist()
    if any(x > y for x, y in zip(nbl, lo.lens)):
        return nbl, None, None
    labels = LH.haplobin(nb, lo.genpos.copy(), lo.stix.copy(), lo.spix.copy()).tolist()
    return nbl, labels, R.runs(labels)


def check_hmat(site, hm, shape, exp_blocks, exp_total, desc):
    """shape; written everywhere; conservation; block values."""
    if not (isinstance(hm, numpy.ndarray) and hm.shape == shape):
        raise Violation(site + ":shape", f"{desc}: returned {type(hm).__name__} of shape {getattr(hm, 'shape', None)}, expected {shape}")
    nan = numpy.isnan(hm)
    if nan.any():
        cols = sorted(set(numpy.nonzero(nan)[2].tolist()))
        raise Violation(site + ":unwritten-block-columns",
                        f"{desc}: block column(s) {cols} of the (m,n,b,t) result were never written — the partition has only "
                        f"{len(exp_blocks[0][0])} block(s) although the array has {shape[2]} block columns; with real numpy.empty these "
                        f"entries are whatever the allocator returned (poisoned here with NaN)")
    if not numpy.isfinite(hm).all():
        raise Violation(site + ":non-finite", f"{desc}: non-finite block values {hm.tolist()}")
    hl = hm.tolist()
    M, N, T = shape[0], shape[1], shape[3]
    for m in range(M):
        for n in range(N):
            for t in range(T):
                s = math.fsum(hl[m][n][b][t] for b in range(shape[2]))
                e = float(exp_total[m][n][t])
                if not abs(s - e) <= 1e-12 * max(1.0, abs(e)):
                    raise Violation(site + ":conservation",
                                    f"{desc}: chromosome copy (phase {m}, taxon {n}) trait {t}: block values {[hl[m][n][b][t] for b in range(shape[2])]} "
                                    f"sum to {s}, the copy's total additive value is {e}")
    nb = len(exp_blocks[0][0])
    for m in range(M):
        for n in range(N):
            for b in range(shape[2]):
                for t in range(T):
                    e = float(exp_blocks[m][n][b][t]) if b < nb else 0.0
                    if not abs(hl[m][n][b][t] - e) <= 1e-12 * max(1.0, abs(e)):
                        raise Violation(site + ":block-value",
                                        f"{desc}: phase {m} taxon {n} block {b} trait {t}: value {hl[m][n][b][t]}, genotype slice . effect slice is {e}")


def run_H(spec, ctx):
    _, lens, a, b = spec
    seed = ctx.seed
    p = sum(lens)
    G, u, Gn, un, pre = basis(p, seed)
    gp3 = [make_gpmod(un, q) for q in range(3)]
    tot_exp = R.total_values(pre)
    ctx.flag(f"H:{lens}")
    for li, lay in enumerate(layouts(lens)[a:b]):
        nmisc = (a + li + seed) % 3              # model variant: 0, 1 or 2 miscellaneous-effect rows
        gp = gp3[nmisc]
        ctx.count(f"H:layouts-with-{nmisc}-misc-effect-rows")
        lo = Layout(lay, seed)
        pg = make_pgmat(lo, Gn)
        lid = lay_id(lay)
        for total in range(lo.c, lo.p + 1):
            nbl, labels, rn = lib_partition(lo, total)
            if labels is None:
                ctx.count("H:skipped-apportionment-exceeds-markers(layout,total)")
                continue
            blocks = R.block_values(pre, rn)
            if any(has_empty_bin(ch, k) for ch, k in zip(lay, nbl)):
                ctx.count("H:(layout,total)-with-an-empty-equal-width-bin")
            for si, site in enumerate(SITES):
                case = dict(layer="H", lay=[list(ch) for ch in lay], total=total, site=site, nmisc=nmisc, seed=seed)
                desc = (f"positions {[lo.genpos[x:y].tolist() for x, y in zip(lo.st, lo.sp)]} nhaploblk {total} (library partition {labels}; "
                        f"model with {nmisc} misc-effect rows)")
                ctx.evaluations += 1
                ctx.transitions += 1
                sid = b"H" + lid + bytes([total, si])
                ctx.states.add(sid)
                if total > lo.c:
                    ctx.nontrivial.add(sid)
                ok, hm = guard_case(ctx, lambda: _h_one(site, lo, total, Gn, un, pg, gp, blocks, tot_exp, desc), case, site + ":")
                if ok:
                    ctx.traces += 1
                    if si == 0:
                        ctx.outcome(("H", tuple(labels), total))
                ctx.count(f"H:calls:{site.split('.')[-2] if si else 'core.haplomat'}")


def _h_one(site, lo, total, Gn, un, pg, gp, blocks, tot_exp, desc):
    hm = call_site(site, lo, total, Gn, un, pg, gp)
    check_hmat(site, hm, (2, Gn.shape[1], total, un.shape[1]), blocks, tot_exp, desc)
    return hm


# ---------------------------------------------------------------------------- layer V
def v_space(name, seed):
    """(n taxa, b blocks, value alphabet, number of arrays, two_traits)."""
    n = int(name[1])
    b = int(name[3])
    k = int(name[5])
    vals = {2: VAL2, 3: VAL3, 4: VAL4}[k][seed % 3]
    return n, b, vals, k ** (2 * n * b), True


def v_array(n, b, vals, idx):
    """The idx-th (2,n,b) value array in base-k digits, as nested list of Fractions with 2 traits: trait 1 = c - trait 0."""
    k = len(vals)
    digs = []
    for _ in range(2 * n * b):
        digs.append(idx % k)
        idx //= k
    it = iter(digs)
    c = Q(vals[-1]) + 1
    return [[[[Q(vals[d]), c - Q(vals[d])] for d in (next(it) for _ in range(b))] for _ in range(n)] for _ in range(2)]


def _vec_check(sig, got, exp, desc):
    if not (isinstance(got, numpy.ndarray) and got.shape == (len(exp),)):
        raise Violation(sig.rsplit(":", 1)[0] + ":shape", f"{desc}: returned {type(got).__name__} shape {getattr(got, 'shape', None)}, expected ({len(exp)},)")
    gl = got.tolist()
    if not all(math.isfinite(x) for x in gl):
        raise Violation(sig.rsplit(":", 1)[0] + ":non-finite", f"{desc}: returned {gl}")
    for x, e in zip(gl, exp):
        if not abs(x - float(e)) <= 1e-12 + 1e-9 * abs(float(e)):
            raise Violation(sig, f"{desc}: returned {gl}, expected {[float(z) for z in exp]}")


_XMAP = {}


def xmap_for(n, d, unique):
    """The library's cross map, checked once against the definition (all parent tuples)."""
    key = (n, d, unique)
    if key not in _XMAP:
        if unique and d > n:
            _XMAP[key] = None
        else:
            xm = OptimalHaploidValueSubsetSelectionProblem._calc_xmap(n, d, unique)
            exp = list(itertools.combinations(range(n), d)) if unique else list(itertools.combinations_with_replacement(range(n), d))
            got = [tuple(r) for r in xm.tolist()]
            if sorted(got) != sorted(exp):
                raise Violation("OptimalHaploidValueSelectionProblem._calc_xmap:rows",
                                f"ntaxa {n} nparent {d} unique_parents {unique}: rows {got}, expected the parent tuples {exp}")
            _XMAP[key] = xm
    return _XMAP[key]


OPV = "OptimalPopulationValueSubsetSelectionProblem"
GB = "GenotypeBuilderSubsetSelectionProblem"
OHVS = "OptimalHaploidValueSubsetSelectionProblem"


def v_one(ctx, n, b, h, hn):
    """All observations on one block-value array."""
    T = 2
    # --- OHV: every parent tuple, every chunk size
    for d in (1, 2, 3):
        for unique in (True, False):
            xm = xmap_for(n, d, unique)
            if xm is None:
                continue
            exp = [R.best_sum(h, tuple(r), 2) for r in xm.tolist()]
            for mem in (None, 1, 2, 1024):
                with POISON:
                    got = OptimalHaploidValueSubsetSelectionProblem._calc_ohvmat(2, hn, xm, mem)
                ctx.transitions += 1
                desc = f"block values (m,n,b,t) {hn.tolist()} xmap {xm.tolist()} mem {mem}"
                if not (isinstance(got, numpy.ndarray) and got.shape == (len(exp), T)):
                    raise Violation("OptimalHaploidValueSelectionProblem._calc_ohvmat:shape", f"{desc}: shape {getattr(got, 'shape', None)}")
                for r in range(len(exp)):
                    _vec_check("OptimalHaploidValueSelectionProblem._calc_ohvmat:value", got[r], exp[r],
                               desc + f" cross {xm[r].tolist()} (ploidy x sum over blocks of the best value over phases and designated parents)")
    # --- OPV / GB latentfn: every ordered selection of distinct taxa
    opv = OptimalPopulationValueSubsetSelectionProblem(haplomat=hn.copy(), ndecn=n, decn_space=numpy.arange(n), decn_space_lower=0,
                                                       decn_space_upper=n - 1, nobj=T)
    gbs = [GenotypeBuilderSubsetSelectionProblem(haplomat=hn.copy(), nbestfndr=nbf, ndecn=n, decn_space=numpy.arange(n),
                                                 decn_space_lower=0, decn_space_upper=n - 1, nobj=T) for nbf in range(1, n + 1)]
    for k in range(1, n + 1):
        for x in itertools.permutations(range(n), k):
            xa = numpy.array(x, dtype="int64")
            exp = [-v for v in R.best_sum(h, x, 2)]
            with POISON:
                got = opv.latentfn(xa)
            ctx.transitions += 1
            _vec_check(OPV + ".latentfn:value", got, exp, f"block values {hn.tolist()} selection {list(x)}")
            for nbf in range(1, k + 1):
                expg = [-v for v in R.gb_value(h, x, nbf, 2)]
                with POISON:
                    gotg = gbs[nbf - 1].latentfn(xa)
                ctx.transitions += 1
                _vec_check(GB + ".latentfn:value", gotg, expg, f"block values {hn.tolist()} selection {list(x)} nbestfndr {nbf}")
    return True


# ---- set-then-query histories on ONE problem object --------------------------------------------
def _obs(ctx, prob, xs, data_attr, cname):
    """Observable behaviour of a problem: latentfn on every x of xs and evalfn on the last; the problem's data array
    and the decision vectors must come back untouched."""
    data0 = getattr(prob, data_attr).copy()
    out = []
    for x in xs:
        x0 = x.copy()
        with POISON:
            r = prob.latentfn(x)
        ctx.transitions += 1
        if not numpy.array_equal(x, x0):
            raise Violation(cname + ":history:argument-mutated", f"latentfn changed its decision vector {x0.tolist()} into {x.tolist()}")
        out.append(numpy.asarray(r, dtype="float64").tolist())
    with POISON:
        ev = prob.evalfn(xs[-1])
    ctx.transitions += 1
    out.append([numpy.asarray(z, dtype="float64").tolist() for z in ev])
    if not numpy.array_equal(getattr(prob, data_attr), data0, equal_nan=True):
        raise Violation(cname + ":history:data-mutated-by-evaluation",
                        f"evaluating the problem changed its {data_attr}: {data0.tolist()} -> {getattr(prob, data_attr).tolist()}")
    return out


def _same_obs(a, b):
    fa = numpy.array([v for r in a[:-1] for v in r] + [v for z in a[-1] for v in z], dtype="float64")
    fb = numpy.array([v for r in b[:-1] for v in r] + [v for z in b[-1] for v in z], dtype="float64")
    return fa.shape == fb.shape and bool(numpy.allclose(fa, fb, rtol=1e-12, atol=1e-12, equal_nan=True))


def _history(ctx, cname, data_attr, build, state0, steps, xs_of):
    """build(state) -> fresh problem.  steps = [(label, mutate(prob), new_state)].  After every step the mutated object must
    behave exactly like a FRESH problem built from the new state; evaluating twice must give the same answers."""
    prob = build(state0)
    xs = xs_of(state0)
    o1 = _obs(ctx, prob, xs, data_attr, cname)
    o1b = _obs(ctx, prob, xs, data_attr, cname)
    if not _same_obs(o1, o1b):
        raise Violation(cname + ":history:evaluate-twice", f"{cname}: first evaluation {o1}, second evaluation of the same object {o1b}")
    of0 = _obs(ctx, build(state0), xs, data_attr, cname)
    if not _same_obs(o1, of0):
        raise Violation(cname + ":history:evaluate-twice", f"{cname}: two problems built from the same data differ: {o1} vs {of0}")
    for label, mutate, st in steps:
        mutate(prob)
        xs = xs_of(st)
        got = _obs(ctx, prob, xs, data_attr, cname)
        want = _obs(ctx, build(st), xs, data_attr, cname)
        if not _same_obs(got, want):
            raise Violation(cname + ":history:stale-after:" + label,
                            f"{cname}: built, evaluated, then {label} (set-X: `prob.X = new`; inplace-X: `prob.X[...] = new`), evaluated again: latentfn/evalfn "
                            f"give {got} but a fresh problem built with the new data gives {want} (x = {[x.tolist() for x in xs]})")
        got2 = _obs(ctx, prob, xs, data_attr, cname)
        if not _same_obs(got, got2):
            raise Violation(cname + ":history:evaluate-twice", f"{cname} after `{label}`: {got} then {got2}")
    return True


def v_hist(ctx, n, b, hn, hn2, thin):
    """Histories for OPV, GenotypeBuilder and OHV (subset; the other encodings on a fixed slice)."""
    T = 2
    kw = dict(ndecn=n, decn_space=numpy.arange(n), decn_space_lower=0, decn_space_upper=n - 1, nobj=T)
    wt2 = numpy.array([-1.0, 2.0])
    xs_taxa = [numpy.array(x, dtype="int64") for x in ([0], [n - 1, 0], list(range(n)))]
    parts = []

    # ---- OPV: state = (haplomat, obj_wt)
    def b_opv(st):
        return OptimalPopulationValueSubsetSelectionProblem(haplomat=st[0].copy(), obj_wt=st[1], **kw)
    parts.append(lambda: _history(ctx, OPV, "haplomat", b_opv, (hn, None), [
        ("set-haplomat", lambda p: setattr(p, "haplomat", hn2.copy()), (hn2, None)),
        ("inplace-haplomat", lambda p: p.haplomat.__setitem__(Ellipsis, hn), (hn, None)),
        ("set-obj_wt", lambda p: setattr(p, "obj_wt", wt2.copy()), (hn, wt2)),
        ("set-haplomat", lambda p: setattr(p, "haplomat", hn2.copy()), (hn2, wt2)),
    ], lambda st: xs_taxa))

    # ---- GenotypeBuilder: state = (haplomat, nbestfndr)
    def b_gb(st):
        return GenotypeBuilderSubsetSelectionProblem(haplomat=st[0].copy(), nbestfndr=st[1], **kw)
    xs_gb = [numpy.array(x, dtype="int64") for x in ([n - 1, 0], list(range(n)))]
    parts.append(lambda: _history(ctx, GB, "haplomat", b_gb, (hn, 1), [
        ("set-haplomat", lambda p: setattr(p, "haplomat", hn2.copy()), (hn2, 1)),
        ("set-nbestfndr", lambda p: setattr(p, "nbestfndr", 2), (hn2, 2)),
        ("inplace-haplomat", lambda p: p.haplomat.__setitem__(Ellipsis, hn), (hn, 2)),
    ], lambda st: xs_gb))

    # ---- OHV: state = (ohvmat, xmap)
    xm = xmap_for(n, 2, False)
    nx = len(xm)
    om1 = OptimalHaploidValueSubsetSelectionProblem._calc_ohvmat(2, hn, xm, None)
    om2 = OptimalHaploidValueSubsetSelectionProblem._calc_ohvmat(2, hn2, xm, None)
    xs_sub = [numpy.array(x, dtype="int64") for x in ([0], [nx - 1, 0], list(range(nx)))]

    def b_ohv(st):
        return OptimalHaploidValueSubsetSelectionProblem(ohvmat=st[0].copy(), ndecn=2, decn_space=numpy.arange(nx), decn_space_lower=0,
                                                         decn_space_upper=nx - 1, decn_space_xmap=st[1].copy(), nobj=T)
    parts.append(lambda: _history(ctx, OHVS, "ohvmat", b_ohv, (om1, xm), [
        ("set-ohvmat", lambda p: setattr(p, "ohvmat", om2.copy()), (om2, xm)),
        ("set-decn_space_xmap", lambda p: setattr(p, "decn_space_xmap", xm[::-1].copy()), (om2, xm[::-1])),
        ("inplace-ohvmat", lambda p: p.ohvmat.__setitem__(Ellipsis, om1), (om1, xm[::-1])),
    ], lambda st: xs_sub))

    if thin:
        for cls, dt in ((OptimalHaploidValueRealSelectionProblem, "float64"), (OptimalHaploidValueIntegerSelectionProblem, "int64"),
                        (OptimalHaploidValueBinarySelectionProblem, "int64")):
            def b_enc(st, cls=cls, dt=dt):
                lower = numpy.zeros(nx, dtype=dt)
                upper = numpy.ones(nx, dtype=dt)
                return cls(ohvmat=st[0].copy(), ndecn=nx, decn_space=numpy.stack([lower, upper]), decn_space_lower=lower,
                           decn_space_upper=upper, decn_space_xmap=st[1].copy(), nobj=T)
            xs_enc = [numpy.array([1] + [0] * (nx - 1), dtype=dt), numpy.array([1] + [0] * (nx - 2) + [1], dtype=dt)]
            parts.append(lambda b_enc=b_enc, cls=cls, xs_enc=xs_enc: _history(ctx, cls.__name__, "ohvmat", b_enc, (om1, xm), [
                ("set-ohvmat", lambda p: setattr(p, "ohvmat", om2.copy()), (om2, xm)),
                ("inplace-ohvmat", lambda p: p.ohvmat.__setitem__(Ellipsis, om1), (om1, xm)),
            ], lambda st: xs_enc))
    return parts


def v_numpy(h):
    return numpy.array([[[[float(x) for x in blk] for blk in tx] for tx in ph] for ph in h], dtype="float64")


def run_V(spec, ctx):
    _, name, a, b_ = spec
    n, b, vals, tot, _ = v_space(name, ctx.seed)
    ctx.flag(f"V:{name}")
    for idx in range(a, b_):
        h = v_array(n, b, vals, idx)
        hn = v_numpy(h)
        case = dict(layer="V", name=name, idx=idx, seed=ctx.seed)
        ctx.evaluations += 1
        sid = b"V" + name.encode() + idx.to_bytes(4, "big")
        ctx.states.add(sid)
        flat = [x[0] for ph in h for tx in ph for x in tx]
        if len(set(flat)) > 1:
            ctx.nontrivial.add(sid)
        ok, _ = guard_case(ctx, lambda: v_one(ctx, n, b, h, hn), case, "V:")
        # set-then-query histories: this array as the old data, a partner array as the new data
        idx2 = (idx * 5 + 7) % tot
        if idx2 == idx:
            idx2 = (idx + 1) % tot
        hn2 = v_numpy(v_array(n, b, vals, idx2))
        for part in v_hist(ctx, n, b, hn, hn2, idx % 8 == 0):
            okh, _ = guard_case(ctx, part, dict(case, layer="VH", idx2=idx2), "VH:")
            ok = ok and okh
            ctx.count("V:histories")
        if ok:
            ctx.traces += 1
            ctx.outcome(("V", name, tuple(R.best_sum(h, tuple(range(n)), 2))))
        if idx % 997 == 0:
            ctx.sample(dict(layer="V", block_values=hn[..., 0].tolist(), opv_all_taxa=[float(x) for x in R.best_sum(h, tuple(range(n)), 2)]))


# ---------------------------------------------------------------------------- layer L
def l_effects(p, seed, tier="thorough"):
    eff = EFF[seed % 3]
    if p <= 2:
        vecs = list(itertools.product(eff, repeat=p))
    else:
        vecs = [tuple(eff[(j + s) % 4] for j in range(p)) for s in range(4)]
        if p == 4 or tier == "quick":
            vecs = vecs[:3]
    out = []
    for i, v in enumerate(vecs):
        w = vecs[(i + 1) % len(vecs)][::-1]
        out.append([[Q(v[j]), Q(w[j])] for j in range(p)])
    return out


def l_genotypes(p, seed, tier="thorough"):
    """Genotype family (2 phases x 3 taxa x p markers, 0/1): haplotype (0,0)=a and (1,1)=b range over patterns,
    the other four copies are fixed functions of them (complement, rotation, zero, alternating)."""
    pats = list(itertools.product((0, 1), repeat=p))
    A = pats
    B = pats if p <= 2 or (p == 3 and tier == "thorough") else [pats[i] for i in ((1, 6) if p == 3 else (0, 5, 10, 15))]
    out = []
    for a in A:
        for b in B:
            comp = tuple(1 - x for x in a)
            rot = b[1:] + b[:1]
            alt = tuple((j + seed) % 2 for j in range(p))
            out.append([[list(a), list(rot), [0] * p], [list(comp), list(b), list(alt)]])
    return out


def l_parts(ctx, lo, total, labels, rn, G, u, pg, gp, variant, slice0):
    """The pipeline on one (layout, total, genotype, effects): a list of callables, one per problem family,
    so that a finding in one family does not hide the others."""
    n, T = 3, 2
    pre = R.prefix_sums(G, u)
    h = R.block_values(pre, rn)
    tv = R.total_values(pre)
    short = len(rn) < total
    desc = (f"positions {[lo.genpos[x:y].tolist() for x, y in zip(lo.st, lo.sp)]} nhaploblk {total} (library partition {labels}) "
            f"genotypes {G} effects {[[float(x) for x in r] for r in u]}")
    unique = bool(variant % 2)
    d = 2
    xm = xmap_for(n, d, unique)
    nx = len(xm)
    exp_rows = [R.best_sum(h, tuple(par), 2) for par in xm.tolist()]

    def unwritten(site, arr, what):
        if short and not numpy.isfinite(arr).all():
            raise Violation(site + ":unwritten-block-columns",
                            f"{desc}: {what} is {arr.tolist()} — the partition has only {len(rn)} block(s) although {total} block columns are "
                            f"allocated with numpy.empty and the remaining columns are never written (observed through the problem pipeline, "
                            f"memory poisoned with NaN)")

    def part_ohv():
        with POISON:
            prob = OptimalHaploidValueSubsetSelectionProblem.from_pgmat_gpmod(
                nparent=d, nhaploblk=total, unique_parents=unique, pgmat=pg, gpmod=gp, ndecn=2, decn_space=numpy.arange(nx),
                decn_space_lower=0, decn_space_upper=nx - 1, nobj=T)
        ctx.transitions += 1
        om = prob.ohvmat
        unwritten(SITES[1], om, "ohvmat")
        if [tuple(r) for r in prob.decn_space_xmap.tolist()] != [tuple(r) for r in xm.tolist()]:
            raise Violation(OHVS + ".from_pgmat_gpmod:xmap", f"{desc}: decn_space_xmap {prob.decn_space_xmap.tolist()} expected {xm.tolist()}")
        if om.shape != (nx, T):
            raise Violation(OHVS + ".from_pgmat_gpmod:shape", f"{desc}: ohvmat shape {om.shape}")
        for r, par in enumerate(xm.tolist()):
            e = exp_rows[r]
            _vec_check(OHVS + ".from_pgmat_gpmod:ohv-value", om[r], e, desc + f" cross {par}")
            # every doubled haploid recombining only at block boundaries, valued marker by marker from the genotypes
            best = [None] * T
            for pick, val in R.dh_values(G, u, rn, par, 2):
                for t in range(T):
                    if float(om[r, t]) < float(val[t]) - 1e-12 * max(1.0, abs(float(val[t]))):
                        raise Violation(OHVS + ".from_pgmat_gpmod:dh-bound",
                                        f"{desc} cross {par} trait {t}: OHV {om[r, t]} is below the value {float(val[t])} of the doubled "
                                        f"haploid taking its blocks from (phase, taxon) {list(pick)}")
                    best[t] = val[t] if best[t] is None or val[t] > best[t] else best[t]
            assert best == e, "reference inconsistency: max over doubled haploids != block formula"
        for x in ([0], [nx - 1, 0], list(range(nx))):
            e = [-sum(exp_rows[i][t] for i in x) / len(x) for t in range(T)]
            got = prob.latentfn(numpy.array(x, dtype="int64"))
            ctx.transitions += 1
            _vec_check(OHVS + ".latentfn:value", got, e, desc + f" selected crosses {x}")

    def part_opv():
        with POISON:
            opv = OptimalPopulationValueSubsetSelectionProblem.from_pgmat_gpmod(
                nhaploblk=total, pgmat=pg, gpmod=gp, ndecn=2, decn_space=numpy.arange(n), decn_space_lower=0, decn_space_upper=n - 1, nobj=T)
        ctx.transitions += 1
        check_hmat(SITES[2], opv.haplomat, (2, n, total, T), h, tv, desc)
        for k in range(1, n + 1):
            for x in itertools.combinations(range(n), k):
                got = opv.latentfn(numpy.array(x, dtype="int64"))
                ctx.transitions += 1
                _vec_check(OPV + ".latentfn:value", got, [-v for v in R.best_sum(h, x, 2)], desc + f" selection {list(x)}")

    def part_gb():
        nbf = 1 + variant % 2
        with POISON:
            gb = GenotypeBuilderSubsetSelectionProblem.from_pgmat_gpmod(
                pgmat=pg, gpmod=gp, nhaploblk=total, nbestfndr=nbf, ndecn=2, decn_space=numpy.arange(n), decn_space_lower=0,
                decn_space_upper=n - 1, nobj=T)
        ctx.transitions += 1
        check_hmat(SITES[3], gb.haplomat, (2, n, total, T), h, tv, desc)
        for x in ((0, 1), (2, 0), (0, 1, 2)):
            got = gb.latentfn(numpy.array(x, dtype="int64"))
            ctx.transitions += 1
            _vec_check(GB + ".latentfn:value", got, [-v for v in R.gb_value(h, x, nbf, 2)], desc + f" selection {list(x)} nbestfndr {nbf}")

    def make_part_enc(cls, dt):
        # the other OHV encodings (fixed slice: first genotype / effects of every (layout,total))
        def part_enc():
            lower = numpy.zeros(nx, dtype=dt)
            upper = numpy.ones(nx, dtype=dt)
            ctx.flag("L:" + cls.__name__)
            with POISON:
                pr = cls.from_pgmat_gpmod(nparent=d, nhaploblk=total, unique_parents=unique, pgmat=pg, gpmod=gp, ndecn=nx,
                                          decn_space=numpy.stack([lower, upper]), decn_space_lower=lower, decn_space_upper=upper, nobj=T)
            ctx.transitions += 1
            unwritten(SITES[1], pr.ohvmat, "ohvmat")
            for r in range(nx):
                _vec_check(cls.__name__ + ".from_pgmat_gpmod:ohv-value", pr.ohvmat[r], exp_rows[r], desc + f" cross {xm[r].tolist()}")
            x = numpy.array([1] + [0] * (nx - 2) + [1], dtype=dt)
            got = pr.latentfn(x)
            ctx.transitions += 1
            _vec_check(cls.__name__ + ".latentfn:value", got, [-(exp_rows[0][t] + exp_rows[nx - 1][t]) / 2 for t in range(T)],
                       desc + f" contributions {x.tolist()}")
        return part_enc

    encs = [make_part_enc(OptimalHaploidValueRealSelectionProblem, "float64"),
            make_part_enc(OptimalHaploidValueIntegerSelectionProblem, "int64"),
            make_part_enc(OptimalHaploidValueBinarySelectionProblem, "int64")]

    def part_protocol():
        # the selection protocols' own problem() construction (anchor OptimalHaploidValueSelection.py and siblings)
        from pybrops.breed.prot.sel.OptimalHaploidValueSelection import OptimalHaploidValueSubsetSelection
        from pybrops.breed.prot.sel.OptimalPopulationValueSelection import OptimalPopulationValueSubsetSelection
        from pybrops.breed.prot.sel.GenotypeBuilderSelection import GenotypeBuilderSubsetSelection
        kw = dict(ncross=1, nparent=d, nmating=1, nprogeny=1, nobj=T)
        ctx.flag("L:protocol.problem()")
        with POISON:
            sel = OptimalHaploidValueSubsetSelection(ntrait=T, nhaploblk=total, unique_parents=unique, **kw)
            pr = sel.problem(pgmat=pg, gmat=None, ptdf=None, bvmat=None, gpmod=gp, t_cur=0, t_max=1)
        ctx.transitions += 1
        unwritten(SITES[1], pr.ohvmat, "ohvmat")
        for r in range(nx):
            _vec_check("OptimalHaploidValueSubsetSelection.problem:ohv-value", pr.ohvmat[r], exp_rows[r], desc + f" cross {xm[r].tolist()}")
        with POISON:
            sel = OptimalPopulationValueSubsetSelection(ntrait=T, nhaploblk=total, **kw)
            pr = sel.problem(pgmat=pg, gmat=None, ptdf=None, bvmat=None, gpmod=gp, t_cur=0, t_max=1)
        ctx.transitions += 1
        check_hmat(SITES[2], pr.haplomat, (2, n, total, T), h, tv, desc)
        _vec_check("OptimalPopulationValueSubsetSelection.problem:latentfn-value", pr.latentfn(numpy.array([0, 2], dtype="int64")),
                   [-v for v in R.best_sum(h, (0, 2), 2)], desc + " selection [0, 2]")
        with POISON:
            sel = GenotypeBuilderSubsetSelection(ntrait=T, nhaploblk=total, nbestfndr=1, **kw)
            pr = sel.problem(pgmat=pg, gmat=None, ptdf=None, bvmat=None, gpmod=gp, t_cur=0, t_max=1)
        ctx.transitions += 1
        check_hmat(SITES[3], pr.haplomat, (2, n, total, T), h, tv, desc)

    return [part_ohv, part_opv, part_gb] + (encs + [part_protocol] if slice0 else [])


def l_case(ctx, lo, total, labels, rn, G, u, pg, gp, case):
    gi, ei = case["gi"], case["ei"]
    allok = True
    for part in l_parts(ctx, lo, total, labels, rn, G, u, pg, gp, gi + ei, gi == 0 and ei == 0):
        ok, _ = guard_case(ctx, part, case, "L:")
        allok = allok and ok
    return allok


def run_L(spec, ctx):
    _, lens, a, b = spec
    seed = ctx.seed
    p = sum(lens)
    effs = l_effects(p, seed, ctx.tier)
    genos = l_genotypes(p, seed, ctx.tier)
    ctx.flag(f"L:{lens}")
    gps = []
    for u in effs:
        gps.append(make_gpmod(numpy.array([[float(x) for x in r] for r in u], dtype="float64"), len(gps) % 3))   # 0/1/2 misc rows
    for lay in layouts(lens)[a:b]:
        lo = Layout(lay, seed)
        lid = lay_id(lay)
        pg = make_pgmat(lo, numpy.array(genos[0], dtype="int8"))
        for total in range(lo.c, lo.p + 1):
            nbl, labels, rn = lib_partition(lo, total)
            if labels is None:
                ctx.count("L:skipped-apportionment-exceeds-markers(layout,total)")
                continue
            if any(has_empty_bin(ch, k) for ch, k in zip(lay, nbl)):
                ctx.flag("L:layout-with-an-empty-equal-width-bin")
            for gi, G in enumerate(genos):
                pg.mat = numpy.array(G, dtype="int8")
                for ei, u in enumerate(effs):
                    case = dict(layer="L", lay=[list(ch) for ch in lay], total=total, gi=gi, ei=ei, seed=seed, tier=ctx.tier)
                    ctx.evaluations += 1
                    sid = b"L" + lid + bytes([total, gi, ei])
                    ctx.states.add(sid)
                    if len(rn) > 1:
                        ctx.nontrivial.add(sid)
                    if l_case(ctx, lo, total, labels, rn, G, u, pg, gps[ei], case):
                        ctx.traces += 1
                        if ei == 0:
                            ctx.outcome(("L", tuple(labels), gi))
    if a == 0:
        ctx.sample(dict(layer="L", lens=list(lens), n_genotypes=len(genos), n_effect_matrices=len(effs), first_genotype=genos[min(3, len(genos) - 1)]))


# ---------------------------------------------------------------------------- driver
def run_shard(spec, ctx):
    P, H, V, Lp = _plan(ctx.tier)
    ctx.bounds.update({
        "position_grid": [g * STEP[ctx.seed % 3] for g in range(NGRID)],
        "P_markers_per_chromosome": [list(x) for x in P], "H_markers_per_chromosome": [list(x) for x in H],
        "V_spaces(n taxa, blocks, alphabet size)": [v[0] for v in V], "L_markers_per_chromosome": [list(x) for x in Lp],
        "effects_alphabet": list(EFF[ctx.seed % 3]), "ploidy": 2, "L_taxa": 3, "L_nparent": 2, "V_nparent": [1, 2, 3],
        "V_mem_chunks": ["None", 1, 2, 1024],
    })
    {"P": run_P, "B": run_B, "R": run_R, "H": run_H, "V": run_V, "L": run_L}[spec[0]](spec, ctx)


def finalize(ctx, tier, seed):
    P, H, V, Lp = _plan(tier)
    for lens in P:
        assert f"P:{lens}" in ctx.flags, lens
    for lens in H:
        assert f"H:{lens}" in ctx.flags, lens
    for (name,) in V:
        assert f"V:{name}" in ctx.flags, name
    for lens in Lp:
        assert f"L:{lens}" in ctx.flags, lens
    for f in ("B", "P:zero-length-chromosome-with-several-markers", "L:layout-with-an-empty-equal-width-bin",
              "L:OptimalHaploidValueRealSelectionProblem", "L:OptimalHaploidValueIntegerSelectionProblem",
              "L:OptimalHaploidValueBinarySelectionProblem", "L:protocol.problem()"):
        assert f in ctx.flags, f
    c = ctx.counters
    # the clustered layouts of S8 and boundary ties are in scope (input-side classification, independent of the library)
    assert c.get("P:bin-cases-with-an-empty-equal-width-bin", 0) > 100
    assert c.get("P:bin-cases-with-a-marker-on-an-interior-boundary", 0) > 100
    assert c.get("H:(layout,total)-with-an-empty-equal-width-bin", 0) > 50
    for s_ in ("core.haplomat", "OptimalHaploidValueSelectionProblem", "OptimalPopulationValueSelectionProblem", "GenotypeBuilderSelectionProblem"):
        assert c.get(f"H:calls:{s_}", 0) > 500, s_
    from ..core import load_known, match_known
    known = load_known()
    unknown = [sg for sg in ctx.violations if not match_known(ID, sg, known)]
    assert len(ctx.outcomes) > 200 or unknown, len(ctx.outcomes)    # (observed outcomes depend on the library)
    # exact size of the partition space: nothing silently skipped
    nlay = lambda lens: math.prod(math.comb(L + NGRID - 1, NGRID - 1) for L in lens)
    assert c.get("B:cases", 0) == sum(2 * 3 ** (L - 1) for L in range(1, 7)), c.get("B:cases")
    for q in range(3):
        assert c.get(f"H:layouts-with-{q}-misc-effect-rows", 0) > 100, q
    assert "R" in ctx.flags and c.get("R:cases", 0) == 110 * 3 * 6 * 2, c.get("R:cases")
    assert c.get("R:cases-where-multiplied-bound-rounds-below-the-tip", 0) >= 20, c.get("R:cases-where-multiplied-bound-rounds-below-the-tip")
    assert c.get("V:histories", 0) >= 3 * sum(v_space(name, seed)[3] for (name,) in V), c.get("V:histories")
    assert c.get("P:apportion-cases", 0) == sum(nlay(l) * (sum(l) - len(l) + 1) for l in P), c.get("P:apportion-cases")
    assert c.get("P:bin-cases", 0) == sum(nlay(l) * math.prod(l) for l in P), c.get("P:bin-cases")
    assert sum(v for k, v in c.items() if k.startswith("H:calls:")) + 4 * c.get("H:skipped-apportionment-exceeds-markers(layout,total)", 0) \
        == 4 * sum(nlay(l) * (sum(l) - len(l) + 1) for l in H)


# ---------------------------------------------------------------------------- replay
def replay(case, ctx):
    seed = case.get("seed", ctx.seed)
    ctx.seed = seed
    lay = case["layer"]
    if lay == "P-apportion":
        lo = Layout(tuple(tuple(ch) for ch in case["lay"]), seed)
        ctx.guard(lambda: p_apportion(ctx, lo, case["total"]), case=case, sig_prefix=HAPLO + "nhaploblk_chrom:")
    elif lay == "P-bin":
        lo = Layout(tuple(tuple(ch) for ch in case["lay"]), seed)
        ctx.guard(lambda: p_haplobin(ctx, lo, tuple(case["nhap"]), case), case=case, sig_prefix=HAPLO + "haplobin:")
    elif lay == "R":
        ctx.guard(lambda: r_case(ctx, case), case=case, sig_prefix=HAPLO + "haplobin:")
    elif lay == "B":
        ctx.guard(lambda: p_bounds(ctx, list(case["labels"])), case=case, sig_prefix=HAPLO + "haplobin_bounds:")
    elif lay == "H":
        lt = tuple(tuple(ch) for ch in case["lay"])
        lo = Layout(lt, seed)
        G, u, Gn, un, pre = basis(lo.p, seed)
        pg = make_pgmat(lo, Gn)
        gp = make_gpmod(un, case.get("nmisc", 0))
        nbl, labels, rn = lib_partition(lo, case["total"])
        desc = f"positions {[lo.genpos[x:y].tolist() for x, y in zip(lo.st, lo.sp)]} nhaploblk {case['total']} (library partition {labels})"
        ctx.guard(lambda: _h_one(case["site"], lo, case["total"], Gn, un, pg, gp, R.block_values(pre, rn), R.total_values(pre), desc),
                  case=case, sig_prefix=case["site"] + ":")
    elif lay == "V":
        n, b, vals, tot, _ = v_space(case["name"], seed)
        h = v_array(n, b, vals, case["idx"])
        hn = numpy.array([[[[float(x) for x in blk] for blk in tx] for tx in ph] for ph in h], dtype="float64")
        ctx.guard(lambda: v_one(ctx, n, b, h, hn), case=case, sig_prefix="V:")
    elif lay == "VH":
        n, b, vals, tot, _ = v_space(case["name"], seed)
        hn = v_numpy(v_array(n, b, vals, case["idx"]))
        hn2 = v_numpy(v_array(n, b, vals, case["idx2"]))
        for part in v_hist(ctx, n, b, hn, hn2, case["idx"] % 8 == 0):
            ctx.guard(part, case=case, sig_prefix="VH:")
    elif lay == "L":
        lt = tuple(tuple(ch) for ch in case["lay"])
        lo = Layout(lt, seed)
        effs = l_effects(lo.p, seed, case.get("tier", ctx.tier))
        genos = l_genotypes(lo.p, seed, case.get("tier", ctx.tier))
        G, u = genos[case["gi"]], effs[case["ei"]]
        pg = make_pgmat(lo, numpy.array(G, dtype="int8"))
        gp = make_gpmod(numpy.array([[float(x) for x in r] for r in u], dtype="float64"), case["ei"] % 3)
        nbl, labels, rn = lib_partition(lo, case["total"])
        l_case(ctx, lo, case["total"], labels, rn, G, u, pg, gp, case)
    else:
        raise ValueError(lay)
