"""C08 — seeded runs are reproducible and explicit generators are isolated.

Explicit-state BFS over *programs* (sequences of stochastic API calls on fixed tiny fixtures).  The explored state is
the pair (python `random` state, numpy global RandomState state).  Every transition is executed twice — live from the
restored state of its parent node and by replaying the whole program from `seed(s)` — and then once more behind every
*pollution prefix* Q (`Q; seed(s); P` must equal `seed(s); P` bit for bit: state right after seeding, every output,
generator state after every call).  All sources of fresh entropy and the clock are owned by the harness (mc/ref/
entropy.py): a request for OS entropy inside a seeded program is answered deterministically and the program is re-run
under other entropy / clock variants — if the outputs move, the dependence is reported with the requesting call site.
Isolation half: every component that accepts `rng` (found by introspection) is called with the caller's own
Generator / RandomState under different global states; the result and the generator's final state must be identical and
both global streams untouched; an advance of a global stream is attributed to the responsible pybrops frame.
"""
from __future__ import annotations
import random

import numpy

from .. import compat  # noqa: F401
from ..core import Violation, digest
from ..ref import entropy as E
from ..ref import stochcalls as S

ID = "C08"
TECHNIQUE = ("explicit-state BFS over programs of stochastic API calls (state = python random state x numpy global "
             "state; every transition live-from-restored-state vs replay-from-seed) x all pollution prefixes x seeds, "
             "with harness-owned entropy/clock variants (tripwires) and an introspected isolation sweep over every "
             "component accepting rng")
RULE = ("one execution = [pollution prefix Q;] seed(s); program P on fresh fixtures, outputs and the generator-state "
        "pair after seeding and after every call serialised bit-exactly; programs = all sequences over the call "
        "alphabet: quick: length <= 2 over the 16 core calls for each of 4 seeds; thorough: additionally length 3 over "
        "the core calls for 2 of the seeds (0 and the 64-bit one) and, over all 46 calls, length 1 for 4 seeds and "
        "length 2 for 2 seeds (1 and 2^32-1); each program compared with its reference under every pollution prefix "
        "(length <= 2: every core call + 12 direct manipulations of the two streams; length 3: the program's own "
        "calls + the 12; all-calls family: 4 representative calls + own + the 12), in a second identical run, live from "
        "the restored parent state, repeated after re-seeding on the SAME fixtures and objects (argument arrays and "
        "configurations in the exact / multiple / ragged tiling cases), with every input array and array attribute "
        "of the fixture objects required untouched after each call, with the objects built before seeding, on copies of those objects taken before "
        "seeding (copy.copy for every object, plus every copy operation the class itself defines: __deepcopy__, "
        "copy(), deepcopy()), and under 2 further entropy / 1 further "
        "clock variants when entropy / the clock was requested; isolation: each discovered rng-accepting component x "
        "{Generator, RandomState} x global states, and for object-based components each copy kind (copy alone; "
        "original and copy interleaved on the one generator); non-trivial = every call of the program advanced a global stream / "
        "the component drew from the explicit generator; distinct by digest of (seed, program)")
ASSUME = ["numpy's and python's generators are deterministic functions of their state (trusted base)",
          "all fresh entropy reaches python through os.urandom / random._urandom / random.seed(None) / "
          "numpy.random.seed(None) (verified for numpy 2.x: SeedSequence(None), PCG64(), RandomState(), default_rng() "
          "end in secrets.randbits -> random._urandom); C-level readers of /dev/urandom other than these are not seen",
          "fake entropy / virtual clock values are values a real OS could return",
          "GA trajectories are enumerated over a finite list of entropy variants, not all",
          "mc/compat.py restores removed numpy names only"]

ENTROPY_VARIANTS = (1, 2)
N_SEEDS = 4


# ----------------------------------------------------------------------------
_DIRTY = {}


def _dirty(v):
    """A deterministic 'dirty interpreter' state every execution starts from (so that an execution never depends on
    what ran before it in the same worker process)."""
    if v not in _DIRTY:
        r = numpy.random.RandomState(1234 + v)
        r.standard_normal(3)
        p = random.Random(4321 + v)
        p.gauss(0.0, 1.0)
        pair = (p.getstate(), r.get_state(legacy=False))
        _DIRTY[v] = (pair, E.pair_parts(pair))
    return _DIRTY[v][0]


def _dirty_parts(v):
    _dirty(v)
    return _DIRTY[v][1]


def _names(tier_names):
    return [c.name for c in S.alphabet() if c.tier in tier_names]


def core_names():
    return _names(("core",))


def all_names():
    return _names(("core", "ext"))


EXT_Q_CORE = ("mate2", "spawn2", "ga_subset", "select_subset")


def q_names(s, prog_names, ext):
    """Pollution prefixes for one program: programs of length <= 2 over the core calls: every core call + the 12
    direct manipulations; core programs of length 3 (thorough): the program's own calls + the direct manipulations;
    all-calls family (thorough, length <= 2): 4 representative core calls + own calls + the direct manipulations."""
    own = [("call:" + n) for n in dict.fromkeys(prog_names)]
    if ext:
        qs = [("call:" + n) for n in EXT_Q_CORE]
        qs += [q for q in own if q not in qs]
    elif len(prog_names) >= 3:
        qs = own
    else:
        qs = [("call:" + n) for n in core_names()]
    qs += [n for n, _ in S.direct_pollutions(s)]
    return qs


class Exec:
    __slots__ = ("after_seed", "outs", "states", "pairs", "counters", "records", "clock_sites", "pre_seed", "rec_at",
                 "seed_records", "mutated", "round2")


def execute(prog, s, v, Q=None, mode="fresh", entropy=0, clock=0, start=None):
    """Run [Q;] seed(s); prog  (or, with start=(pair, n_entropy, n_clock), only the last call of prog live from that
    restored state).  Returns an Exec with bit-exact digests."""
    from pybrops.core.random import prng
    calls = [S.call_by_name(n) for n in prog]
    ex = Exec()
    with E.ENV.run(entropy, clock) as env:
        E.set_pair(_dirty(v))
        if Q is not None:
            if Q.startswith("call:"):
                qc = S.call_by_name(Q[5:])
                qfx = S.Fx(v)
                qc.use(qfx, qc.make(qfx))
            else:
                dict(S.direct_pollutions(s))[Q]()
        ex.pre_seed = E.pair_parts(E.get_pair())
        fx = S.Fx(v)
        if mode.startswith("copy:"):
            # the object is built before seeding and the program then runs on a COPY of it taken before seeding
            objs = []
            for c in calls:
                o = c.make(fx) if c.persistent else None
                if o is not None and mode[5:] in S.copy_kinds(o):
                    o = S.do_copy(o, mode[5:])
                objs.append(o)
        else:
            objs = [c.make(fx) if (mode == "persistent" and c.persistent) else None for c in calls]
        env.start_recording()
        if start is None:
            prng.seed(s)
            todo = list(zip(calls, objs))
        else:
            E.set_pair(start[0])
            env._n_entropy, env._n_clock = start[1], start[2]
            todo = [(calls[-1], objs[-1])]
        ex.after_seed = E.pair_parts(E.get_pair())
        ex.seed_records = list(env.records)           # entropy requested by seed() itself
        ex.outs, ex.states, ex.pairs, ex.counters, ex.rec_at, ex.mutated = [], [], [], [], [], []
        ex.round2 = None
        kept = []
        seen_bad = set()
        for c, o in todo:
            n0 = len(env.records)
            if mode == "repeat":
                out, k = c.round1(fx)
                kept.append(k)
            else:
                if o is None:
                    o = c.make(fx)
                if o is not None:
                    fx.own(type(o).__name__, o)          # its array attributes are inputs of the call, too
                out = c.use(fx, o)
            ex.outs.append(E.dig(E.ser(out)))
            pair = E.get_pair()
            ex.pairs.append(pair)
            ex.states.append(E.pair_parts(pair))
            ex.counters.append((env._n_entropy, env._n_clock))
            ex.rec_at.append(list(env.records[n0:]))
            bad = [b for b in fx.verify() if b not in seen_bad]       # inputs-untouched oracle
            seen_bad.update(bad)
            ex.mutated.append(bad)
        if mode == "repeat":
            # the same stochastic calls once more after re-seeding, on the SAME fixtures (argument arrays, genomes,
            # problems) and the same objects
            env.reset_counters()
            prng.seed(s)
            outs2, states2 = [], []
            for c, k in zip(calls, kept):
                outs2.append(E.dig(E.ser(c.round2(fx, k))))
                states2.append(E.pair_parts(E.get_pair()))
            ex.round2 = (E.pair_parts(E.get_pair()) if not calls else None, outs2, states2)
        env.stop_recording()
        ex.records = list(env.records)
        ex.clock_sites = sorted(env.clock_sites)
    return ex


def _first_diff(a, b):
    for i, (x, y) in enumerate(zip(a, b)):
        if x != y:
            return i
    return None


# ----------------------------------------------------------------------------
def check_node(ctx, s, prog, v, ext=False, parent=None):
    """All executions and comparisons for one BFS node (= one program).  Returns the node's reference Exec."""
    calls = [S.call_by_name(n) for n in prog]
    last = calls[-1]
    base = dict(kind="prog", seed=s, prog=list(prog), v=v, ext=ext)
    box = {}

    def ref_run():
        box["ref"] = execute(prog, s, v)
    ctx.evaluations += 1
    ctx.transitions += len(prog)
    if not ctx.guard(ref_run, case=dict(base, step="reference"), sig_prefix=f"{last.site}:"):
        return None
    ref = box["ref"]
    key = digest((s, tuple(prog)))
    ctx.state(digest(ref.states[-1]))
    ctx.outcome(digest((ref.outs, ref.states[-1])))
    drew = True
    prev = ref.after_seed
    for i, (c, st) in enumerate(zip(calls, ref.states)):
        if st != prev:
            ctx.flag("drew:" + c.name)
        elif ref.rec_at[i]:
            ctx.flag("drew:" + c.name)       # draws only from a generator it builds from (harness-owned) OS entropy
            ctx.flag("entropy-only:" + c.name)
        else:
            drew = False
        prev = st
    if drew:
        ctx.nontriv(key)
    ctx.count("program-len-%d" % len(prog))
    for c in calls:
        ctx.count("letter:" + c.name)
    if ctx.evaluations % 997 == 1:
        ctx.sample(dict(base, outputs=ref.outs, entropy_requests=[E.entropy_sig(r) for r in ref.records][:3]))

    def agree(name, fn, step):
        ok = ctx.guard(fn, case=dict(base, step=step), sig_prefix=f"{last.site}:")
        if ok:
            ctx.traces += 1
        return ok

    # (0) every stochastic call leaves its inputs untouched (argument arrays, array attributes of fixture objects)
    for c, bad in zip(calls, ref.mutated):
        for b in bad:
            ctx.violation(f"{c.site}:input-mutated:{b}",
                          f"{c.name} (program {list(prog)}, seed {s}) changed its input {b} in place", dict(base, step="inputs"))

    # (1) second reference run: the reference itself must be reproducible in this process -------------------
    def again():
        r2 = execute(prog, s, v)
        _compare(ref, r2, calls, "a second identical run in the same process", None, kind="same-seed-rerun-differs")
    ctx.evaluations += 1
    ctx.transitions += len(prog)
    if not agree("again", again, "rerun"):
        return ref          # not even repeatable in this process: every further comparison would restate that


    # (2) live from the restored parent state vs replay from the seed --------------------------------------
    if parent is not None:
        def live():
            lv = execute(prog, s, v, start=parent)
            if lv.outs[-1] != ref.outs[-1] or lv.states[-1] != ref.states[-1]:
                raise Violation(f"{last.site}:restored-state-vs-replay-mismatch",
                                f"{last.name} run from the restored (python, numpy) state of program {list(prog[:-1])} gives "
                                f"{'another output' if lv.outs[-1] != ref.outs[-1] else 'another successor state'} than "
                                f"replaying seed({s}); {list(prog)}: state outside the generator pair influences the call")
        ctx.evaluations += 1
        ctx.transitions += 1
        agree("live", live, "live")

    # (3) pollution prefixes ------------------------------------------------------------------------------------
    for q in q_names(s, prog, ext):
        def polluted(q=q):
            r = execute(prog, s, v, Q=q)
            if r.pre_seed != _dirty_parts(v):
                ctx.flag("Q-changed-state:" + q)
            _compare(ref, r, calls, f"pollution prefix {q!r}", q)
        ctx.evaluations += 1
        ctx.transitions += len(prog) + 1
        ctx.count("Q:" + q)
        agree(q, polluted, "pollution:" + q)

    # (4) objects built before the re-seeding ---------------------------------------------------------------
    if any(c.persistent for c in calls):
        def persistent():
            r = execute(prog, s, v, Q=q_names(s, prog, ext)[0], mode="persistent")
            _compare(ref, r, calls, "protocol objects constructed before seed()", None, kind="object-built-before-seeding-differs")
        ctx.evaluations += 1
        ctx.transitions += len(prog) + 1
        ctx.count("persistent-mode")
        agree("persistent", persistent, "persistent")

    # (4a) the same calls repeated after re-seeding on the SAME fixtures and objects -----------------------------
    def repeated():
        r = execute(prog, s, v, mode="repeat")
        _compare(ref, r, calls, "round 1 of the repeat run", None)
        _, outs2, states2 = r.round2
        k = _first_diff(list(zip(r.outs, r.states)), list(zip(outs2, states2)))
        if k is not None:
            what = "output" if r.outs[k] != outs2[k] else "generator state after the call"
            raise Violation(f"{calls[k].site}:repeat-on-same-object-after-reseeding-differs",
                            f"seed({s}); {list(prog)} executed twice on the same fixtures/objects: {what} of call #{k} "
                            f"({calls[k].name}) differs between the two seeded rounds (state leaked into the object or "
                            f"its argument arrays)")
    ctx.evaluations += 1
    ctx.transitions += 2 * len(prog)
    ctx.count("repeat-mode")
    agree("repeat", repeated, "repeat")

    # (4b) copies of the stochastic objects, taken before the re-seeding -----------------------------------------
    kinds = []
    for c in calls:
        for kd in letter_copy_kinds(c.name, v):
            if kd not in kinds:
                kinds.append(kd)
    for kd in kinds:
        def copied(kd=kd):
            r = execute(prog, s, v, Q=q_names(s, prog, ext)[0], mode="copy:" + kd)
            _compare(ref, r, calls, f"the program ran on {kd} copies (taken before seed()) of its protocol objects", None,
                     kind="copy-taken-before-seeding-differs:" + kd)
        ctx.evaluations += 1
        ctx.transitions += len(prog) + 1
        ctx.count("copy-mode:" + kd)
        agree("copy:" + kd, copied, "copy:" + kd)

    # (5) entropy variants ----------------------------------------------------------------------------------
    if ref.records:
        ctx.count("programs-requesting-os-entropy")

        def entropy_variants():
            moved = None
            for ev in ENTROPY_VARIANTS:
                r = execute(prog, s, v, entropy=ev)
                if r.after_seed != ref.after_seed:
                    k = -1
                else:
                    k = _first_diff(list(zip(ref.outs, ref.states)), list(zip(r.outs, r.states)))
                if k is not None:
                    moved = k if moved is None else min(moved, k)
            if moved is None:
                ctx.count("os-entropy-requested-but-output-unaffected")
                return
            recs = list(ref.seed_records) + [r for i in range(moved + 1) for r in ref.rec_at[i]]
            what = "the generator state right after seed()" if moved < 0 else f"the output of {calls[moved].name}"
            seen = set()
            for rec in recs:
                sig = E.entropy_sig(rec)
                if sig in seen:
                    continue
                seen.add(sig)
                ctx.violation(sig, f"after seed({s}) {what} (program {list(prog)}) changes with the "
                                   f"operating system's entropy: {rec['api']} is requested by {rec['requester']} under "
                                   f"{rec['site']}; stack {rec['stack'][:6]}", dict(base, step="entropy"))
        ctx.evaluations += len(ENTROPY_VARIANTS)
        ctx.transitions += len(ENTROPY_VARIANTS) * len(prog)
        agree("entropy", entropy_variants, "entropy")

    # (6) clock variant ---------------------------------------------------------------------------------------
    if ref.clock_sites:
        def clock_variant():
            r = execute(prog, s, v, clock=1)
            if r.after_seed != ref.after_seed:
                raise Violation("prng.seed:state-after-seeding-depends-on-clock",
                                f"the generator state right after seed({s}) changes when the wall clock is shifted; "
                                f"clock read under {ref.clock_sites}")
            k = _first_diff(list(zip(ref.outs, ref.states)), list(zip(r.outs, r.states)))
            if k is not None:
                raise Violation(f"{calls[k].site}:output-depends-on-clock",
                                f"after seed({s}) the output of {calls[k].name} (program {list(prog)}) changes when the wall "
                                f"clock is shifted; clock read under {ref.clock_sites}")
        ctx.evaluations += 1
        ctx.transitions += len(prog)
        ctx.count("clock-variant-runs")
        agree("clock", clock_variant, "clock")
    return ref


_LETTER_KINDS = {}


def letter_copy_kinds(name, v):
    """Copy operations to be exercised for the object behind one letter (none for letters without an object)."""
    if name not in _LETTER_KINDS:
        c = S.call_by_name(name)
        kinds = []
        if c.persistent:
            with E.ENV.run():
                kinds = S.copy_kinds(c.make(S.Fx(v)))
        _LETTER_KINDS[name] = kinds
    return _LETTER_KINDS[name]


def _compare(ref, r, calls, what, q, kind=None):
    if r.after_seed != ref.after_seed:
        which = "python" if r.after_seed[0] != ref.after_seed[0] else "numpy"
        raise Violation(f"prng.seed:state-after-seeding-depends-on-history:{which}",
                        f"the {which} stream's state right after seed() differs after {what}")
    if kind is not None and (kind == "object-built-before-seeding-differs" or kind.startswith("copy-taken")):
        kd = _first_diff(list(zip(ref.outs, ref.states)), list(zip(r.outs, r.states)))
        if kd is not None and not calls[kd].persistent:
            kind = None
    k = _first_diff(ref.outs, r.outs)
    if k is not None:
        raise Violation(f"{calls[k].site}:" + (kind or "output-depends-on-history-before-seeding"),
                        f"output of call #{k} ({calls[k].name}) differs from the reference run after {what}")
    k = _first_diff(ref.states, r.states)
    if k is not None:
        which = "python" if r.states[k][0] != ref.states[k][0] else "numpy"
        raise Violation(f"{calls[k].site}:" + (kind or "generator-state-after-call-depends-on-history"),
                        f"{which} stream state after call #{k} ({calls[k].name}) differs from the reference run after {what}")


# ----------------------------------------------------------------------------
def run_programs(ctx, s_i, first, seconds, L, v, ext=False, with_root=True):
    s = S.seeds(v)[s_i]
    letters = all_names() if ext else core_names()
    is_ext = {c.name: c.tier == "ext" for c in S.alphabet()}

    def node_state(ref):
        return (ref.pairs[-1], ref.counters[-1][0], ref.counters[-1][1])

    root = (first,)
    if with_root and (not ext or is_ext[first]):
        ref1 = check_node(ctx, s, root, v, ext=ext)
    else:
        try:
            ref1 = execute(root, s, v)
        except Exception:
            ref1 = None
    if ref1 is None or L < 2:
        return
    frontier = []
    for c2 in (seconds if seconds is not None else letters):
        if ext and not (is_ext[first] or is_ext[c2]):
            continue          # core x core programs belong to the core family
        r2 = check_node(ctx, s, root + (c2,), v, ext=ext, parent=node_state(ref1))
        if r2 is not None:
            frontier.append((root + (c2,), r2))
    if L < 3:
        return
    for prog, r2 in frontier:
        for c3 in letters:
            check_node(ctx, s, prog + (c3,), v, ext=ext, parent=node_state(r2))


# ----------------------------------------------------------------------------
# isolation half
def _mk_gen(kind, seed):
    if kind == "Generator":
        return numpy.random.Generator(numpy.random.PCG64(seed))
    return numpy.random.RandomState(seed)


def _global_states(v, n):
    """n different (python, numpy) global states, built without any library call (so that they are what they are
    even when the library's seed() is broken); odd ones carry cached gaussians."""
    out = []
    for i in range(n):
        p = random.Random(11 * (i + 1) + v)
        r = numpy.random.RandomState(101 * (i + 1) + v)
        if i % 2 == 1:
            r.standard_normal()
            p.gauss(0.0, 1.0)
            r.random_sample(3)
        out.append((p.getstate(), r.get_state(legacy=False)))
    return out


def iso_run(fn, v, G, kind, gseed, entropy=0, clock=0, blame=False):
    with E.ENV.run(entropy, clock) as env:
        fx = S.Fx(v)
        E.set_pair(G)
        rng = _mk_gen(kind, gseed)
        g0 = E.gen_state(rng)
        before = E.pair_parts(E.get_pair())
        env.start_recording()
        if blame:
            sites = E.blame_global_draws(lambda: fn(fx, rng))
            env.stop_recording()
            return sites
        raised = None
        try:
            out = fn(fx, rng)
            mutated = fx.verify()
        except Exception as e:      # whether this configuration can be driven at all is not C08's question; a call that
            out = ("raised", type(e).__name__)      # raises is compared like any other outcome and flagged as uncovered
            raised = f"{type(e).__name__}: {str(e)[:80]}"
            mutated = []
        env.stop_recording()
        after = E.pair_parts(E.get_pair())
        return dict(out=E.dig(E.ser(out)), gen=E.dig(E.gen_state(rng)), drew=(E.gen_state(rng) != g0), raised=raised, mutated=mutated,
                    py_moved=before[0] != after[0], np_moved=before[1] != after[1],
                    records=list(env.records), clock_sites=sorted(env.clock_sites))


def check_iso(ctx, fullname, v, tier):
    comps, _ = _discovered()
    obj = comps[fullname]
    site, fn = S.recipe(fullname, obj)
    short = fullname.rsplit(".", 1)[1]
    if site is None:
        ctx.flag(f"uncovered:{fullname}:{fn}")
        ctx.count("iso-uncovered")
        return
    if hasattr(fn, "prepare"):
        try:
            with E.ENV.run():
                fn.prepare(S.Fx(v))
        except S.NoRecipe as e:
            ctx.flag(f"uncovered:{fullname}:generic fixture cannot drive it ({e})")
            ctx.count("iso-uncovered")
            return
    ctx.count("iso-covered")
    with E.ENV.run():
        Gs = _global_states(v, 3 if tier == "thorough" else 2)
    gseeds = [S.V_EXPL[v]] + ([S.V_EXPL[v] + 100] if tier == "thorough" else [])
    blamed = {}          # the attribution pass runs once per component
    for kind in ("Generator", "RandomState"):
        for gseed in gseeds:
            case = dict(kind="iso", comp=fullname, gen=kind, gseed=gseed, v=v, tier=tier)

            def body():
                runs = []
                for G in Gs + [Gs[0]]:
                    ctx.evaluations += 1
                    ctx.transitions += 1
                    runs.append(iso_run(fn, v, G, kind, gseed))
                r0 = runs[0]
                if any(r["raised"] for r in runs):
                    ctx.flag(f"iso-run-raised:{short}:{kind}:{next(r['raised'] for r in runs if r['raised'])}")
                    ctx.count("iso-runs-that-raised")
                ctx.state(digest((fullname, kind, gseed, r0["gen"])))
                ctx.outcome(digest((fullname, kind, r0["out"])))
                if r0["drew"]:
                    ctx.flag("iso-drew:" + short)
                    ctx.nontriv(digest((fullname, kind, gseed)))
                else:
                    ctx.flag("iso-explicit-generator-untouched:" + short)
                moved = any(r["py_moved"] or r["np_moved"] for r in runs)
                bad = False
                for b in dict.fromkeys(x for r in runs for x in r["mutated"]):
                    bad = True
                    ctx.violation(f"{site}:input-mutated:{b}", f"{fullname} called with an explicit {kind} changed its "
                                  f"input {b} in place", case)
                if moved:
                    bad = True
                    if "sites" not in blamed:       # union over the global states: GA trajectories differ
                        found = set()
                        for G in Gs:
                            ctx.evaluations += 1
                            found.update(iso_run(fn, v, G, kind, gseed, blame=True))
                        blamed["sites"] = sorted(found)
                    sites = blamed["sites"]
                    if not sites:
                        sites = [("numpy" if any(r["np_moved"] for r in runs) else "python", site)]
                    for stream, where in sites:
                        ctx.violation(f"{where}:explicit-rng:global-{stream}-stream-drawn",
                                      f"{fullname} called with the caller's own {kind}: the global {stream} stream is "
                                      f"advanced in {where} (entry point {site}); global state changed by the call",
                                      case)
                same = all(r["out"] == r0["out"] and r["gen"] == r0["gen"] for r in runs)
                if not same and not moved and not r0["records"]:
                    bad = True
                    last_same = runs[-1]["out"] == r0["out"] and runs[-1]["gen"] == r0["gen"]
                    ctx.violation(f"{site}:explicit-rng:" + ("result-depends-on-global-state" if last_same else "not-reproducible"),
                                  f"{fullname} with an explicit {kind} in the same state gives different results "
                                  f"{'under different global generator states' if last_same else 'in two identical runs'}", case)
                if r0["records"]:
                    movedby = False
                    for ev in ENTROPY_VARIANTS:
                        ctx.evaluations += 1
                        r = iso_run(fn, v, Gs[0], kind, gseed, entropy=ev)
                        if r["out"] != r0["out"] or r["gen"] != r0["gen"]:
                            movedby = True
                    if movedby:
                        bad = True
                        for sig in dict.fromkeys(E.entropy_sig(rec) for rec in r0["records"]):
                            rec = next(x for x in r0["records"] if E.entropy_sig(x) == sig)
                            ctx.violation(sig, f"{fullname} called with an explicit {kind}: the result changes with the operating "
                                               f"system's entropy ({rec['api']} requested by {rec['requester']} under {rec['site']}); "
                                               f"stack {rec['stack'][:6]}", case)
                    else:
                        ctx.count("os-entropy-requested-but-output-unaffected")
                if r0["clock_sites"]:
                    ctx.evaluations += 1
                    r = iso_run(fn, v, Gs[0], kind, gseed, clock=1)
                    if r["out"] != r0["out"] or r["gen"] != r0["gen"]:
                        bad = True
                        ctx.violation(f"{site}:output-depends-on-clock", f"{fullname} with explicit {kind}: result changes with the clock", case)
                if not bad:
                    ctx.traces += 1
            ok = ctx.guard(body, case=case, sig_prefix=f"{site}:explicit-rng:{kind}:")
            ctx.count(f"iso-runs:{kind}")
            if hasattr(fn, "build") and gseed == gseeds[0]:
                ctx.guard(lambda: iso_copies(ctx, fullname, short, site, fn, v, Gs[0], kind, gseed, case),
                          case=case, sig_prefix=f"{site}:explicit-rng:{kind}:copy:")
    ctx.flag("iso:" + short)


def iso_copies(ctx, fullname, short, site, fn, v, G, kind, gseed, case):
    """Copies of a component built with the caller's generator must keep drawing from that SAME generator object:
    (C) calling only the copy gives the result, and leaves the caller's generator in the state, of calling the original;
    (B) original and copy interleave on one stream: call(original); call(copy) equals the reference sequence
        call(original); call(second object built on the same generator)  (only where building draws nothing)."""
    import copy as _copy

    def run(plan):
        with E.ENV.run() as env:
            fx = S.Fx(v)
            E.set_pair(G)
            rng = _mk_gen(kind, gseed)
            g0 = E.gen_state(rng)
            o = fn.build(fx, rng)
            build_draws = E.gen_state(rng) != g0
            before = E.pair_parts(E.get_pair())
            outs = plan(fx, rng, o)
            moved = E.pair_parts(E.get_pair()) != before
            return [E.dig(E.ser(x)) for x in outs], E.dig(E.gen_state(rng)), build_draws, moved, o

    def guarded(plan):
        try:
            return run(plan)
        except Exception as e:
            return [("raised", type(e).__name__)], None, False, False, None

    ref1 = guarded(lambda fx, rng, o: [fn.call(fx, o)])
    if ref1[1] is None:
        return                                   # the plain call raises here: nothing to compare (flagged elsewhere)
    # (R) the same object called twice with the caller's generator put back to the same state: identical results
    #     (nothing of the first call may leak into the object or its argument arrays)
    if not fn.relabels:
        def twice(fx, rng, o):
            # everything the call may legitimately (or, for the known findings, illegitimately but reproducibly)
            # depend on is put back: the caller's generator, the global pair, the harness' entropy / clock counters
            st = rng.get_state(legacy=False) if isinstance(rng, numpy.random.RandomState) else rng.bit_generator.state
            pair = E.get_pair()
            E.ENV.reset_counters()
            a = fn.recall(fx, o)
            if isinstance(rng, numpy.random.RandomState):
                rng.set_state(st)
            else:
                rng.bit_generator.state = st
            E.set_pair(pair)
            E.ENV.reset_counters()
            return [a, fn.recall(fx, o)]
        ctx.evaluations += 1
        ctx.transitions += 2
        ctx.count("iso-repeat-runs")
        rr = guarded(twice)
        if rr[1] is not None and rr[0][0] != rr[0][1]:
            ctx.violation(f"{site}:explicit-rng:repeat-on-same-object-differs",
                          f"{fullname} built with the caller's own {kind}: the same call on the same object with the "
                          f"generator restored to the same state gives a different result", case)
        elif rr[1] is not None:
            ctx.traces += 1
    kinds = S.copy_kinds(ref1[4])
    # informational: python's default deepcopy of a class without its own __deepcopy__
    if "copy.deepcopy" not in kinds:
        try:
            c = _copy.deepcopy(ref1[4])
            if getattr(c, "rng", None) is not getattr(ref1[4], "rng", None):
                ctx.flag(f"copy-unspecified:{short}:generic copy.deepcopy clones the generator (no library __deepcopy__)")
        except Exception:
            pass
    ref2 = None
    if not ref1[2]:
        ref2 = guarded(lambda fx, rng, o: [fn.call(fx, o), fn.call(fx, fn.build(fx, rng))])
    for kd in kinds:
        ctx.flag("iso-copy:" + kd)
        ctx.count("iso-copy-runs")
        ctx.evaluations += 1
        ctx.transitions += 1
        rc = guarded(lambda fx, rng, o: [fn.call(fx, S.do_copy(o, kd))])
        bad = rc[0] != ref1[0] or rc[1] != ref1[1]
        why = "calling only the copy does not give the original's result / does not advance the caller's generator as the original would"
        if not bad and ref2 is not None and ref2[1] is not None:
            ctx.evaluations += 1
            ctx.transitions += 2
            rb = guarded(lambda fx, rng, o: (lambda c: [fn.call(fx, o), fn.call(fx, c)])(S.do_copy(o, kd)))
            if rb[0] != ref2[0] or rb[1] != ref2[1]:
                bad = True
                why = "original and copy do not interleave on one stream (call(original); call(copy) differs from the reference sequence)"
        if bad:
            ctx.violation(f"{site}:explicit-rng:copy-does-not-share-generator:{kd}",
                          f"{fullname} built with the caller's own {kind} and copied with {kd}: {why}", case)
        else:
            ctx.traces += 1


_DISC = None


def _discovered():
    global _DISC
    if _DISC is None:
        _DISC = S.discover()
    return _DISC


# ----------------------------------------------------------------------------
def scan(ctx):
    """Hidden generators + self-tests of the harness' own instruments (vacuity guards for the tripwires)."""
    ctx.evaluations += 1
    for name in E.hidden_generators():
        ctx.violation(f"hidden-generator:{name}", f"{name} is a generator object created at import: state outside the "
                      f"(python random, numpy global) pair that seed() cannot reset", dict(kind="scan"))
    # prng's own exports must all be views of numpy's global RandomState
    from pybrops.core.random import prng
    if prng.global_prng is not E.GLOBAL_NP:
        ctx.violation("hidden-generator:pybrops.core.random.prng.global_prng",
                      "global_prng is not numpy's global RandomState: numpy.random.seed() inside seed() cannot reset it",
                      dict(kind="scan"))
    for k in prng.__all__:
        f = getattr(prng, k)
        owner = getattr(f, "__self__", None)
        if owner is not None and isinstance(owner, (numpy.random.Generator, numpy.random.RandomState)) and owner is not E.GLOBAL_NP:
            ctx.violation(f"hidden-generator:pybrops.core.random.prng.{k}", f"prng.{k} is bound to a generator other than "
                          f"numpy's global RandomState", dict(kind="scan"))
    # self-test: each tripwire fires and answers deterministically
    vals = []
    for rep in range(2):
        with E.ENV.run(0, 0) as env:
            env.start_recording()
            import os, time, secrets, uuid
            a = numpy.random.default_rng().random()
            b = numpy.random.Generator(numpy.random.PCG64()).random()
            c = numpy.random.RandomState().random_sample()
            numpy.random.seed(None); d = numpy.random.random()
            random.seed(); e = random.random()
            f = random.Random().random()
            g = os.urandom(4); h = secrets.randbits(16); i = str(uuid.uuid4())
            j = numpy.random.SeedSequence().entropy
            t = (time.time(), time.time_ns(), time.perf_counter())
            env.stop_recording()
            apis = [r["api"] for r in env.records]
            vals.append((a, b, c, d, e, f, g, h, i, j, t))
            assert env.clock_reads == 3, env.clock_reads
    assert vals[0] == vals[1], "fake entropy is not deterministic"
    for api in ("numpy.random.default_rng(None)", "os.urandom", "numpy.random.seed(None)", "random.seed(None)",
                "random.Random.seed(None)", "numpy.random.SeedSequence(None)"):
        assert api in apis, (api, apis)
    assert len(apis) >= 10, apis
    with E.ENV.run(1, 1):
        assert numpy.random.default_rng().random() != vals[0][0]
    import time
    assert time.time() > 1.0e9
    ctx.flag("tripwire-selftest")
    # self-test of the draw attribution on synthetic code that *looks* like pybrops code (compiled with a file name
    # inside the package), so that it does not depend on any library function behaving correctly
    ns = {"numpy": numpy, "random": random}
    src = ("def inner(rng):\n    return rng.random()\n"
           "def outer_drops(rng):\n    return inner(numpy.random.mtrand._rand)\n"
           "def outer_keeps(rng):\n    return inner(rng)\n"
           "def direct(rng):\n    return numpy.random.random() + random.random()\n")
    exec(compile(src, E.REPO_PKG + "c08_selftest.py", "exec"), ns)
    g = numpy.random.Generator(numpy.random.PCG64(1))
    with E.ENV.run():
        assert E.blame_global_draws(lambda: ns["outer_drops"](g)) == [("numpy", "c08_selftest.outer_drops")]
        assert E.blame_global_draws(lambda: ns["outer_keeps"](g)) == []
        assert E.blame_global_draws(lambda: ns["direct"](g)) == [("numpy", "c08_selftest.direct"), ("python", "c08_selftest.direct")]
    ctx.flag("blame-selftest")
    ctx.traces += 1


# ----------------------------------------------------------------------------
ISO_CHUNK = 5


DEPTH3_SEEDS = (0, 3)        # seed indices explored to length 3 in the thorough tier (0 and the 64-bit seed)
EXT_L2_SEEDS = (1, 2)        # seed indices for which the all-calls family is explored to length 2 (1 and 2**32-1)


def shards(tier, seed):
    out = [("scan",)]
    core = core_names()
    if tier == "quick":
        for s_i in range(N_SEEDS):
            for c1 in core:
                out.append(("prog", s_i, c1, None, 2, False, True))
    else:
        step = 4
        for s_i in range(N_SEEDS):
            for c1 in core:
                if s_i in DEPTH3_SEEDS:
                    for i in range(0, len(core), step):
                        out.append(("prog", s_i, c1, core[i:i + step], 3, False, i == 0))
                else:
                    out.append(("prog", s_i, c1, None, 2, False, True))
        ext = [n for n in all_names() if n not in core]
        for s_i in range(N_SEEDS):
            if s_i in EXT_L2_SEEDS:
                for c1 in all_names():
                    out.append(("prog", s_i, c1, None, 2, True, True))
            else:
                for i in range(0, len(ext), 6):
                    out.append(("prog1", s_i, ext[i:i + 6]))
    names = sorted(_discovered()[0])
    for i in range(0, len(names), ISO_CHUNK):
        out.append(("iso", names[i:i + ISO_CHUNK]))
    return out


def run_shard(spec, ctx):
    v = ctx.seed % 3
    T = ctx.tier == "thorough"
    ctx.bounds.update({"seeds": [str(x) for x in S.seeds(v)], "program_length_core": 3 if T else 2,
                       "program_length_all_calls": 2 if T else 0, "seeds_at_length_3": 2 if T else 0,
                       "seeds_at_length_2_all_calls": 2 if T else 0, "core_calls": len(core_names()),
                       "all_calls": len(all_names()), "direct_pollutions": len(S.direct_pollutions(0)),
                       "entropy_variants": 1 + len(ENTROPY_VARIANTS), "clock_variants": 2,
                       "iso_global_states": 3 if T else 2, "iso_explicit_seeds": 2 if T else 1,
                       "GA": "ngen=2, pop_size=4 on 10-choose-3 / 8-taxon problems"})
    if spec[0] == "scan":
        scan(ctx)
    elif spec[0] == "prog":
        _, s_i, c1, seconds, L, ext, with_root = spec
        run_programs(ctx, s_i, c1, seconds, L, v, ext=ext, with_root=with_root)
        ctx.flag(f"seed-index:{s_i}")
    elif spec[0] == "prog1":
        for c1 in spec[2]:
            run_programs(ctx, spec[1], c1, None, 1, v, ext=True)
        ctx.flag(f"seed-index:{spec[1]}")
    elif spec[0] == "iso":
        for name in spec[1]:
            check_iso(ctx, name, v, ctx.tier)
    for sig, viol in ctx.violations.items():        # tell replay() which signature the artefact stands for
        if isinstance(viol.get("case"), dict):
            viol["case"]["expect"] = sig


def finalize(ctx, tier, seed):
    from ..core import load_known, match_known
    T = tier == "thorough"
    letters = all_names() if T else core_names()
    # guards that presuppose a correctly behaving library (a call draws from the global stream, a component draws
    # from the generator it was given) protect against a vacuous *pass*; they are not applied to a run that reports
    # unlisted violations anyway (a mutant that stops drawing must end as VIOLATION, not as a harness error)
    known = load_known()
    strict = all(match_known(ID, sig, known) for sig in ctx.violations)
    for n in letters:
        assert ctx.counters.get("letter:" + n, 0) > 0, f"call {n} never executed"
        assert not strict or "drew:" + n in ctx.flags, f"call {n} neither advanced a global stream nor requested entropy (trivial letter)"
    for n in core_names():
        assert ctx.counters.get("Q:call:" + n, 0) > 0, f"call {n} never used as pollution"
        assert not strict or "Q-changed-state:call:" + n in ctx.flags, f"pollution by {n} never changed the global state"
    for n, _ in S.direct_pollutions(0):
        assert ctx.counters.get("Q:" + n, 0) > 0, n
        if n != "default_rng()":
            assert not strict or "Q-changed-state:" + n in ctx.flags, f"direct pollution {n} left the global state untouched"
    for i in range(N_SEEDS):
        assert f"seed-index:{i}" in ctx.flags
    assert ctx.counters.get("program-len-1", 0) >= N_SEEDS * len(letters)
    assert ctx.counters.get("program-len-2", 0) >= N_SEEDS * len(core_names()) ** 2
    if T:
        assert ctx.counters.get("program-len-3", 0) >= len(DEPTH3_SEEDS) * len(core_names()) ** 3
        nx = len(all_names()) ** 2 - len(core_names()) ** 2
        assert ctx.counters.get("program-len-2", 0) >= N_SEEDS * len(core_names()) ** 2 + len(EXT_L2_SEEDS) * nx
    assert ctx.counters.get("persistent-mode", 0) > 0
    assert ctx.counters.get("repeat-mode", 0) > 0 and ctx.counters.get("iso-repeat-runs", 0) > 0
    for kd in S.COPY_KINDS:
        assert ctx.counters.get("copy-mode:" + kd, 0) > 0, f"copy kind {kd} never exercised in a program"
        assert "iso-copy:" + kd in ctx.flags, f"copy kind {kd} never exercised with an explicit generator"
    assert "tripwire-selftest" in ctx.flags and "blame-selftest" in ctx.flags
    assert len(ctx.outcomes) > 100, len(ctx.outcomes)
    names, bad = _discovered()
    ctx.bounds["rng_components_discovered"] = len(names)
    ctx.bounds["modules_not_importable"] = bad
    cov, unc = ctx.counters.get("iso-covered", 0), ctx.counters.get("iso-uncovered", 0)
    assert cov + unc == len(names), (cov, unc, len(names))
    assert cov >= 90, f"only {cov} of {len(names)} rng-accepting components covered"
    for fam in ("TwoWayCross", "G_E_Phenotyping", "SubsetSelectionConfiguration", "tiled_choice", "SubsetGeneticAlgorithm",
                "SteepestDescentSubsetHillClimber", "mat_meiosis", "EstimatedBreedingValueSubsetSelection"):
        assert "iso:" + fam in ctx.flags, fam
    for fam in ("TwoWayCross", "G_E_Phenotyping", "SubsetSelectionConfiguration", "tiled_choice", "SteepestDescentSubsetHillClimber"):
        assert not strict or "iso-drew:" + fam in ctx.flags, f"{fam} never drew from the explicit generator"


REPLAY_ATTEMPTS = 6


def replay(case, ctx):
    """Re-run the one recorded case.  A defect of this property can be genuinely nondeterministic (e.g. a generator
    seeded from real OS entropy at import time, before the harness owns the entropy): which of the comparisons of a
    node trips first may then differ from run to run.  The artefact therefore names the signature it stands for and
    the case is repeated (at most REPLAY_ATTEMPTS times) until that signature is observed; only it is reported.  For
    the deterministic cases (everything on the unchanged tree) the first attempt reproduces it."""
    from ..core import Ctx
    expect = case.get("expect")
    for _ in range(REPLAY_ATTEMPTS if expect else 1):
        c2 = Ctx(ctx.pid, ctx.tier, ctx.seed)
        _replay_once(case, c2)
        if expect is None:
            ctx.violations.update(c2.violations)
            return
        if expect in c2.violations:
            ctx.violations[expect] = c2.violations[expect]
            return


def _replay_once(case, ctx):
    kind = case.get("kind")
    if kind == "scan":
        scan(ctx)
    elif kind == "iso":
        check_iso(ctx, case["comp"], case["v"], case.get("tier", "quick"))
    else:
        prog = tuple(case["prog"])
        s, v, ext = case["seed"], case["v"], case.get("ext", False)
        parent = None
        if len(prog) > 1:
            try:
                r = execute(prog[:-1], s, v)
                parent = (r.pairs[-1], r.counters[-1][0], r.counters[-1][1])
            except Exception:
                parent = None
        check_node(ctx, s, prog, v, ext=ext, parent=parent)
