"""C17 — sampling utilities honour their proportionality and balance guarantees.

Small-scope enumeration of the inputs of the four functions of
pybrops/core/random/sampling.py  x  every answer of the random generator:

  stochastic_universal_sampling   weights x sizes/shapes x offset answers (exact class weights + the
                                  reachable extremes + every class boundary +-1 grid step) x shuffles
  tiled_choice                    option sets x sizes x every remainder draw x shuffles
  axis_shuffle                    shapes x axis tuples x every permutation of every slice
  outcross_shuffle                cross tables x every answer class of every shuffle(exchix)
"""
from __future__ import annotations
import itertools
import math
import os
from fractions import Fraction
import numpy

from .. import compat  # noqa: F401
from ..core import Violation, require, digest
from ..env import (ScriptedGenerator, ScriptedRandomState, Handler, UnscriptedDraw, shape_of,
                   choose_subset_ordered, choose_with_replacement, TWO53)
from ..explore import explore, Chooser
from ..ref import sampling as R

ID = "C17"
TECHNIQUE = ("small-scope enumeration of inputs x all generator answers (stateless DFS with prefix replay); "
             "offset answers of SUS are exact answer classes with Fraction weights plus reachable extremes "
             "and class boundaries, so the floor/ceil clause is decided for every reachable answer kind and "
             "the proportionality clause as an exact expectation")
RULE = ("one execution = one (function, input, answer of every generator call) on the real function. "
        "SUS: all weight vectors up to length n over a 6-value alphabet (0, ties, 1e-9/1e9 magnitudes) x sizes/shapes; "
        "offset menu = one representative per cell of the subset-sum partition of [0,1) (exact weights), "
        "u=j*2^-53 for j in {0,1,2,2^51,2^52,3*2^51,2^53-2,2^53-1}, and every cell boundary +-1 grid step; answers are "
        "computed as low+(high-low)*u like numpy. tiled_choice: all ordered remainder draws x shuffles. axis_shuffle: "
        "all shapes <= (3,3,2) x all proper axis tuples x all permutations per slice. outcross_shuffle: all tables over "
        "3 ids x all permutations (<=6 pairs) or every move-to-front/identity/reversal answer (covers every possible first "
        "improving exchange) at every pass. non-trivial = >=2 positive weights and k>=2 / remainder>0 / a non-identity "
        "slice permutation / a table with an improving exchange; distinct by digest of (input, answers)")
ASSUME = ["numpy Generator/RandomState.uniform(low,high) returns low+(high-low)*j*2^-53, j in [0,2^53) (verified against "
          "numpy 2.5.3 at development time); continuous-uniform class weights",
          "shuffle(x) permutes x in place along its first axis; choice(a,k,False) returns k distinct members",
          "mc/compat.py restores removed numpy names only"]

SUS = "stochastic_universal_sampling:"
TIL = "tiled_choice:"
AXS = "axis_shuffle:"
OUT = "outcross_shuffle:"
# suffix of the three SUS failure kinds when the offset answer is an 'edge' answer (probability-zero class: a pointer on,
# or within two grid steps of, an element boundary, incl. u = 0 and u = 1-2^-53); interior answers carry no suffix, so a
# known finding about edge answers can never hide a failure at an offset of positive probability
EDGE = ":edge-offset"


def _fn(name):
    import pybrops.core.random.sampling as S
    return getattr(S, name)


# ----------------------------------------------------------------------------
# value alphabets (rotated by VERIF_SEED; the structural space is the same for every seed)
def weight_alphabet(seed):
    return [[0.0, 1.0, 2.0, 3.0, 1e-9, 1e9],
            [0.0, 0.5, 1.5, 2.5, 2.0 ** -30, 2.0 ** 30],
            [0.0, 0.1, 0.2, 0.7, 1e-9, 1e9]][seed % 3]


def labels(n, seed, dup=False):
    v = seed % 3
    if v == 0:
        a = numpy.array([10 + 3 * i for i in range(n)], dtype="int64")
    elif v == 1:
        a = numpy.array([f"t{i}" for i in range(n)], dtype=object)
    else:
        a = numpy.array([-1.5 - i for i in range(n)], dtype="float64")
    if dup and n >= 2:
        a[n - 1] = a[0]
    return a


def id_alphabet(seed):
    # the first three ids are used by the small tables; the wide tables (nparent >= 3) use up to six
    return [[0, 1, 2, 3, 4, 5], [5, 7, 9, 2, 11, 4], [-1, 0, 3, 8, -5, 6]][seed % 3]


def _perm_menu(n, full_upto):
    """identity first; all permutations if n <= full_upto, else identity + all transpositions."""
    if n <= 1:
        return [tuple(range(n))]
    if n <= full_upto:
        return list(itertools.permutations(range(n)))
    out = [tuple(range(n))]
    for i, j in itertools.combinations(range(n), 2):
        p = list(range(n))
        p[i], p[j] = p[j], p[i]
        out.append(tuple(p))
    return out


def _apply_perm(x, perm):
    b = x.copy()
    x[...] = b[list(perm)]


def _trim(taken):
    t = list(taken)
    while t and t[-1] == 0:
        t.pop()
    return t


def _mkrng(handler, kind):
    return ScriptedRandomState(handler) if kind == "RandomState" else ScriptedGenerator(handler)


def _drive(run, answers, bound=None, first_full=0, max_exec=None):
    """max_exec: safety cap against a (mutated) implementation that asks many more questions than the model predicts;
    never reached on a conforming implementation (if it is, the run is reported as capped / not exhaustive)."""
    if answers is not None:
        ch = Chooser(answers)
        return [(ch, run(ch))]
    return explore(run, bound=bound, first_full=first_full, max_exec=max_exec)


# ============================================================================
# SUS
class SusHandler(Handler):
    def __init__(self, ch, menu, k, perm_full_upto, perms_always):
        super().__init__(ch)
        self.menu, self.k = menu, k
        self.perm_full_upto, self.perms_always = perm_full_upto, perms_always
        self.off = None
        self.zone = ""
        self.perm_choice = 0
        self.nshuffle = 0

    def uniform(self, gen, low, high, size):
        if size is not None or low != 0 or not (high > 0 and math.isfinite(high)) or self.off is not None:
            raise UnscriptedDraw(f"uniform({low},{high},{size})")
        c = self.ch.choose(len(self.menu), tag="offset") if len(self.menu) > 1 else 0
        j, w, kind, edge = self.menu[c]
        self.ch.weight *= w
        self.off = (c, j, kind, float(high))
        self.zone = EDGE if edge else ""
        lo, hi = numpy.float64(low), numpy.float64(high)
        return float(lo + (hi - lo) * numpy.float64(j / TWO53))     # numpy's own formula: reachable by construction

    def shuffle(self, gen, x):
        self.nshuffle += 1
        if len(x) != self.k:
            raise Violation(SUS + "pointer-count" + self.zone,
                            f"{len(x)} pointers were generated for {self.k} requested draws "
                            f"(offset answer u = {self.off[1]}*2^-53 of uniform(0, {self.off[3]!r}))")
        if self.perms_always or self.off[0] == 0:
            menu = _perm_menu(len(x), self.perm_full_upto)
            c = self.ch.choose(len(menu), tag="perm") if len(menu) > 1 else 0
            self.perm_choice = c
            _apply_perm(x, menu[c])


def sus_case(ctx, cs, answers=None):
    p = numpy.array(cs["p"], dtype="float64")
    size = cs["size"]
    size_arg = tuple(size) if isinstance(size, list) else size
    if cs.get("np_int"):
        size_arg = numpy.int64(size_arg)
    shp = tuple(size) if isinstance(size, list) else (size,)
    k = int(numpy.prod(shp))
    n = len(p)
    a = labels(n, cs["seed"])
    decode = {(v if not isinstance(v, float) else float(v)): i for i, v in enumerate(a.tolist())}
    e = R.expected_counts(p, k)
    menu, thin = R.sus_offset_menu(p, k)
    if cs["menu"] == "lean":
        menu = [m for m in menu if m[2] != "boundary"]
    fn = _fn("stochastic_universal_sampling")
    p_before = p.copy()
    a_before = a.copy()

    def run(ch):
        h = SusHandler(ch, menu, k, cs["perm_full_upto"], False)
        rng = _mkrng(h, cs["rng"])
        try:
            out = fn(a, p, size_arg, rng)
            exc = None
        except Exception as ex:     # classified by the oracle
            out, exc = None, ex
        return out, exc, h

    acc = [Fraction(0)] * n
    wsum = Fraction(0)
    complete = True
    for ch, (out, exc, h) in _drive(run, answers):
        ctx.evaluations += 1
        ctx.transitions += 1
        case = dict(cs, answers=_trim(ch.taken))
        res = {}
        ok = ctx.guard(lambda: sus_oracle(cs, p, p_before, a, a_before, decode, shp, k, e, out, exc, h, res),
                       case=case, sig_prefix=SUS)
        kind = h.off[2] if h.off else "none"
        ctx.count(f"sus:answers:{kind}")
        ctx.count("sus:answers:zone:" + ("edge" if h.zone else "interior"))
        if ok:
            ctx.traces += 1
            ctx.outcome(digest(("sus", out)))
            if ch.weight > 0 and h.perm_choice == 0:
                wsum += ch.weight
                for i in range(n):
                    acc[i] += ch.weight * res["counts"][i]
            if len(set(res["counts"])) > 1:
                ctx.flag("sus:unequal-counts")
            if h.perm_choice:
                ctx.flag("sus:non-identity-shuffle")
        elif ch.weight > 0:
            complete = False
        if sum(1 for x in p if x > 0) >= 2 and k >= 2:
            ctx.nontriv(digest(("sus", cs["p"], size, case["answers"])))
        if ctx.evaluations in (60, 2500) and ok:
            ctx.sample(dict(case, offset_u=f"{h.off[1]}*2^-53", kind=kind, out=out.tolist(),
                            expected=[str(x) for x in e]))
    ctx.state(digest(("sus", cs["p"], size, cs["rng"])))
    if answers is None and complete:
        # proportionality as an exact expectation over the answer classes of the offset
        def prop():
            require(wsum + thin == 1, "harness:sus-weights", f"class weights sum to {wsum}+{thin}")
            for i in range(n):
                require(abs(acc[i] - e[i]) <= k * thin, SUS + "expected-count",
                        f"E[count of element {i}] = {acc[i]} (= {float(acc[i])!r}) over the exact offset classes, "
                        f"declared k*p_i/sum(p) = {e[i]} (= {float(e[i])!r}); p={cs['p']} size={size}")
        if ctx.guard(prop, case=dict(cs, answers=None), sig_prefix=SUS):
            ctx.count("sus:exact-expectations-verified", n)
    ctx.count("sus:cases")


def sus_oracle(cs, p, p_before, a, a_before, decode, shp, k, e, out, exc, h, res):
    if isinstance(exc, IndexError) and h.off is not None and h.nshuffle == 0:
        raise Violation(SUS + "pointer-past-cumulative-weights" + h.zone,
                        f"IndexError while walking the pointers ({exc}); p={cs['p']} size={cs['size']} "
                        f"offset answer u={h.off[1]}*2^-53 of uniform(0, {h.off[3]!r})")
    if exc is not None:
        raise exc
    require(numpy.array_equal(p, p_before) and a.tolist() == a_before.tolist(), SUS + "input-mutated",
            "the weight or element array was modified")
    require(isinstance(out, numpy.ndarray) and out.shape == shp, SUS + "shape",
            lambda: f"result shape {getattr(out, 'shape', None)} for requested size {cs['size']}")
    require(out.dtype == a.dtype, SUS + "dtype", lambda: f"result dtype {out.dtype}, elements are {a.dtype}")
    counts = [0] * len(p)
    for v in out.ravel().tolist():
        require(v in decode, SUS + "alien-element", f"result contains {v!r} which is not an element of a={a.tolist()}")
        counts[decode[v]] += 1
    res["counts"] = counts
    require(sum(counts) == k, SUS + "draw-count", f"{sum(counts)} draws for {k} requested")
    for i, c in enumerate(counts):
        if p[i] == 0:
            require(c == 0, SUS + "zero-weight-drawn", f"element {i} has weight 0 and was drawn {c} times; p={cs['p']} "
                    f"size={cs['size']} u={h.off[1]}*2^-53")
    for i, c in enumerate(counts):
        lo, hi = R.allowed_range(e[i], k)
        require(lo <= c <= hi, SUS + "count-not-floor-or-ceil" + h.zone,
                f"element {i} drawn {c} times, expected count {e[i]} (= {float(e[i])!r}) allows {lo}..{hi}; "
                f"counts={counts} p={cs['p']} size={cs['size']} offset answer u={h.off[1]}*2^-53 ({h.off[2]})")
    require(h.nshuffle <= 1, "harness:sus-shuffles", "more than one shuffle call")


def sus_cases(tier, seed):
    T = tier == "thorough"
    W = weight_alphabet(seed)
    nmax = 4
    kmax = 8 if T else 6
    tuple_sizes = [[1], [4], [2, 2], [2, 3], [3, 1], [1, 2, 2]] + ([[2, 4], [7, 1]] if T else [])
    out = []
    for n in range(1, nmax + 1):
        for vec in itertools.product(W, repeat=n):
            if sum(vec) <= 0:
                continue
            for k in range(1, kmax + 1):
                out.append(dict(part="sus", p=list(vec), size=k, menu="full", rng="Generator", seed=seed,
                                perm_full_upto=4 if (n <= 3 or T) else 0))
            # shapes: lean offset menu (classes + extremes), the count logic only depends on k
            if n <= 3 or T:
                for ts in tuple_sizes:
                    out.append(dict(part="sus", p=list(vec), size=ts, menu="lean", rng="Generator", seed=seed,
                                    perm_full_upto=3))
            if n <= 2:
                for k in (1, 2, 3, 5):
                    out.append(dict(part="sus", p=list(vec), size=k, menu="full", rng="RandomState", seed=seed,
                                    perm_full_upto=2))
                out.append(dict(part="sus", p=list(vec), size=3, np_int=True, menu="lean", rng="Generator", seed=seed,
                                perm_full_upto=2))
    if T:
        # longer vectors over the reduced alphabet {0, small, mid, huge}
        W5 = [W[0], W[1], W[3], W[5]]
        for vec in itertools.product(W5, repeat=5):
            if sum(vec) <= 0:
                continue
            for k in (2, 3, 5, 7):
                out.append(dict(part="sus", p=list(vec), size=k, menu="full", rng="Generator", seed=seed,
                                perm_full_upto=0))
    return out


# ============================================================================
# tiled_choice
class TiledHandler(Handler):
    def __init__(self, ch, full_upto):
        super().__init__(ch)
        self.full_upto = full_upto
        self.choice_calls = []
        self.nshuffle = 0

    def choice(self, gen, a, size, replace, p):
        a = numpy.asarray(a)
        if a.ndim != 1:
            raise UnscriptedDraw("choice on non 1-D options")
        if replace:
            shp = shape_of(size)
            nn = int(numpy.prod(shp)) if shp else 1
            idx = choose_with_replacement(self.ch, len(a), nn)
            self.choice_calls.append(("r", idx))
            res = a[idx]
            return res.reshape(shp) if shp else res[0]
        kk = int(numpy.prod(shape_of(size))) if size is not None else 1
        support = [i for i in range(len(a)) if p is None or p[i] > 0]
        if kk > len(support):
            raise ValueError("Cannot take a larger sample than population when replace is False")
        pos = [support[c] for c in choose_subset_ordered(self.ch, len(support), kk)]
        self.choice_calls.append(("n", pos))
        return a[pos] if kk else a[:0].copy()

    def shuffle(self, gen, x):
        self.nshuffle += 1
        n = len(x)
        if n <= self.full_upto or self.ch.deviations == 0:
            menu = _perm_menu(n, self.full_upto)
            c = self.ch.choose(len(menu), tag="perm") if len(menu) > 1 else 0
            _apply_perm(x, menu[c])


def tiled_case(ctx, cs, answers=None):
    o = cs["noption"]
    a = labels(o, cs["seed"], dup=cs["dup"])
    size = cs["size"]
    size_arg = tuple(size) if isinstance(size, list) else size
    shp = tuple(size) if isinstance(size, list) else (size,)
    s = int(numpy.prod(shp))
    pvec = None if cs["p"] is None else numpy.array(cs["p"], dtype="float64")
    fn = _fn("tiled_choice")
    a_before = a.copy()

    def run(ch):
        h = TiledHandler(ch, cs["perm_full_upto"])
        rng = _mkrng(h, cs["rng"])
        try:
            out = fn(a, size_arg, cs["replace"], pvec, rng)
            exc = None
        except Exception as ex:
            out, exc = None, ex
        return out, exc, h

    for ch, (out, exc, h) in _drive(run, answers, max_exec=200000):
        ctx.evaluations += 1
        ctx.transitions += 1
        case = dict(cs, answers=_trim(ch.taken))
        ok = ctx.guard(lambda: tiled_oracle(cs, a, a_before, shp, s, out, exc, h), case=case, sig_prefix=TIL)
        if ok:
            ctx.traces += 1
            ctx.outcome(digest(("tiled", out)))
        if not cs["replace"] and s % o:
            ctx.nontriv(digest(("tiled", cs["noption"], size, cs["dup"], cs["p"], case["answers"])))
            ctx.flag("tiled:remainder")
        if not cs["replace"] and s >= 2 * o:
            ctx.flag("tiled:two-whole-tiles")
        if not cs["replace"] and s < o:
            ctx.flag("tiled:no-whole-tile")
        if ctx.evaluations in (60, 900) and ok:
            ctx.sample(dict(case, options=a.tolist(), out=out.tolist()))
    ctx.state(digest(("tiled", cs["noption"], size, cs["dup"], cs["p"], cs["replace"], cs["rng"])))
    ctx.count("tiled:cases")


def tiled_oracle(cs, a, a_before, shp, s, out, exc, h):
    if exc is not None:
        raise exc
    require(a.tolist() == a_before.tolist(), TIL + "input-mutated", "the option array was modified")
    require(isinstance(out, numpy.ndarray) and out.shape == shp, TIL + "shape",
            lambda: f"result shape {getattr(out, 'shape', None)} for requested size {cs['size']}")
    vals = out.ravel().tolist()
    opts = a.tolist()
    for v in vals:
        require(v in opts, TIL + "alien-element", f"result contains {v!r}, options are {opts}")
    if cs["replace"]:
        require(len(h.choice_calls) == 1 and h.choice_calls[0][0] == "r", TIL + "replace-delegation",
                "sampling with replacement did not delegate to one choice(..., replace=True) call")
        require(vals == [opts[i] for i in h.choice_calls[0][1]], TIL + "replace-delegation",
                "result differs from what choice() returned")
        return
    require(out.dtype == a.dtype, TIL + "dtype", lambda: f"result dtype {out.dtype}, options are {a.dtype}")
    o = len(opts)
    qu = s // o
    for lab in sorted(set(opts), key=opts.index):
        mult = opts.count(lab)
        c = vals.count(lab)
        require(mult * qu <= c <= mult * (qu + 1), TIL + "unbalanced",
                f"option {lab!r} (listed {mult}x) used {c} times in {s} draws from {o} options: "
                f"allowed {mult*qu}..{mult*(qu+1)}; out={vals}")
    require(len(vals) == s, TIL + "draw-count", f"{len(vals)} draws for {s}")


def tiled_cases(tier, seed):
    T = tier == "thorough"
    out = []
    smax = 10 if T else 9
    shapes = [[1], [2, 2], [2, 3], [3, 2], [1, 5], [3, 3], [2, 2, 2]]
    for o in range(1, (5 if T else 4) + 1):
        for size in list(range(1, smax + 1)) + shapes:
            s = size if isinstance(size, int) else int(numpy.prod(size))
            for rngk in ("Generator", "RandomState"):
                if rngk == "RandomState" and not (isinstance(size, int) and size in (3, 5, 7)):
                    continue
                out.append(dict(part="tiled", noption=o, size=size, replace=False, p=None, dup=False, rng=rngk,
                                seed=seed, perm_full_upto=5 if (T or s <= 4) else 4))
            if o >= 2 and isinstance(size, int):
                out.append(dict(part="tiled", noption=o, size=size, replace=False, p=None, dup=True, rng="Generator",
                                seed=seed, perm_full_upto=3))
                pu = [1.0 / o] * o
                out.append(dict(part="tiled", noption=o, size=size, replace=False, p=pu, dup=False, rng="Generator",
                                seed=seed, perm_full_upto=3))
                if o >= 3 and s % o <= o - 1:
                    pz = [0.0] + [1.0 / (o - 1)] * (o - 1)
                    out.append(dict(part="tiled", noption=o, size=size, replace=False, p=pz, dup=False,
                                    rng="Generator", seed=seed, perm_full_upto=3))
            if s <= 4 and o <= 3:
                out.append(dict(part="tiled", noption=o, size=size, replace=True, p=None, dup=False, rng="Generator",
                                seed=seed, perm_full_upto=0))
    return out


# ============================================================================
# axis_shuffle
class AxisHandler(Handler):
    def __init__(self, ch):
        super().__init__(ch)
        self.log = []

    def shuffle(self, gen, x):
        if not isinstance(x, numpy.ndarray) or x.ndim == 0:
            raise TypeError(f"object of type '{type(x).__name__}' has no len()")    # what numpy raises
        menu = _perm_menu(len(x), 3)
        c = self.ch.choose(len(menu), tag="perm") if len(menu) > 1 else 0
        before = x.copy()
        _apply_perm(x, menu[c])
        self.log.append((before, menu[c]))


def _axis_fill(shape, seed):
    n = int(numpy.prod(shape))
    v = seed % 3
    if v == 0:
        return numpy.arange(n, dtype="int64").reshape(shape) + 100
    if v == 1:
        return (numpy.arange(n, dtype="float64").reshape(shape) * -0.5) - 1.0
    return numpy.array([f"c{i}" for i in range(n)], dtype=object).reshape(shape)


def axis_case(ctx, cs, answers=None):
    shape = tuple(cs["shape"])
    ax = cs["axis"]
    ax_arg = tuple(ax) if isinstance(ax, list) else ax
    axes = tuple(ax) if isinstance(ax, list) else (ax,)
    fn = _fn("axis_shuffle")
    orig = _axis_fill(shape, cs["seed"])
    slices = list(R.requested_slices(shape, axes))

    def run(ch):
        h = AxisHandler(ch)
        rng = _mkrng(h, cs["rng"])
        arr = orig.copy()
        try:
            ret = fn(arr, ax_arg, rng)
            exc = None
        except Exception as ex:
            ret, exc = None, ex
        return arr, ret, exc, h

    for ch, (arr, ret, exc, h) in _drive(run, answers, bound=cs["bound"], max_exec=4 * cs["_cost"] + 200):
        ctx.evaluations += 1
        ctx.transitions += 1
        case = dict(cs, answers=_trim(ch.taken))
        ok = ctx.guard(lambda: axis_oracle(cs, orig, arr, ret, exc, h, slices), case=case, sig_prefix=AXS)
        if ok:
            ctx.traces += 1
            ctx.outcome(digest(("axis", arr)))
            ctx.state(digest(("axis", cs["shape"], ax, arr)))
        if any(tuple(pm) != tuple(range(len(pm))) for _, pm in h.log):
            ctx.nontriv(digest(("axis", cs["shape"], ax, case["answers"])))
        if ctx.evaluations in (60, 1500) and ok:
            ctx.sample(dict(case, before=orig.tolist(), after=arr.tolist()))
    ctx.count("axis:cases")
    ctx.flag(f"axis:ndim{len(shape)}:naxes{len(axes)}")
    if isinstance(ax, int):
        ctx.flag("axis:int-form")


def axis_oracle(cs, orig, arr, ret, exc, h, slices):
    if exc is not None:
        raise exc
    require(ret is None, AXS + "return", "in-place function returned a value")
    require(arr.shape == orig.shape and arr.dtype == orig.dtype, AXS + "shape", "shape or dtype changed")
    # (a) values move only within the requested slices (cell values are unique)
    for s in slices:
        b, a_ = orig[s], arr[s]
        require(sorted(map(str, numpy.ravel(b).tolist())) == sorted(map(str, numpy.ravel(a_).tolist())),
                AXS + "value-left-its-slice",
                f"slice {s} held {numpy.ravel(b).tolist()} and now holds {numpy.ravel(a_).tolist()} "
                f"(shape {cs['shape']}, axis {cs['axis']})")
    # (b) each requested slice is shuffled exactly once, with the answered permutation, and nothing else is
    used = [False] * len(slices)
    for before, perm in h.log:
        hit = None
        for si, s in enumerate(slices):
            b = orig[s]
            if numpy.ndim(b) >= 1 and b.shape == before.shape and b.tolist() == before.tolist():
                hit = si
        require(hit is not None, AXS + "shuffled-something-else",
                f"shuffle() was called on {before.tolist()}, which is not one of the requested slices of the input "
                f"(shape {cs['shape']}, axis {cs['axis']})")
        require(not used[hit], AXS + "slice-shuffled-twice", f"slice {slices[hit]} was shuffled twice")
        used[hit] = True
        exp = before[list(perm)]
        require(arr[slices[hit]].tolist() == exp.tolist(), AXS + "slice-not-shuffled-in-place",
                f"slice {slices[hit]}: generator permuted it to {exp.tolist()}, array holds {arr[slices[hit]].tolist()}")
    for si, s in enumerate(slices):
        if numpy.ndim(orig[s]) >= 1 and len(orig[s]) >= 2:
            require(used[si], AXS + "slice-not-shuffled", f"requested slice {s} was never shuffled "
                    f"(shape {cs['shape']}, axis {cs['axis']})")


def axis_cases(tier, seed):
    T = tier == "thorough"
    out = []
    shapes = []
    for nd in (1, 2, 3):
        dims = [range(1, 4)] * min(nd, 2) + ([range(1, 3)] if nd == 3 else [])
        shapes += [list(s) for s in itertools.product(*dims)]
    for shape in shapes:
        nd = len(shape)
        axsets = [[]]
        for r in range(1, nd):
            for comb in itertools.permutations(range(nd), r):
                axsets.append(list(comb))
        forms = [(a, "Generator") for a in axsets]
        forms += [(a[0], "Generator") for a in axsets if len(a) == 1]
        forms += [(a, "RandomState") for a in axsets if len(a) == 1]
        for ax, rk in forms:
            axes = tuple(ax) if isinstance(ax, list) else (ax,)
            ncalls = int(numpy.prod([shape[d] for d in axes])) if axes else 1
            rest = [shape[d] for d in range(nd) if d not in axes]
            per = math.factorial(rest[0]) if rest else 1
            total = per ** ncalls
            bound = None if (total <= 3000 or T) else 3
            out.append(dict(part="axis", shape=shape, axis=ax, rng=rk, seed=seed, bound=bound,
                            _cost=total if bound is None else min(total, 4000)))
    return out


# ============================================================================
# outcross_shuffle
class OutxHandler(Handler):
    def __init__(self, ch, table, horizon, first_full_upto, few=False):
        super().__init__(ch)
        self.table, self.horizon, self.first_full_upto, self.few = table, horizon, first_full_upto, few
        self.ncalls = 0
        self.states = []

    def shuffle(self, gen, x):
        self.ncalls += 1
        self.states.append(self.table.tolist())
        if self.ncalls > self.horizon:
            raise Violation(OUT + "no-termination",
                            f"pass #{self.ncalls} started although every pass but the last must remove a repeat "
                            f"(at most {self.horizon} passes); states at pass starts: {self.states}")
        n = len(x)
        if n <= 1:
            return
        if self.ncalls == 1 and n <= self.first_full_upto:
            menu = list(itertools.permutations(range(n)))
        elif self.few:
            # wide tables: default order, reversal and three rotations of the exchange list
            ident = tuple(range(n))
            menu = [ident, ident[::-1]] + [ident[k:] + ident[:k] for k in (n // 4, n // 2, (3 * n) // 4) if 0 < k < n]
        else:
            ident = tuple(range(n))
            menu = [ident, ident[::-1]] + [(i,) + ident[:i] + ident[i + 1:] for i in range(1, n)]
        c = self.ch.choose(len(menu), tag="xperm")
        _apply_perm(x, menu[c])


def outx_case(ctx, cs, answers=None):
    ids = id_alphabet(cs["seed"])
    tab0 = numpy.array([[ids[v] for v in row] for row in cs["table"]], dtype=cs["dtype"])
    fn = _fn("outcross_shuffle")
    score0 = R.dup_count(tab0.tolist())

    def run(ch):
        tab = tab0.copy()
        h = OutxHandler(ch, tab, score0 + 1, cs["first_full_upto"], few=cs.get("menu") == "few")
        rng = _mkrng(h, cs["rng"])
        try:
            ret = fn(tab, rng)
            exc = None
        except Exception as ex:
            ret, exc = None, ex
        return tab, ret, exc, h

    npass_max = [0]
    for ch, (tab, ret, exc, h) in _drive(run, answers, bound=cs["bound"], first_full=cs.get("first_full", 1), max_exec=300000):
        ctx.evaluations += 1
        ctx.transitions += max(h.ncalls, 1)
        case = dict(cs, answers=_trim(ch.taken))
        npass_max[0] = max(npass_max[0], h.ncalls)
        ok = ctx.guard(lambda: outx_oracle(cs, tab0, score0, tab, ret, exc, h), case=case, sig_prefix=OUT)
        if ok:
            ctx.traces += 1
            ctx.outcome(digest(("outx", tab)))
            for st in h.states:
                ctx.state(digest(("outx", st)))
            ctx.state(digest(("outx", tab.tolist())))
            if h.ncalls >= 3:
                ctx.flag("outx:two-improving-passes")
            if R.dup_count(tab.tolist()) > 0:
                ctx.flag("outx:local-minimum-with-repeats")
        if ctx.evaluations in (60, 1500) and ok:
            ctx.sample(dict(case, before=tab0.tolist(), after=tab.tolist(), passes=h.ncalls))
    if R.improving_exchanges(tab0.tolist()):
        ctx.nontriv(digest(("outx", cs["table"])))
    ctx.count("outx:cases")
    nr, nc = tab0.shape
    ctx.flag("outx:shape:" + ("square" if nr == nc else "ncross>nparent" if nr > nc else "ncross<nparent"))
    if (nr, nc) in ((4, 2), (2, 4)):
        ctx.count(f"outx:tables-{nr}x{nc}")
    if cs.get("menu") == "few":
        ctx.count("outx:wide-tables")
        ctx.flag(f"outx:wide:{nr}x{nc}")
        if npass_max[0] > nr + 1:
            ctx.flag("outx:wide:more-passes-than-ncross+1")


def outx_oracle(cs, tab0, score0, tab, ret, exc, h):
    if exc is not None:
        raise exc
    require(ret is None, OUT + "return", "in-place function returned a value")
    require(tab.shape == tab0.shape and tab.dtype == tab0.dtype, OUT + "shape", "shape or dtype changed")
    seq = h.states + [tab.tolist()]
    require(sorted(tab.ravel().tolist()) == sorted(tab0.ravel().tolist()), OUT + "multiset-changed",
            f"entries {sorted(tab0.ravel().tolist())} became {sorted(tab.ravel().tolist())}")
    for st in seq:
        require(sorted(v for r in st for v in r) == sorted(tab0.ravel().tolist()), OUT + "multiset-changed",
                f"entries changed during the search: {st}")
    sc = [R.dup_count(st) for st in seq]
    require(seq[0] == tab0.tolist(), OUT + "first-pass-state", "table modified before the first pass")
    require(all(b <= a for a, b in zip(sc, sc[1:])) and sc[-1] <= score0, OUT + "repeats-increased",
            f"number of repeated individuals within crosses along the passes: {sc} (table {tab0.tolist()} -> {tab.tolist()})")
    imp = R.improving_exchanges(tab.tolist())
    require(not imp, OUT + "stopped-before-local-minimum",
            f"result {tab.tolist()} (from {tab0.tolist()}) has {sc[-1]} repeats, exchanging flat positions {imp[0] if imp else None} gives fewer")


def _canonical(flat):
    """first-occurrence relabelling of a table over 3 ids (quick tier enumerates one table per id-relabelling class
    for the 5- and 6-entry tables; the function only compares entries for equality)"""
    m = {}
    for v in flat:
        m.setdefault(v, len(m))
    return tuple(m[v] for v in flat)


_DEPTH = {}


def _depth(flat, c):
    """longest chain of improving exchanges from a table (reference model) - only used to balance shards"""
    key = (flat, c)
    if key not in _DEPTH:
        table = [list(flat[i:i + c]) for i in range(0, len(flat), c)]
        best = 0
        for i, j in R.improving_exchanges(table):
            f = list(flat)
            f[i], f[j] = f[j], f[i]
            best = max(best, 1 + _depth(tuple(f), c))
        _DEPTH[key] = best
    return _DEPTH[key]


def wide_tables():
    """Covering family for shapes 3x4, 3x6, 4x4, 2x6 over k = 2,3,4,6 ids: constant crosses, crosses drawing on two
    individuals ([a,a,a,a,b,b], [a,a,a,b,b,b]), sorted fills with equal / unequal counts, identical crosses, one id only."""
    out = []
    for (r, c) in ((3, 4), (3, 6), (4, 4), (2, 6)):
        fam = []
        for k in (2, 3, 4, 6):
            fam.append([[i % k] * c for i in range(r)])                                         # constant crosses
            fam.append([[i % k] * (c - 2) + [(i + 1) % k] * 2 for i in range(r)])               # a..a b b
            fam.append([[i % k] * (c // 2) + [(i + 1) % k] * (c - c // 2) for i in range(r)])   # a a a b b b
            fam.append([[(2 * i) % k] * (c // 2) + [(2 * i + 1) % k] * (c - c // 2) for i in range(r)])
            flat = sorted(j % k for j in range(r * c))
            fam.append([flat[i * c:(i + 1) * c] for i in range(r)])                             # sorted fill, equal counts
            fam.append([[j % k for j in range(c)] for _ in range(r)])                           # identical crosses
        flat = [0] * ((3 * r * c) // 4) + [1] * (r * c - (3 * r * c) // 4)
        fam.append([flat[i * c:(i + 1) * c] for i in range(r)])                                 # two ids, 3:1
        flat = sorted([0] * (r * c // 2) + [j % 5 + 1 for j in range(r * c - r * c // 2)])
        fam.append([flat[i * c:(i + 1) * c] for i in range(r)])                                 # one frequent id + five rare
        fam.append([[0] * c for _ in range(r)])                                                 # one id only
        for t in fam:
            if t not in out:
                out.append(t)
    return out


def outx_cases(tier, seed):
    T = tier == "thorough"
    out = []
    shapes = [(r, c) for r in range(1, 7) for c in range(1, 7) if r * c <= 6]
    for (r, c) in shapes:
        ne = r * c
        npairs = ne * (ne - 1) // 2
        M = npairs + 1
        for flat in itertools.product(range(3), repeat=ne):
            if ne >= 5 and not T and _canonical(flat) != flat:
                continue
            table = [list(flat[i * c:(i + 1) * c]) for i in range(r)]
            d = _depth(flat, c)
            if ne <= 3 or (ne == 4 and (T or ((r, c) == (2, 2) and _canonical(flat) == flat))):
                bound, ffu = None, 6          # every permutation of the exchange list at the first pass
                cost = math.factorial(npairs) * M ** d
            elif ne <= 4:
                bound, ffu = None, 0
                cost = M ** (d + 1)
            elif T:
                bound, ffu = None, 0
                cost = M ** (d + 1)
            else:
                bound, ffu = 1, 0
                cost = M * (1 + d * (M - 1))
            out.append(dict(part="outx", table=table, dtype="int64", rng="Generator", seed=seed, bound=bound,
                            first_full_upto=ffu, _cost=max(1, cost * max(npairs, 1) * (d + 1))))
    # the two non-square 8-entry shapes (ncross > nparent and ncross < nparent; 28 exchange pairs): one table per
    # id-relabelling class over <= 3 ids (1094 per shape).  quick: the 128 classes over <= 2 ids with every answer class of
    # the first pass, the 966 three-id classes with the default answers; thorough: every answer class of the first pass
    # for all of them, and <= 1 deviation in later passes for the classes over <= 2 ids.  The full-neighbourhood local-minimum scan runs on every result.
    witness = (0, 0, 1, 1, 0, 1, 0, 1)          # [[0,0],[1,1],[0,1],[0,1]]: only cross-to-cross exchanges 0<->2.. remove the selfs
    for (r, c) in ((4, 2), (2, 4)):
        M = 29
        for flat in itertools.product(range(3), repeat=8):
            if _canonical(flat) != flat:
                continue
            nid = len(set(flat))
            table = [list(flat[i * c:(i + 1) * c]) for i in range(r)]
            if T and (nid <= 2 or flat == witness):
                bound, ff, cost = 1, 1, M * 40
            elif T or nid <= 2 or flat == witness:
                bound, ff, cost = 0, 1, M * 3
            else:
                bound, ff, cost = 0, 0, 3
            out.append(dict(part="outx", table=table, dtype="int64", rng="Generator", seed=seed, bound=bound,
                            first_full=ff, first_full_upto=0, _cost=cost * 28 * 2))
    # wide tables (nparent >= 3, 12-18 entries, heavy duplication: many improving passes are needed): a covering family
    # under the default answers plus <= 1 deviation (reversal / three rotations of the exchange list at one pass), all seeds
    for table in wide_tables():
        ne = len(table) * len(table[0])
        out.append(dict(part="outx", table=table, dtype="int64", rng="Generator", seed=seed, bound=1, first_full=0,
                        first_full_upto=0, menu="few", _cost=ne * ne * 60))
    # RandomState and another integer dtype on a few tables
    for table in ([[0, 0], [1, 1]], [[0, 0, 1], [1, 2, 2]], [[0, 1], [0, 1], [2, 2]]):
        out.append(dict(part="outx", table=table, dtype="int32", rng="RandomState", seed=seed, bound=1,
                        first_full_upto=0, _cost=2000))
    return out


# ============================================================================
PARTS = {"sus": (sus_cases, sus_case), "tiled": (tiled_cases, tiled_case),
         "axis": (axis_cases, axis_case), "outx": (outx_cases, outx_case)}


def _chunks(cases, nshards, cost=lambda c: c.get("_cost", 1)):
    """Greedy split into contiguous chunks of similar estimated cost (deterministic)."""
    tot = sum(cost(c) for c in cases)
    target = max(1, tot / nshards)
    out, cur, acc = [], [], 0
    for c in cases:
        cur.append(c)
        acc += cost(c)
        if acc >= target:
            out.append(cur)
            cur, acc = [], 0
    if cur:
        out.append(cur)
    return out


def shards(tier, seed):
    T = tier == "thorough"
    plan = {"sus": 120 if T else 48, "tiled": 8 if T else 4, "axis": 24 if T else 8, "outx": 200 if T else 80}
    out = []
    only = os.environ.get("C17_ONLY_PARTS")       # development aid (mutation experiments): default = all four parts
    for part, (gen, _) in PARTS.items():
        if only and part not in only.split(","):
            continue
        cs = gen(tier, seed)
        for ch in _chunks(cs, plan[part]):
            out.append((part, ch))
    # one shard of every function first, so that the few recorded samples span all four functions
    firsts, rest, seen = [], [], set()
    for sp in out:
        (rest if sp[0] in seen else firsts).append(sp)
        seen.add(sp[0])
    return firsts + rest


def run_shard(spec, ctx):
    part, cases = spec
    T = ctx.tier == "thorough"
    ctx.bounds.update({"sus_weights_len_max": 5 if T else 4, "sus_k_max": 8 if T else 6,
                       "tiled_options_max": 5 if T else 4, "tiled_size_max": 10 if T else 9,
                       "axis_shape_max": [3, 3, 2], "outx_entries_max": 6, "outx_entries_4x2_2x4": 8, "outx_wide_family": "3x4,3x6,4x4,2x6 over 2-6 ids, default answers + <=1 deviation", "outx_ids": 3,
                       "outx_later_pass_deviation_bound_5_6_entries": None if T else 1,
                       "outx_tables_5_6_entries": "all 3^n" if T else "one per id-relabelling class",
                       "axis_deviation_bound_when_over_3000_executions": None if T else 3})
    fn = PARTS[part][1]
    for cs in cases:
        fn(ctx, cs)
        if explore.capped:
            ctx.capped.append(f"{part} cap")


def finalize(ctx, tier, seed):
    c = ctx.counters
    if os.environ.get("C17_ONLY_PARTS"):
        return                                     # development runs on a subset of the parts: no vacuity verdict
    for part in PARTS:
        assert c.get(f"{part}:cases", 0) > 0, part
    for kind in ("class", "extreme", "boundary"):
        assert c.get(f"sus:answers:{kind}", 0) > 0, kind
    for zone in ("edge", "interior"):
        assert c.get(f"sus:answers:zone:{zone}", 0) > 0, zone
    for f in ("axis:int-form", "axis:ndim3:naxes2", "axis:ndim2:naxes1", "axis:ndim1:naxes0", "tiled:remainder", "outx:shape:square",
              "outx:shape:ncross>nparent", "outx:shape:ncross<nparent", "outx:wide:3x4", "outx:wide:3x6", "outx:wide:4x4", "outx:wide:2x6",
              "outx:wide:more-passes-than-ncross+1",
              "tiled:two-whole-tiles", "tiled:no-whole-tile"):
        assert f in ctx.flags, f
    # the guards below say "a clean verdict is not vacuous"; they depend on executions that passed the oracle, so they
    # are only demanded when nothing of that function was reported (a run with new violations is not a clean verdict)
    bad = lambda prefix: any(s.startswith(prefix) for s in ctx.violations)
    if not any(s.startswith(SUS) and not s.endswith(EDGE) for s in ctx.violations):
        assert c.get("sus:exact-expectations-verified", 0) > 0
        assert "sus:unequal-counts" in ctx.flags and "sus:non-identity-shuffle" in ctx.flags
    if not bad(OUT):
        assert "outx:two-improving-passes" in ctx.flags and "outx:local-minimum-with-repeats" in ctx.flags
    if not ctx.violations:
        assert len(ctx.outcomes) > 100, len(ctx.outcomes)
        assert len(ctx.nontrivial) > 100, len(ctx.nontrivial)


def replay(case, ctx):
    fn = PARTS[case["part"]][1]
    cs = {k: v for k, v in case.items() if k != "answers"}
    fn(ctx, cs, answers=case.get("answers"))
