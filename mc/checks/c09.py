"""C09 — genotype summary statistics are exact and mutually consistent.

Layer A: every phased genotype matrix {0,1}^(ploidy x n x m) of a small scope, its unphased projection
(built directly and through DenseUnphasedGenotyping.genotype), every summary method in every offered
output dtype, against integer counting / Fractions (mc/ref/genostats.py).
Layer B: every population size n = 1..N plus 2^k-1, 2^k, 2^k+1 up to 131 073, ploidy 1..4, nine locus patterns
(fixed, one copy and two copies from fixation, ...): the exact-0/1 clauses.
"""
from __future__ import annotations
from fractions import Fraction
import numpy

from .. import compat  # noqa: F401
from ..core import Violation, require, digest, same, close
from ..ref import genostats as R

ID = "C09"
TECHNIQUE = ("complete small-scope input enumeration (all 0/1 allele matrices up to the bound, phased and unphased, "
             "all methods x output dtypes) + exhaustive sweep over every population size 1..N, against integer "
             "counting / Fraction reference")
RULE = ("layer A: one case = one phased matrix (ploidy,n,m) in {0,1}, evaluated as DensePhasedGenotypeMatrix, as "
        "DenseGenotypeMatrix built from the projection and via DenseUnphasedGenotyping.genotype(); all of tacount, "
        "tafreq, acount, afreq, afixed, apoly, maf, meh, gtcount, gtfreq x dtype alphabet and the three codings are "
        "compared with the reference; layer B: one case = (ploidy, n) with 9 locus patterns (all-0, all-1, one copy "
        "1, one copy 0, two copies 0, two copies 1, half/half, all-heterozygous, one homozygous taxon) for every n <= N and for "
        "n = 2^k-1, 2^k, 2^k+1 up to 131 073; states = matrices up to taxon order; "
        "non-trivial = at least one polymorphic locus; outcomes = distinct (afreq, gtcount) results")
ASSUME = ["alleles are coded 0/1 (the documented {0,1,2} genotype format); int8 storage",
          "meh and the {-1,0,1} / {-1,m,1} codings are compared by value for ploidy 2 only (their textbook meaning is diploid)",
          "requested dtypes: integer/float for counts, float for frequencies, bool/integer/float for flags",
          "float comparisons rel 1e-9 (float32 requests: 1e-6); exact 0/1 demanded only for frequencies at loci where every copy agrees",
          "mc/compat.py restores removed numpy names only"]

S1 = "@rounded-reciprocal-size"
METHODS = ("tacount", "tafreq", "acount", "afreq", "afixed", "apoly", "maf", "meh", "gtcount", "gtfreq")
FORMATS = ("{0,1,2}", "{-1,0,1}", "{-1,m,1}")


def _classes():
    from pybrops.popgen.gmat.DensePhasedGenotypeMatrix import DensePhasedGenotypeMatrix
    from pybrops.popgen.gmat.DenseGenotypeMatrix import DenseGenotypeMatrix
    from pybrops.breed.prot.gt.DenseUnphasedGenotyping import DenseUnphasedGenotyping
    return DensePhasedGenotypeMatrix, DenseGenotypeMatrix, DenseUnphasedGenotyping


def dtype_alphabet(seed):
    """(counts, frequencies, flags) dtype requests; VERIF_SEED rotates spelling and width, never structure."""
    v = seed % 3
    if v == 0:
        return ([None, "int64", "int32", "float64"], [None, "float64", "float32"], [None, "bool", "int8", "float64"])
    if v == 1:
        return ([None, numpy.int16, numpy.uint8, numpy.float32], [None, numpy.float32, numpy.float64],
                [None, numpy.bool_, numpy.int64, numpy.float32])
    return ([None, numpy.dtype("int8"), numpy.dtype("uint16"), numpy.dtype("float64")],
            [None, numpy.dtype("float64"), numpy.dtype("float32")],
            [None, numpy.dtype("bool"), numpy.dtype("uint8"), numpy.dtype("int32")])


def sweep_dtypes(seed):
    """Layer B requests: default plus one explicit dtype per family, wide enough for counts up to 4*N."""
    v = seed % 3
    return ([None, ("int64", numpy.int32, numpy.dtype("uint32"))[v]],
            [None, ("float64", numpy.float32, numpy.dtype("float64"))[v]],
            [None, ("bool", numpy.int64, numpy.dtype("uint8"))[v]])


def _dtname(dt):
    return "None" if dt is None else numpy.dtype(dt).name


# ----------------------------------------------------------------------------
# scope
def scope(tier):
    """list of (ploidy, n, m) whose 2^(ploidy*n*m) matrices are enumerated completely."""
    sc = []
    for n in (1, 2, 3, 4):
        for m in (1, 2):
            sc.append((2, n, m))
            sc.append((1, n, m))
    for n, m in ((1, 1), (1, 2), (2, 1), (2, 2), (3, 1)):
        sc.append((3, n, m))
    sc.append((4, 1, 1)); sc.append((4, 2, 1))
    if tier == "thorough":
        sc += [(2, 5, 1), (2, 5, 2), (2, 1, 3), (2, 2, 3), (2, 3, 3), (3, 3, 2), (3, 4, 1), (4, 1, 2), (4, 2, 2),
               (1, 5, 2), (1, 4, 3)]
    return sc


def sweep_N(tier):
    return 2100 if tier == "thorough" else 260


SWEEP_PLOIDY = (2, 1, 3, 4)


def shards(tier, seed):
    out = []
    chunk = 16384 if tier == "thorough" else 1024
    small = []
    for (p, n, m) in scope(tier):
        tot = 1 << (p * n * m)
        if tot <= chunk // 4:
            small.append((p, n, m, 0, tot))
            if sum(s[4] - s[3] for s in small) >= chunk // 2:
                out.append(("A", tuple(small))); small = []
            continue
        for lo in range(0, tot, chunk):
            out.append(("A", ((p, n, m, lo, min(tot, lo + chunk)),)))
    if small:
        out.append(("A", tuple(small)))
    K = 24 if tier == "thorough" else 8
    N = sweep_N(tier)
    for k in range(K):
        # interleave so that every shard gets small and large n
        out.append(("B", tuple(n for n in range(1, N + 1) if n % K == k)))
    big = big_sizes(tier)
    for k in range(6):
        out.append(("B", tuple(big[k::6])))
    return out


# ----------------------------------------------------------------------------
# reference assembly
class Ref:
    """Expected arrays for one matrix."""
    __slots__ = ("ploidy", "n", "m", "tac", "taf", "taf0", "taf1", "ac", "af", "fix0", "fix1", "fixed", "maf",
                 "gtc", "gtf", "meh", "c101", "c1m1", "s1", "any_poly")


_COLCACHE = {}


def _colref(col, ploidy):
    key = (ploidy, col)
    r = _COLCACHE.get(key)
    if r is None:
        c = R.column_ref(col, ploidy)
        r = dict(c)
        r["f_taf"] = [float(x) for x in c["tafreq"]]
        r["f_af"] = float(c["afreq"])
        r["f_maf"] = float(c["maf"])
        r["f_gtf"] = [float(x) for x in c["gtfreq"]]
        r["f_c1m1"] = [float(x) for x in c["c1m1"]]
        _COLCACHE[key] = r
    return r


def ref_from_bits(bits, ploidy, n, m):
    cols = []
    for j in range(m):
        col = tuple(tuple(bits[(ph * n + t) * m + j] for ph in range(ploidy)) for t in range(n))
        cols.append(_colref(col, ploidy))
    r = Ref()
    r.ploidy, r.n, r.m = ploidy, n, m
    r.tac = numpy.array([c["tacount"] for c in cols], dtype="int64").T.copy()
    r.taf = numpy.array([c["f_taf"] for c in cols], dtype="float64").T.copy()
    r.taf0 = r.tac == 0
    r.taf1 = r.tac == ploidy
    r.ac = numpy.array([c["acount"] for c in cols], dtype="int64")
    r.af = numpy.array([c["f_af"] for c in cols], dtype="float64")
    r.fix0 = r.ac == 0
    r.fix1 = r.ac == ploidy * n
    r.fixed = numpy.array([c["fixed"] for c in cols], dtype=bool)
    r.maf = numpy.array([c["f_maf"] for c in cols], dtype="float64")
    r.gtc = numpy.array([c["gtcount"] for c in cols], dtype="int64").T.copy()
    r.gtf = numpy.array([c["f_gtf"] for c in cols], dtype="float64").T.copy()
    r.meh = float(R.meh_ref(cols, ploidy))
    r.c101 = numpy.array([c["c101"] for c in cols], dtype="int64").T.copy()
    r.c1m1 = numpy.array([c["f_c1m1"] for c in cols], dtype="float64").T.copy()
    r.s1 = r.fix1 & bool(R.reciprocal_rounds(ploidy * n))
    r.any_poly = not bool(r.fixed.all())
    return r


PATTERNS = ("all0", "all1", "one1", "one0", "half", "allhet", "onehom", "two0", "two1")


def big_sizes(tier):
    """Geometric family of large populations: 2^k - 1, 2^k, 2^k + 1 for k <= 17 (up to 131 073 taxa), beyond the
    contiguous sweep 1..N.  Tolerance-based comparisons (isclose, allclose) on a frequency show only when one copy
    out of >= ~10^5 differs."""
    N = sweep_N(tier)
    return sorted({n for k in range(1, 18) for n in (2 ** k - 1, 2 ** k, 2 ** k + 1) if n > N})


def sweep_matrix(ploidy, n, seed):
    """(mat, Ref) for the locus patterns; the reference is derived in closed form from the pattern definitions
    (counts are known from the construction, not obtained by summing the array)."""
    tstar = (0, n - 1, n // 2)[seed % 3]
    t2 = (tstar + 1) % n
    npat = len(PATTERNS)
    order = [(k + seed) % npat for k in range(npat)]
    m = npat
    mat = numpy.zeros((ploidy, n, m), dtype="int8")
    tac = numpy.zeros((n, m), dtype="int64")
    ac = [0] * m
    for j, pk in enumerate(order):
        pat = PATTERNS[pk]
        if pat == "all1":
            mat[:, :, j] = 1; tac[:, j] = ploidy; ac[j] = ploidy * n
        elif pat == "one1":
            mat[0, tstar, j] = 1; tac[tstar, j] = 1; ac[j] = 1
        elif pat == "one0":
            mat[:, :, j] = 1; mat[ploidy - 1, tstar, j] = 0; tac[:, j] = ploidy; tac[tstar, j] = ploidy - 1
            ac[j] = ploidy * n - 1
        elif pat == "half":
            h = n // 2
            mat[:, :h, j] = 1; tac[:h, j] = ploidy; ac[j] = ploidy * h
        elif pat == "allhet":
            mat[0, :, j] = 1; tac[:, j] = 1; ac[j] = n
        elif pat == "onehom":
            mat[:, tstar, j] = 1; tac[tstar, j] = ploidy; ac[j] = ploidy
        elif pat in ("two0", "two1"):
            # two copies of the other allele, in two different taxa where there are two
            cells = sorted({(ploidy - 1, tstar), (0, t2)})
            v = 0 if pat == "two0" else 1
            if v == 0:
                mat[:, :, j] = 1; tac[:, j] = ploidy
            for (ph, t) in cells:
                mat[ph, t, j] = v
                tac[t, j] += (1 if v else -1)
            ac[j] = (ploidy * n - len(cells)) if v == 0 else len(cells)
    d = ploidy * n
    r = Ref()
    r.ploidy, r.n, r.m = ploidy, n, m
    r.tac = tac
    taf_table = numpy.array([float(Fraction(v, ploidy)) for v in range(ploidy + 1)], dtype="float64")
    r.taf = taf_table[tac]
    r.taf0 = tac == 0
    r.taf1 = tac == ploidy
    r.ac = numpy.array(ac, dtype="int64")
    afq = [Fraction(a, d) for a in ac]
    r.af = numpy.array([float(x) for x in afq], dtype="float64")
    r.fix0 = r.ac == 0
    r.fix1 = r.ac == d
    r.fixed = r.fix0 | r.fix1
    r.maf = numpy.array([float(min(x, 1 - x)) for x in afq], dtype="float64")
    gtc = numpy.zeros((ploidy + 1, m), dtype="int64")
    for j in range(m):
        gtc[:, j] = numpy.bincount(tac[:, j], minlength=ploidy + 1)
    r.gtc = gtc
    r.gtf = numpy.array([[float(Fraction(int(v), n)) for v in row] for row in gtc.tolist()], dtype="float64").reshape(ploidy + 1, m)
    r.meh = float(Fraction(ploidy, m) * sum((x * (1 - x) for x in afq), Fraction(0)))
    r.c101 = tac - 1
    mean101 = numpy.array([float(Fraction(a - n, n)) for a in ac], dtype="float64")
    r.c1m1 = numpy.where(tac == 1, mean101[None, :], (tac - 1).astype("float64"))
    r.s1 = r.fix1 & bool(R.reciprocal_rounds(d))
    r.any_poly = not bool(r.fixed.all())
    if n <= 48:   # harness self-check of the closed forms against literal counting
        lst = mat.tolist()
        for j in range(m):
            assert ac[j] == sum(lst[ph][t][j] for ph in range(ploidy) for t in range(n)), (ploidy, n, j)
            col = [sum(lst[ph][t][j] for ph in range(ploidy)) for t in range(n)]
            assert col == tac[:, j].tolist()
            assert [col.count(k) for k in range(ploidy + 1)] == gtc[:, j].tolist()
    return mat, r


# ----------------------------------------------------------------------------
# oracles (each raises Violation with sig  <Class>.<method>:<kind>[@rounded-reciprocal-size])
def fclose(a, b, rel=1e-9, abs_=1e-12):
    """finite-value closeness (the reference never contains NaN/inf; a NaN result is therefore a mismatch)."""
    a = numpy.asarray(a, dtype="float64")
    if a.shape != numpy.shape(b):
        return False
    return bool((numpy.abs(a - b) <= abs_ + rel * numpy.abs(b)).all())


def _guard(ctx, fn, mkcase, sig_prefix):
    """ctx.guard with the (JSON-able) case built only when something fails."""
    try:
        fn()
        return True
    except Exception as e:      # noqa: BLE001  (classified by ctx.guard)
        def again(e=e):
            raise e
        return ctx.guard(again, case=mkcase(), sig_prefix=sig_prefix)


def _sfx(badcols, ref):
    """The S1 class: failure confined to loci fixed for allele 1 in a population whose 1/(ploidy*n) rounds."""
    bad = numpy.flatnonzero(badcols)
    return S1 if len(bad) and bool(ref.s1[bad].all()) else ""


def _chk_dtype(out, dt, kinds, sig):
    if dt is None:
        require(out.dtype.kind in kinds, sig + "dtype-default", lambda: f"default dtype {out.dtype}, expected kind in {kinds}")
    else:
        require(out.dtype == numpy.dtype(dt), sig + "dtype", lambda: f"dtype {out.dtype}, requested {numpy.dtype(dt)}")


def _chk_arr(out, shape, sig, shape_kind="shape"):
    require(isinstance(out, numpy.ndarray), sig + "type", lambda: f"returned {type(out).__name__}")
    require(out.shape == shape, sig + shape_kind, lambda: f"shape {out.shape}, expected {shape}")


def o_count(out, E, dt, sig):
    _chk_arr(out, E.shape, sig)
    _chk_dtype(out, dt, "iu", sig)
    require(bool(numpy.array_equal(out, E)), sig + "value", lambda: f"got {out.tolist()} expected {E.tolist()}")


def _rel(dt):
    return 1e-6 if dt is not None and numpy.dtype(dt).itemsize <= 4 else 1e-9


def _abs(dt):
    # a float32 request is served by float32 arithmetic on values <= 1 (e.g. maf = 1 - float32(p)): absolute
    # error of a few float32 ulps of 1.0 is inherent to the requested type
    return 3e-7 if dt is not None and numpy.dtype(dt).itemsize <= 4 else 1e-12


def o_freq(out, E, is0, is1, dt, sig, ref, percol, lo=0.0, hi=1.0, zero_kind="zero-iff-all-copies-0",
           one_kind="one-iff-all-copies-1"):
    _chk_arr(out, E.shape, sig)
    _chk_dtype(out, dt, "f", sig)
    o = out.astype("float64")
    colof = (lambda bad: bad.any(axis=0) if bad.ndim == 2 else bad) if percol else (lambda bad: numpy.zeros(ref.m, dtype=bool))
    bad = ~((o >= lo) & (o <= hi))
    if bad.any():
        raise Violation(sig + "range" + _sfx(colof(bad), ref), f"values outside [{lo},{hi}]: {o.tolist()}")
    bad = (o == 0.0) != is0
    if bad.any():
        raise Violation(sig + zero_kind + _sfx(colof(bad), ref),
                        f"exact zeros at {(o == 0.0).tolist()} expected at {is0.tolist()}; values {o.tolist()}")
    if is1 is not None:
        bad = (o == 1.0) != is1
        if bad.any():
            raise Violation(sig + one_kind + _sfx(colof(bad), ref),
                            f"exact ones at {(o == 1.0).tolist()} expected at {is1.tolist()}; values {[repr(float(v)) for v in o.ravel()]}")
    require(fclose(o, E, rel=_rel(dt), abs_=_abs(dt)), sig + "value", lambda: f"got {o.tolist()} expected {E.tolist()}")


def o_flag(out, E, dt, sig, ref):
    _chk_arr(out, E.shape, sig)
    _chk_dtype(out, dt, "b", sig)
    Ex = E if dt is None else E.astype(numpy.dtype(dt))
    bad = ~(out == Ex)
    if bad.any():
        raise Violation(sig + "value" + _sfx(bad, ref), f"got {out.tolist()} expected {Ex.tolist()}")


def o_meh(out, ref, dt, sig):
    require(numpy.ndim(out) == 0, sig + "shape", lambda: f"returned shape {numpy.shape(out)}")
    if dt is not None:
        require(getattr(out, "dtype", None) == numpy.dtype(dt), sig + "dtype", lambda: f"dtype {getattr(out, 'dtype', type(out))}")
    v = float(out)
    require(v >= -1e-12, sig + "negative", lambda: f"{v}")
    if ref.ploidy == 2:
        require(fclose(v, ref.meh, rel=_rel(dt), abs_=_abs(dt)), sig + "value", lambda: f"got {v!r} expected {ref.meh!r}")


def o_gtcount(out, ref, dt, sig):
    require(isinstance(out, numpy.ndarray) and out.ndim == 2, sig + "type", lambda: f"{type(out).__name__} {numpy.shape(out)}")
    require(out.shape[0] == ref.ploidy + 1, sig + "class-rows",
            lambda: f"{out.shape[0]} genotype classes reported for ploidy {ref.ploidy} (expected {ref.ploidy + 1}); got {out.tolist()}")
    _chk_arr(out, ref.gtc.shape, sig)
    _chk_dtype(out, dt, "iu", sig)
    require(bool(numpy.array_equal(out.sum(0), numpy.full(ref.m, ref.n))), sig + "column-sum",
            lambda: f"class counts sum to {out.sum(0).tolist()} for {ref.n} taxa")
    require(bool(numpy.array_equal(out, ref.gtc)), sig + "value", lambda: f"got {out.tolist()} expected {ref.gtc.tolist()}")


def o_gtfreq(out, ref, dt, sig):
    require(isinstance(out, numpy.ndarray) and out.ndim == 2, sig + "type", lambda: f"{type(out).__name__} {numpy.shape(out)}")
    require(out.shape[0] == ref.ploidy + 1, sig + "class-rows",
            lambda: f"{out.shape[0]} genotype classes reported for ploidy {ref.ploidy} (expected {ref.ploidy + 1}); got {out.tolist()}")
    _chk_arr(out, ref.gtf.shape, sig)
    _chk_dtype(out, dt, "f", sig)
    o = out.astype("float64")
    tol = 1e-12 if _rel(dt) < 1e-8 else 1e-6
    require(bool(((o >= 0.0) & (o <= 1.0 + tol)).all()), sig + "range", lambda: f"{o.tolist()}")
    require(bool((numpy.abs(o.sum(0) - 1.0) <= tol * (ref.ploidy + 1)).all()), sig + "column-sum",
            lambda: f"class frequencies sum to {o.sum(0).tolist()}")
    require(bool(((o == 0.0) == (ref.gtc == 0)).all()), sig + "zero-iff-empty-class", lambda: f"{o.tolist()} for counts {ref.gtc.tolist()}")
    require(fclose(o, ref.gtf, rel=_rel(dt), abs_=_abs(dt)), sig + "value", lambda: f"got {o.tolist()} expected {ref.gtf.tolist()}")


def o_format(out, fmt, ref, sig):
    _chk_arr(out, (ref.n, ref.m), sig)
    if fmt == "{0,1,2}":
        require(out.dtype.kind in "iu", sig + "dtype", lambda: f"{out.dtype}")
        require(bool(numpy.array_equal(out, ref.tac)), sig + "value", lambda: f"got {out.tolist()} expected {ref.tac.tolist()}")
    elif fmt == "{-1,0,1}":
        require(out.dtype.kind in "i", sig + "dtype", lambda: f"{out.dtype}")
        require(bool(numpy.array_equal(out, ref.c101)), sig + "value", lambda: f"got {out.tolist()} expected {ref.c101.tolist()}")
    else:
        require(out.dtype.kind == "f", sig + "dtype", lambda: f"{out.dtype}")
        require(fclose(out, ref.c1m1), sig + "value", lambda: f"got {out.tolist()} expected {ref.c1m1.tolist()}")


def check_subject(ctx, X, ref, dts, case, light=False):
    """Run every method x dtype of one matrix object against `ref`.  Returns {(method, dtname): output} of the
    calls that satisfied their own oracle, for the phased/unphased cross-check."""
    cls = type(X).__name__
    cnt, frq, flg = dts
    good = {}
    before = X.mat.copy()

    def run(meth, dt, oracle):
        sig = f"{cls}.{meth}:"
        box = {}

        def body():
            box["o"] = getattr(X, meth)(dt) if dt is not None else getattr(X, meth)()
            ctx.transitions += 1
            oracle(box["o"], sig)
        if _guard(ctx, body, lambda: dict(case, method=meth, dtype=_dtname(dt), subject=cls), sig):
            good[(meth, dt if dt is None or isinstance(dt, str) else numpy.dtype(dt).name)] = box["o"]

    for dt in cnt:
        run("tacount", dt, lambda o, s, dt=dt: o_count(o, ref.tac, dt, s))
        run("acount", dt, lambda o, s, dt=dt: o_count(o, ref.ac, dt, s))
        run("gtcount", dt, lambda o, s, dt=dt: o_gtcount(o, ref, dt, s))
    for dt in frq:
        run("tafreq", dt, lambda o, s, dt=dt: o_freq(o, ref.taf, ref.taf0, ref.taf1, dt, s, ref, False))
        run("afreq", dt, lambda o, s, dt=dt: o_freq(o, ref.af, ref.fix0, ref.fix1, dt, s, ref, True))
        run("maf", dt, lambda o, s, dt=dt: o_freq(o, ref.maf, ref.fixed, None, dt, s, ref, True, hi=0.5,
                                                      zero_kind="zero-iff-fixed"))
        run("gtfreq", dt, lambda o, s, dt=dt: o_gtfreq(o, ref, dt, s))
        run("meh", dt, lambda o, s, dt=dt: o_meh(o, ref, dt, s))
    for dt in flg:
        run("afixed", dt, lambda o, s, dt=dt: o_flag(o, ref.fixed, dt, s, ref))
        run("apoly", dt, lambda o, s, dt=dt: o_flag(o, ~ref.fixed, dt, s, ref))

    # the fixation flag is the exact complement of the polymorphism flag (stated on its own in the property)
    def compl():
        a = numpy.asarray(X.afixed()).astype(bool)
        b = numpy.asarray(X.apoly()).astype(bool)
        ctx.transitions += 2
        bad = ~(a == ~b)
        if bad.any():
            raise Violation(f"{cls}.afixed-vs-apoly:not-complementary" + _sfx(bad, ref), f"afixed {a.tolist()} apoly {b.tolist()}")
    _guard(ctx, compl, lambda: dict(case, method="afixed-vs-apoly", subject=cls), f"{cls}.afixed-vs-apoly:")

    if not light:
        for fmt in FORMATS:
            if fmt != "{0,1,2}" and ref.ploidy != 2:
                continue
            sig = f"{cls}.mat_asformat[{fmt}]:"
            box = {}

            def body(fmt=fmt, sig=sig):
                box["o"] = X.mat_asformat(fmt)
                ctx.transitions += 1
                o_format(box["o"], fmt, ref, sig)
            if _guard(ctx, body, lambda fmt=fmt: dict(case, method="mat_asformat", format=fmt, subject=cls), sig):
                good[("mat_asformat", fmt)] = box["o"]
    if not numpy.array_equal(X.mat, before):
        ctx.violation(f"{cls}:input-mutated", "a summary method changed the genotype matrix", dict(case, subject=cls))
    return good


def cross_check(ctx, gp, gu, case):
    """phased matrix and unphased projection give identical answers (ints/flags exactly, floats 1e-9)."""
    n = 0
    for key in gp:
        if key not in gu:
            continue
        a, b = gp[key], gu[key]

        def body(a=a, b=b, key=key):
            sig = f"phased-vs-unphased.{key[0]}:"
            require(numpy.shape(a) == numpy.shape(b), sig + "shape", lambda: f"{numpy.shape(a)} vs {numpy.shape(b)}")
            ka, kb = numpy.asarray(a).dtype.kind, numpy.asarray(b).dtype.kind
            require(ka == kb or {ka, kb} <= set("iu"), sig + "dtype-kind", lambda: f"{numpy.asarray(a).dtype} vs {numpy.asarray(b).dtype}")
            if ka == "f":
                big = numpy.asarray(a).dtype.itemsize > 4
                require(fclose(a, b, rel=1e-9 if big else 1e-6, abs_=1e-12 if big else 3e-7), sig + "value", lambda: f"{a} vs {b}")
            else:
                require(bool(numpy.array_equal(a, b)), sig + "value", lambda: f"{a} vs {b}")
        if _guard(ctx, body, lambda key=key: dict(case, method=key[0], dtype=str(key[1]), subject="phased-vs-unphased"),
                  f"phased-vs-unphased.{key[0]}:"):
            n += 1
    return n


# ----------------------------------------------------------------------------
def labels(n, m, seed):
    tag = ("t", "line", "Z")[seed % 3]
    return dict(
        taxa=numpy.array([f"{tag}{i}" for i in range(n)], dtype=object),
        taxa_grp=numpy.array([i // 2 for i in range(n)], dtype="int64"),
        vrnt_chrgrp=numpy.array([1 + (j // 2) for j in range(m)], dtype="int64"),
        vrnt_phypos=numpy.array([10 * (j + 1) for j in range(m)], dtype="int64"),
        vrnt_name=numpy.array([f"snp{j}" for j in range(m)], dtype=object),
    )


def run_matrix(ctx, mat, ref, dts, case, light=False, with_labels=True, use_genotyped=False):
    P, G, GT = _classes()
    ploidy, n, m = mat.shape
    lab = labels(n, m, ctx.seed) if with_labels else {}
    ctx.evaluations += 1
    nviol = sum(v["count"] for v in ctx.violations.values())
    box = {}

    def build():
        box["p"] = P(mat.copy(), **lab)
        box["u"] = G(mat.sum(0, dtype="int8"), ploidy=ploidy, **lab)
    if not ctx.guard(build, case=dict(case, method="__init__"), sig_prefix="construct:"):
        return
    p, u = box["p"], box["u"]

    # DenseUnphasedGenotyping.genotype: projection, ploidy and labels carried over
    def geno():
        g = GT().genotype(p)
        ctx.transitions += 1
        S = "DenseUnphasedGenotyping.genotype:"
        require(type(g) is G, S + "type", lambda: type(g).__name__)
        require(g.mat.dtype == numpy.dtype("int8") and bool(numpy.array_equal(g.mat, ref.tac)), S + "projection",
                lambda: f"mat {g.mat.tolist()} expected {ref.tac.tolist()}")
        require(g.ploidy == ploidy, S + "ploidy", lambda: f"ploidy {g.ploidy} of a projection of a ploidy-{ploidy} matrix")
        require(g.nphase == 0, S + "nphase", lambda: f"nphase {g.nphase}")
        for f in lab:
            require(same(getattr(g, f), lab[f]), S + "label:" + f, lambda: f"{f}: {getattr(g, f)} expected {lab[f]}")
        require(bool(numpy.array_equal(p.mat, mat)), S + "input-mutated", "genotype() changed the phased matrix")
        box["g"] = g
    ctx.guard(geno, case=dict(case, method="genotype"), sig_prefix="DenseUnphasedGenotyping.genotype:")

    # input-state variants of the projection path: phased input WITH variant metadata that is (a) grouped,
    # (b) ungrouped but sorted [= p above], (c) ungrouped and stored UNSORTED (markers out of chromosome/position
    # order).  The projection must match the phased matrix position by position, labels in the input's order.
    def geno_variants():
        S = "DenseUnphasedGenotyping.genotype"
        rev = {k: (v[::-1].copy() if k.startswith("vrnt_") else v) for k, v in lab.items()}
        for state in ("grouped", "ungrouped-unsorted"):
            pv = P(mat.copy(), **rev)
            if state == "grouped":
                pv.group_vrnt()                       # sorts the phased matrix itself; it is then the input as given
                require(pv.is_grouped_vrnt(), "harness:group_vrnt", "phased input not grouped")
            in_mat = pv.mat.copy()
            in_lab = {f: (None if getattr(pv, f) is None else getattr(pv, f).copy()) for f in lab}
            g = GT().genotype(pv)
            ctx.transitions += 1
            ctx.count(f"genotype-input-state:{state}")
            tag = f"{S}[{state}]:"
            require(bool(numpy.array_equal(pv.mat, in_mat)), tag + "input-mutated", "genotype() changed the phased matrix")
            exp = in_mat.sum(0)
            require(g.mat.shape == exp.shape and bool(numpy.array_equal(g.mat, exp)), tag + "projection",
                    lambda: f"projection {g.mat.tolist()} expected {exp.tolist()} (input variant labels {in_lab['vrnt_chrgrp'].tolist()}, {in_lab['vrnt_phypos'].tolist()})")
            for f in in_lab:
                require(same(getattr(g, f), in_lab[f]), tag + "label:" + f,
                        lambda: f"{f}: {getattr(g, f)} expected (input order) {in_lab[f]}")
            for meth in ("acount", "afreq", "maf", "apoly", "afixed", "tacount"):
                a, b = getattr(g, meth)(), getattr(pv, meth)()
                ctx.transitions += 2
                require(numpy.shape(a) == numpy.shape(b) and bool(numpy.allclose(a, b, rtol=1e-9, atol=1e-12)),
                        f"phased-vs-unphased.{meth}[{state}]:value", lambda: f"projection {numpy.asarray(a).tolist()} phased {numpy.asarray(b).tolist()}")
    if with_labels and m >= 2:
        _guard(ctx, geno_variants, lambda: dict(case, method="genotype-input-states"), "DenseUnphasedGenotyping.genotype:")

    def props():
        require(p.ploidy == ploidy and p.nphase == ploidy, "DensePhasedGenotypeMatrix.ploidy:value", lambda: f"{p.ploidy},{p.nphase}")
        require(u.ploidy == ploidy and u.nphase == 0, "DenseGenotypeMatrix.ploidy:value", lambda: f"{u.ploidy},{u.nphase}")
        require(p.ntaxa == n and u.ntaxa == n and p.nvrnt == m and u.nvrnt == m, "GenotypeMatrix.ntaxa-nvrnt:value",
                lambda: f"{p.ntaxa},{u.ntaxa},{p.nvrnt},{u.nvrnt}")
    ctx.guard(props, case=dict(case, method="ploidy"), sig_prefix="properties:")

    gp = check_subject(ctx, p, ref, dts, case, light)
    if sum(v["count"] for v in ctx.violations.values()) == nviol:
        ctx.traces += 1                                  # phased subject agreed with the reference in every method
    nviol = sum(v["count"] for v in ctx.violations.values())
    # unphased subject: alternately the object returned by genotype() and the directly constructed one
    subj_u = box.get("g", u) if use_genotyped else u
    ctx.count("unphased-subject:" + ("genotype()" if subj_u is not u else "constructed"))
    gu = check_subject(ctx, subj_u, ref, dts, case, light)
    if sum(v["count"] for v in ctx.violations.values()) == nviol:
        ctx.traces += 1                                  # unphased subject agreed
    ncross = cross_check(ctx, gp, gu, case)
    ctx.count("cross-checked-results", ncross)
    return gp


def canon_key(bits, ploidy, n, m):
    inds = sorted(tuple(bits[(ph * n + t) * m + j] for ph in range(ploidy) for j in range(m)) for t in range(n))
    return digest((ploidy, n, m, tuple(inds)))


def run_A(ctx, ploidy, n, m, lo, hi, dts):
    nb = ploidy * n * m
    for code in range(lo, hi):
        bits = [(code >> i) & 1 for i in range(nb)]
        mat = numpy.array(bits, dtype="int8").reshape(ploidy, n, m)
        ref = ref_from_bits(bits, ploidy, n, m)
        case = dict(layer="A", ploidy=ploidy, n=n, m=m, code=code, seed=ctx.seed)
        gp = run_matrix(ctx, mat, ref, dts, case, use_genotyped=(sum(bits) % 2 == 0))
        key = canon_key(bits, ploidy, n, m)
        ctx.state(key)
        if ref.any_poly:
            ctx.nontriv(key)
        ctx.outcome(digest((ref.n, ref.ploidy, tuple(ref.ac.tolist()), ref.gtc)))
        ctx.count(f"A:matrices:ploidy{ploidy}")
        if ref.fixed.any():
            ctx.flag("A:fixed-locus")
        if ref.any_poly:
            ctx.flag("A:polymorphic-locus")
        if (ref.tac == 1).any() and ploidy == 2:
            ctx.flag("A:heterozygote")
        if gp and code % 9973 == 1 and ploidy == 2:
            ctx.sample(dict(case, mat=mat.tolist(), afreq=ref.af.tolist(), gtcount=ref.gtc.tolist(), meh=ref.meh,
                            fixed=ref.fixed.tolist()))


def run_B(ctx, ns, dts):
    light = sweep_dtypes(ctx.seed)
    for n in ns:
        for ploidy in SWEEP_PLOIDY:
            mat, ref = sweep_matrix(ploidy, n, ctx.seed)
            case = dict(layer="B", ploidy=ploidy, n=n, seed=ctx.seed)
            run_matrix(ctx, mat, ref, light, case, light=(ploidy != 2), with_labels=(n <= 8), use_genotyped=(n % 2 == 0))
            ctx.state(digest(("B", ploidy, n)))
            ctx.nontriv(digest(("B", ploidy, n)))
            ctx.outcome(digest((ploidy, tuple(ref.ac.tolist()), ref.gtc)))
            ctx.count("B:sizes")
            if R.reciprocal_rounds(ploidy * n):
                ctx.count("B:sizes-with-rounded-reciprocal")
                if ploidy == 2:
                    ctx.flag(f"B:rounding-n{n}" if n in (49, 98, 103, 107) else "B:rounding-n-other")
            if n == 1:
                ctx.flag("B:n1")
            if n >= 65535:
                ctx.flag("B:size>=65535")


def run_shard(spec, ctx):
    dts = dtype_alphabet(ctx.seed)
    ctx.bounds.update({"layerA_scope(ploidy,n,m)": [list(s) for s in scope(ctx.tier)], "layerB_N": sweep_N(ctx.tier), "layerB_big_sizes": big_sizes(ctx.tier),
                       "layerB_ploidy": list(SWEEP_PLOIDY), "layerB_patterns": list(PATTERNS),
                       "dtypes": [[_dtname(d) for d in g] for g in dts]})
    if spec[0] == "A":
        for (p, n, m, lo, hi) in spec[1]:
            run_A(ctx, p, n, m, lo, hi, dts)
    else:
        run_B(ctx, spec[1], dts)
    for cls in ("DensePhasedGenotypeMatrix", "DenseGenotypeMatrix"):
        ctx.flag("subject:" + cls)


def finalize(ctx, tier, seed):
    exp = sum(1 << (p * n * m) for (p, n, m) in scope(tier))
    got = sum(v for k, v in ctx.counters.items() if k.startswith("A:matrices:"))
    assert got == exp, (got, exp)
    nB = sweep_N(tier) + len(big_sizes(tier))
    assert ctx.counters.get("B:sizes", 0) == nB * len(SWEEP_PLOIDY)
    assert "B:size>=65535" in ctx.flags
    for f in ("A:fixed-locus", "A:polymorphic-locus", "A:heterozygote", "B:n1",
              "B:rounding-n49", "B:rounding-n98", "B:rounding-n103", "B:rounding-n107"):
        assert f in ctx.flags, f
    assert ctx.counters.get("B:sizes-with-rounded-reciprocal", 0) >= 20
    assert len(ctx.outcomes) > 200, len(ctx.outcomes)
    assert ctx.counters.get("cross-checked-results", 0) > 0
    for st in ("grouped", "ungrouped-unsorted"):
        assert ctx.counters.get(f"genotype-input-state:{st}", 0) > 1000, st
    assert ctx.evaluations == exp + nB * len(SWEEP_PLOIDY)


def replay(case, ctx):
    seed = case.get("seed", ctx.seed)
    ctx.seed = seed
    dts = dtype_alphabet(seed)
    if case["layer"] == "A":
        ploidy, n, m, code = case["ploidy"], case["n"], case["m"], case["code"]
        nb = ploidy * n * m
        bits = [(code >> i) & 1 for i in range(nb)]
        mat = numpy.array(bits, dtype="int8").reshape(ploidy, n, m)
        ref = ref_from_bits(bits, ploidy, n, m)
        c = {k: case[k] for k in ("layer", "ploidy", "n", "m", "code", "seed") if k in case}
        run_matrix(ctx, mat, ref, dts, c, use_genotyped=(sum(bits) % 2 == 0))
    else:
        light = sweep_dtypes(seed)
        ploidy, n = case["ploidy"], case["n"]
        mat, ref = sweep_matrix(ploidy, n, seed)
        c = dict(layer="B", ploidy=ploidy, n=n, seed=seed)
        run_matrix(ctx, mat, ref, light, c, light=(ploidy != 2), with_labels=(n <= 8), use_genotyped=(n % 2 == 0))
