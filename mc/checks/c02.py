"""C02 — realised recombination and segregation match the crossover probabilities.

EXACT probabilistic enumeration: every uniform(0,1) cell drawn by a meiosis is a choice point whose answer
classes ("below the threshold" / "not below") carry their exact probability as a Fraction; summing the weights of
all executions gives the implementation's exact distribution of gamete / progeny provenance, which is compared
with the distribution *declared* by vrnt_xoprob (and, for maps, by the map function).  No sampling, no statistics.
"""
from __future__ import annotations
import importlib
import itertools
import math
from fractions import Fraction
import numpy

from .. import compat  # noqa: F401
from ..core import Violation, require, digest
from ..env import ScriptedGenerator, ScriptedRandomState, MeiosisHandler, threshold_menu
from ..explore import explore, Chooser
from ..fix import prov_pgmat
from ..ref import meiosis as R
from ..ref import mating as RM

ID = "C02"
TECHNIQUE = ("exact probabilistic enumeration: all answer classes of every uniform() cell with exact Fraction weights "
             "(stateless DFS with prefix replay); the summed weights are the implementation's exact provenance distribution, "
             "compared with the law declared by vrnt_xoprob / the Haldane map function; boundary answers (rnd == xoprob, 0, "
             "1-2^-53) decide strictness of the comparison")
RULE = ("one execution = one answer class for every uniform(0,1) cell of one call (mat_meiosis/dense_meiosis/mat_dh/dense_dh/"
        "mat_mate/dense_cross, mate() of one of the 7 protocols, or DenseExpectedMaximumBreedingValueMatrix.from_gmod), weight = product of class probabilities; per configuration "
        "ALL classes are run (2^cells when 0<xoprob<1), so the weights sum to exactly 1. gamete layer: all xoprob vectors of "
        "length <= m over a 5-value alphabet {0,a,b,1/2,1}, 1 and 2 gametes; boundary layer: weight-0 answers (==threshold, 0.0, "
        "largest double below 1) in lock-step with the declared flags; map layer: real interp_xoprob(StandardGeneticMap, "
        "Haldane|Kosambi) incl. non-consecutive chromosome labels and matrices already placed on another map; EMBV layer: the DH gametes "
        "simulated inside from_gmod (global generator scripted) for every het/hom pattern of 3 loci; cross layer: end-to-end progeny law of every protocol against the composed reference law. "
        "non-trivial = a configuration with at least one 0<xoprob<1 cell; distinct by digest of (configuration, answers)")
ASSUME = ["numpy's uniform(0,1) is uniform on the multiples of 2^-53 in [0,1): P(rnd < p) = p for every double p that is a "
          "multiple of 2^-53, and differs from p by < 2^-53 otherwise (class weights use the exact value of the double p)",
          "mc/compat.py restores removed numpy names only",
          "diploid parents"]

PFX = "meiosis:"


def _import(path, name):
    return getattr(importlib.import_module(path), name)


FUNCS = {
    "mat_meiosis": ("pybrops.breed.prot.mate.util", "mat_meiosis"),
    "mat_dh": ("pybrops.breed.prot.mate.util", "mat_dh"),
    "mat_mate": ("pybrops.breed.prot.mate.util", "mat_mate"),
    "dense_meiosis": ("pybrops.core.util.mate", "dense_meiosis"),
    "dense_dh": ("pybrops.core.util.mate", "dense_dh"),
    "dense_cross": ("pybrops.core.util.mate", "dense_cross"),
}


def xo_alphabet(seed):
    return [[0.0, 0.1, 0.25, 0.5, 1.0], [0.0, 0.3, 0.125, 0.5, 1.0], [0.0, 0.001, 0.75, 0.5, 1.0]][seed % 3]


def q_value(seed):
    return [0.25, 0.1, 0.375][seed % 3]


def coded_geno(n, m, seed, shift=0):
    """(2,n,m) int8 whose cell value names (taxon, copy, marker); returns (geno, decode)."""
    v = seed % 3
    geno = numpy.empty((2, n, m), dtype="int8")
    decode = {}
    for t in range(n):
        for c in range(2):
            for j in range(m):
                x = (t * 2 + c) * m + j + shift
                code = [x, x - 60, 120 - x][v]
                assert -128 <= code <= 127 and code not in decode
                geno[c, t, j] = code
                decode[code] = (t, c, j)
    return geno, decode


def _trim(taken):
    t = list(taken)
    while t and t[-1] == 0:
        t.pop()
    return t


def _mkrng(h, kind):
    return ScriptedRandomState(h) if kind == "RandomState" else ScriptedGenerator(h)


# ============================================================================
# exact-law oracles on a distribution over source-copy vectors
def check_gamete_law(dist, x, starts, sig, what):
    """dist: {tuple of copy indices per marker: Fraction}; x: declared probabilities (Fractions);
    starts: marker indices that begin a chromosome (x there is the start-copy probability)."""
    m = len(x)
    tot = sum(dist.values())
    require(tot == 1, "harness:weights", f"{what}: class weights sum to {tot}")
    P = lambda pred: sum(w for g, w in dist.items() if pred(g))
    # start copy
    got = P(lambda g: g[0] == 1)
    require(got == x[0], sig + "start-copy-probability",
            f"{what}: P(first marker from copy 1) = {got} (= {float(got)!r}), declared xoprob[0] = {float(x[0])!r}")
    # adjacent markers
    for j in range(1, m):
        got = P(lambda g: g[j] != g[j - 1])
        require(got == x[j], sig + "adjacent-recombination",
                f"{what}: P(markers {j-1},{j} from different copies) = {got} (= {float(got)!r}), declared xoprob[{j}] = "
                f"{float(x[j])!r}; xoprob = {[float(v) for v in x]}")
    # independence of crossover events in different intervals: the joint law of the indicators is the product law
    zdist = {}
    for g, w in dist.items():
        z = tuple(g[j] ^ (g[j - 1] if j else 0) for j in range(m))
        zdist[z] = zdist.get(z, 0) + w
    exp = R.crossover_law(x)
    if zdist != exp:
        bad = next(z for z in sorted(set(zdist) | set(exp)) if zdist.get(z, 0) != exp.get(z, 0))
        require(False, sig + "crossovers-not-independent",
                f"{what}: joint law of the crossover indicators is not the product of the declared probabilities: "
                f"P(z={bad}) = {zdist.get(bad, 0)} expected {exp.get(bad, 0)}; xoprob = {[float(v) for v in x]}")
    # the statement's corollaries, checked on the enumerated law itself
    if all(x[s] == Fraction(1, 2) for s in starts):
        for j in range(m):
            got = P(lambda g: g[j] == 1)
            require(got == Fraction(1, 2), sig + "segregation-not-half",
                    f"{what}: copy 1 is transmitted at marker {j} with probability {got}, xoprob is 1/2 at every chromosome start")
        for a, b in itertools.combinations(starts, 2):
            for va, vb in itertools.product((0, 1), repeat=2):
                got = P(lambda g: g[a] == va and g[b] == vb)
                require(got == Fraction(1, 4), sig + "chromosomes-not-independent",
                        f"{what}: P(marker {a} from copy {va}, marker {b} from copy {vb}) = {got}, expected 1/4")
    for i, j in itertools.combinations(range(m), 2):
        got = P(lambda g: g[i] != g[j])
        require(got == R.recomb(x, i, j), sig + "pairwise-recombination",
                f"{what}: P(markers {i},{j} recombinant) = {got}, composition of the declared adjacent probabilities gives "
                f"{R.recomb(x, i, j)}")


def check_product(joint, nparts, sig, what):
    """joint over tuples of length nparts must be the product of its marginals."""
    margs = []
    for k in range(nparts):
        mk = {}
        for key, w in joint.items():
            mk[key[k]] = mk.get(key[k], 0) + w
        margs.append(mk)
    for combo in itertools.product(*[list(mk.items()) for mk in margs]):
        key = tuple(c[0] for c in combo)
        pr = Fraction(1)
        for c in combo:
            pr *= c[1]
        require(joint.get(key, 0) == pr, sig, f"{what}: P{key} = {joint.get(key, 0)}, product of the marginals = {pr}")
    return margs


# ============================================================================
# layer A: gamete law of the six matrix-level functions
def gamete_case(ctx, cs, answers=None):
    fnname = cs["fn"]
    fn = _import(*FUNCS[fnname])
    xop = [float(v) for v in cs["xop"]]
    m = len(xop)
    x = [R.F(v) for v in xop]
    starts = cs.get("starts", [0])
    seed = cs["seed"]
    geno, decode = coded_geno(2, m, seed)
    geno2, decode2 = coded_geno(2, m, seed, shift=4 * m)
    xo_arr = numpy.array(xop, dtype="float64")
    sel = list(cs["sel"])
    two_sided = fnname in ("mat_mate", "dense_cross")
    is_dh = fnname in ("mat_dh", "dense_dh")
    sig = f"{fnname}:"
    g0 = geno.copy()

    def run(ch):
        h = MeiosisHandler(ch, xop, mode=cs.get("mode", "classes"))
        rng = _mkrng(h, cs.get("rng", "Generator"))
        s = numpy.array(sel, dtype="int64")
        try:
            if two_sided:
                out = fn(geno, geno2, s, s[::-1].copy(), xo_arr, rng)
            else:
                out = fn(geno, s, xo_arr, rng)
            exc = None
        except Exception as ex:
            out, exc = None, ex
        return out, exc, h

    dist = {}
    complete = True
    lock = cs.get("mode", "classes") == "full"
    for ch, (out, exc, h) in _drive(run, answers, cs.get("bound")):
        ctx.evaluations += 1
        ctx.transitions += 1
        case = dict(cs, answers=_trim(ch.taken))
        res = {}
        ok = ctx.guard(lambda: gamete_exec_oracle(cs, sig, geno, g0, geno2, decode, decode2, sel, m, xop, two_sided, is_dh,
                                                  out, exc, h, lock, res), case=case, sig_prefix=sig)
        if lock:
            ctx.count("boundary:executions")
            if ch.weight == 0:
                ctx.count("boundary:weight-0-answers-exercised")
        if ok:
            ctx.traces += 1
            key = res["prov"]
            dist[key] = dist.get(key, 0) + ch.weight
            ctx.outcome(digest((fnname, key)))
            if any(0.0 < v < 1.0 for v in xop):
                ctx.nontriv(digest((fnname, cs["xop"], cs["sel"], case["answers"])))
        else:
            complete = False
        if ctx.evaluations in (40, 3000) and ok:
            ctx.sample(dict(case, weight=str(ch.weight), gamete_source_copies=[list(g) for g in res["prov"]]))
    ctx.state(digest((fnname, cs["xop"], cs["sel"], cs.get("mode"))))
    ctx.count(f"gamete:{fnname}:configs")
    if lock:
        return
    if answers is not None or not complete:
        return

    def law():
        what = f"{fnname}(sel={sel}, xoprob={xop})"
        ng = len(next(iter(dist)))
        margs = check_product(dist, ng, sig + "gametes-not-independent", what) if ng > 1 else \
            [{k[0]: w for k, w in dist.items()}]
        for gi, mk in enumerate(margs):
            check_gamete_law(mk, x, starts, sig, f"{what} gamete {gi}")
    if ctx.guard(law, case=dict(cs, answers=None), sig_prefix=sig):
        ctx.count("exact-laws-verified")
        ctx.count("exact-probabilities-compared", len(dist))


def gamete_exec_oracle(cs, sig, geno, g0, geno2, decode, decode2, sel, m, xop, two_sided, is_dh, out, exc, h, lock, res):
    if exc is not None:
        raise exc
    require(numpy.array_equal(geno, g0), sig + "input-mutated", "the parental genotype array was modified")
    ng = len(sel)
    # exactly one uniform(0,1) draw per gamete per marker
    shapes = [d[0] for d in h.draws]
    exp_shapes = [(ng, m)] * (2 if two_sided else 1)
    require(shapes == exp_shapes, sig + "draws",
            f"uniform() was called with shapes {shapes}; one draw per gamete per marker means {exp_shapes}")
    if two_sided:
        require(out.shape == (2, ng, m), sig + "shape", f"{out.shape}")
        rows = [(out[0, i], decode, sel[i]) for i in range(ng)] + [(out[1, i], decode2, sel[::-1][i]) for i in range(ng)]
    elif is_dh:
        require(out.shape == (2, ng, m), sig + "shape", f"{out.shape}")
        require(numpy.array_equal(out[0], out[1]), sig + "dh-heterozygous", "doubled haploid copies differ")
        rows = [(out[0, i], decode, sel[i]) for i in range(ng)]
    else:
        require(out.shape == (ng, m), sig + "shape", f"{out.shape}")
        rows = [(out[i], decode, sel[i]) for i in range(ng)]
    require(out.dtype == geno.dtype, sig + "dtype", f"{out.dtype}")
    prov = []
    for r, (row, dec, taxon) in enumerate(rows):
        src = []
        for j in range(m):
            v = int(row[j])
            require(v in dec, sig + "alien-allele", f"gamete {r} marker {j} carries {v}")
            t, c, jj = dec[v]
            require(t == taxon, sig + "wrong-individual", f"gamete {r} marker {j} comes from taxon {t}, meiosis of taxon {taxon}")
            require(jj == j, sig + "marker-shift", f"gamete {r} marker {j} holds the allele of marker {jj}")
            src.append(c)
        prov.append(tuple(src))
    res["prov"] = tuple(prov)
    if lock:
        # boundary answers: the declared flag of each answer (value < xoprob, strict) decides the source copy
        flags = numpy.concatenate([d[2] for d in h.draws], axis=0)
        vals = numpy.concatenate([d[1] for d in h.draws], axis=0)
        for r in range(len(rows)):
            ph, exp = 0, []
            for j in range(m):
                if flags[r, j]:
                    ph ^= 1
                exp.append(ph)
            require(tuple(exp) == prov[r], sig + "strict-comparison",
                    f"gamete {r}: draws {vals[r].tolist()} against xoprob {xop}: a crossover must happen exactly where "
                    f"draw < xoprob, i.e. source copies {exp}; got {list(prov[r])}")


def _drive(run, answers, bound=None):
    if answers is not None:
        ch = Chooser(answers)
        return [(ch, run(ch))]
    return explore(run, bound=bound)


def gamete_cases(tier, seed):
    T = tier == "thorough"
    A = xo_alphabet(seed)
    out = []
    mmax = 6 if T else 5
    for fn in ("mat_meiosis", "dense_meiosis"):
        for m in range(1, mmax + 1):
            for vec in itertools.product(A, repeat=m):
                # the longest vectors of a tier: start on 1/2 or a, (and for m = 6 end on a, b or 1)
                if m == mmax and not (vec[0] in (0.5, A[1])):
                    continue
                if m == 6 and vec[-1] not in (A[1], A[2], 1.0):
                    continue
                out.append(dict(part="gamete", fn=fn, xop=list(vec), sel=[1], seed=seed, _cost=2 ** m))
        # two gametes: same individual twice, and two individuals
        for m in range(1, 4):
            for vec in itertools.product(A, repeat=m):
                for sel in ([1, 1], [0, 1]):
                    if sel == [0, 1] and not T and m == 3:
                        continue
                    out.append(dict(part="gamete", fn=fn, xop=list(vec), sel=sel, seed=seed, _cost=4 ** m))
        if T:
            for vec in itertools.product([A[1], A[2], A[3]], repeat=2):
                out.append(dict(part="gamete", fn=fn, xop=list(vec), sel=[1, 0, 1], seed=seed, _cost=64))
        # RandomState
        for vec in itertools.product(A, repeat=2):
            out.append(dict(part="gamete", fn=fn, xop=list(vec), sel=[1], rng="RandomState", seed=seed, _cost=4))
    for fn in ("mat_dh", "dense_dh", "mat_mate", "dense_cross"):
        for m in range(1, 4):
            for vec in itertools.product(A, repeat=m):
                sels = ([1], [1, 0]) if fn.endswith("dh") else ([1],)
                for sel in sels:
                    if len(sel) == 2 and m == 3 and not T:
                        continue
                    out.append(dict(part="gamete", fn=fn, xop=list(vec), sel=sel, seed=seed,
                                    _cost=(4 if not fn.endswith("dh") else 2 ** len(sel)) ** m))
        if fn in ("mat_mate", "dense_cross"):
            for vec in itertools.product([A[1], A[3], A[4]], repeat=2):
                out.append(dict(part="gamete", fn=fn, xop=list(vec), sel=[1, 0], seed=seed, _cost=256))
    # chromosome layouts: 0.5 at every chromosome start (the corollaries of the statement)
    layouts = [([0.5, A[1], 0.5, A[2]], [0, 2]), ([0.5, 0.5, A[1]], [0, 1]), ([0.5, A[2], A[1], 0.5], [0, 3]),
               ([0.5, 0.5, 0.5], [0, 1, 2]), ([0.5, 0.0, 0.5, 1.0], [0, 2])]
    if T:
        layouts += [([0.5, A[1], A[2], 0.5, A[1], 0.5], [0, 3, 5]), ([0.5, A[2], 0.5, A[2], 0.5, A[2]], [0, 2, 4])]
    for fn in ("mat_meiosis", "dense_meiosis"):
        for xop, starts in layouts:
            out.append(dict(part="gamete", fn=fn, xop=xop, sel=[1], starts=starts, seed=seed, _cost=2 ** len(xop)))
    # boundary layer: weight-0 answers, lock-step with the declared strict comparison
    for fn in ("mat_meiosis", "dense_meiosis", "mat_dh", "dense_cross"):
        for m in (1, 2, 3):
            for vec in itertools.product(A, repeat=m):
                full = m <= 2
                if not full and not T and fn not in ("mat_meiosis", "dense_meiosis"):
                    continue
                out.append(dict(part="gamete", fn=fn, xop=list(vec), sel=[1, 0] if m == 1 else [1], mode="full",
                                bound=None if full else 2, seed=seed, _cost=4 ** m if full else 30))
    return out


# ============================================================================
# layer C: crossover probabilities assigned from a genetic map
MAPS = [
    # (chromosome groups, physical positions, genetic positions in Morgans) of the MAP; then the markers of the matrix
    dict(name="two-chrom", chr=[1, 1, 1, 2, 2], phy=[10, 20, 40, 5, 15], gen=[0.0, 0.1, 0.5, 0.0, 0.3],
         mchr=[1, 1, 1, 1, 2, 2], mphy=[10, 15, 20, 40, 5, 15]),
    dict(name="coincident-and-far", chr=[1, 1, 1, 1], phy=[1, 2, 3, 4], gen=[0.0, 0.25, 0.25, 3.0],
         mchr=[1, 1, 1, 1], mphy=[1, 2, 3, 4]),
    dict(name="three-chrom", chr=[1, 1, 2, 2, 3, 3], phy=[100, 300, 50, 250, 10, 20], gen=[0.05, 0.45, 0.0, 1.0, 0.2, 0.21],
         mchr=[1, 1, 2, 2, 3], mphy=[100, 200, 50, 250, 15]),
    dict(name="extrapolated", chr=[1, 1, 1], phy=[10, 20, 30], gen=[0.1, 0.2, 0.4],
         mchr=[1, 1, 1, 1, 1], mphy=[5, 10, 25, 30, 40]),
]


# chromosome labels are arbitrary sorted integers: consecutive, with gaps, mixed (used in EVERY seed, not rotated)
LABELLINGS = [
    {1: 1, 2: 2, 3: 3},          # consecutive
    {1: 2, 2: 5, 3: 9},          # gaps everywhere
    {1: 11, 2: 12, 3: 21},       # one consecutive step, one gap
    {1: 1, 2: 3, 3: 7},
    {1: 0, 2: 4, 3: 5},          # label 0, gap then consecutive
]


def map_case(ctx, cs, answers=None):
    from pybrops.popgen.gmap.StandardGeneticMap import StandardGeneticMap
    from pybrops.popgen.gmap.ExtendedGeneticMap import ExtendedGeneticMap
    from pybrops.popgen.gmat.DensePhasedGenotypeMatrix import DensePhasedGenotypeMatrix
    M = MAPS[cs["map"]]
    lab = LABELLINGS[cs.get("labels", 0)]
    M = dict(M, chr=[lab[c] for c in M["chr"]], mchr=[lab[c] for c in M["mchr"]])
    scale = [1.0, 0.5, 2.0][cs["seed"] % 3]
    gen = [g * scale for g in M["gen"]]
    mapfn = _import(f"pybrops.popgen.gmap.{cs['mapfn']}", cs["mapfn"])()
    sig = f"interp_xoprob[{cs['mapfn']}]:"
    case0 = dict(cs, answers=None)
    st = {}

    def mkmap(gvals, kind):
        if cs.get("rows") == "unsorted" and gvals is gen:
            # the declared map given as UNSORTED records (positions out of order inside chromosomes, chromosomes interleaved),
            # constructed without automatic grouping, spline built explicitly
            nrow = len(M["chr"])
            order = list(range(nrow - 1, -1, -2)) + list(range(nrow - 2, -1, -2))      # e.g. 4,2,0,3,1
            col = lambda v, dt: numpy.array([v[i] for i in order], dtype=dt)
            kw2 = dict(vrnt_chrgrp=col(M["chr"], "int64"), vrnt_phypos=col(M["phy"], "int64"), vrnt_genpos=col(gvals, "float64"),
                       auto_group=False, auto_build_spline=False)
            if kind == "Extended":
                kw2["vrnt_stop"] = col(M["phy"], "int64")
            gmu = (ExtendedGeneticMap if kind == "Extended" else StandardGeneticMap)(**kw2)
            gmu.build_spline()
            return gmu
        if kind == "Extended":
            return ExtendedGeneticMap(vrnt_chrgrp=numpy.array(M["chr"], dtype="int64"), vrnt_phypos=numpy.array(M["phy"], dtype="int64"),
                                      vrnt_stop=numpy.array(M["phy"], dtype="int64"), vrnt_genpos=numpy.array(gvals, dtype="float64"))
        return StandardGeneticMap(vrnt_chrgrp=numpy.array(M["chr"], dtype="int64"), vrnt_phypos=numpy.array(M["phy"], dtype="int64"),
                                  vrnt_genpos=numpy.array(gvals, dtype="float64"))

    def build():
        kind = cs.get("gmap", "Standard")
        gm = mkmap(gen, kind)
        m = len(M["mchr"])
        geno, decode = coded_geno(2, m, cs["seed"])
        pre = cs.get("pre")
        kw = {}
        if pre == "construct":
            # the matrix already carries (other) genetic positions and crossover probabilities from its construction
            kw = dict(vrnt_genpos=numpy.array([0.07 + 0.9 * j for j in range(m)], dtype="float64"),
                      vrnt_xoprob=numpy.array([0.3] * m, dtype="float64"))
        pg = DensePhasedGenotypeMatrix(geno, vrnt_chrgrp=numpy.array(M["mchr"], dtype="int64"),
                                       vrnt_phypos=numpy.array(M["mphy"], dtype="int64"), **kw)
        pg.group_vrnt()
        if pre in ("mapA", "mapA-otherfn", "genposA"):
            # history: first placed on a different map A (same markers, other genetic positions, the other map class)
            genA = [2.5 * g + 0.03 * i for i, g in enumerate(gen)]
            gmA = mkmap(genA, "Extended" if kind == "Standard" else "Standard")
            if pre == "genposA":
                pg.interp_genpos(gmA)
            else:
                other = "KosambiMapFunction" if cs["mapfn"] == "HaldaneMapFunction" else "HaldaneMapFunction"
                fnA = _import(f"pybrops.popgen.gmap.{other}", other)() if pre == "mapA-otherfn" else mapfn
                pg.interp_xoprob(gmA, fnA)
            st["after_A"] = (pg.vrnt_genpos.copy(), None if pg.vrnt_xoprob is None else pg.vrnt_xoprob.copy())
        pg.interp_xoprob(gm, mapfn)          # the map passed LAST is the declared one
        st.update(pg=pg, geno=geno, decode=decode, m=m)
        # declared positions: linear interpolation / extrapolation of the map, per chromosome (reference, in floats)
        gpos = []
        for c, p in zip(M["mchr"], M["mphy"]):
            pts = sorted((pp, gg) for cc, pp, gg in zip(M["chr"], M["phy"], gen) if cc == c)
            k = max(0, min(len(pts) - 2, sum(1 for pp, _ in pts if pp <= p) - 1))
            (x0, y0), (x1, y1) = pts[k], pts[k + 1]
            gpos.append(y0 + (y1 - y0) * (p - x0) / (x1 - x0))
        st["gpos"] = gpos
        from ..core import close
        require(close(pg.vrnt_genpos, gpos, rel=1e-9, abs_=1e-12), sig + "genpos",
                f"interpolated genetic positions {pg.vrnt_genpos.tolist()} expected {gpos}")
        f = R.haldane if cs["mapfn"] == "HaldaneMapFunction" else R.kosambi
        xo = pg.vrnt_xoprob
        require(xo is not None and xo.shape == (m,) and xo.dtype == numpy.float64, sig + "xoprob-shape", f"{xo!r}")
        starts = [j for j in range(m) if j == 0 or M["mchr"][j] != M["mchr"][j - 1]]
        st["starts"] = starts
        for j in range(m):
            if j in starts:
                require(float(xo[j]) == 0.5, sig + "start-not-half",
                        f"marker {j} starts chromosome {M['mchr'][j]} and got crossover probability {float(xo[j])!r}, not 0.5")
            else:
                e = f(gpos[j] - gpos[j - 1])
                require(abs(float(xo[j]) - e) <= 1e-12, sig + "adjacent-map-function",
                        f"xoprob[{j}] = {float(xo[j])!r}, map function of the distance {gpos[j]-gpos[j-1]!r} to the previous marker "
                        f"is {e!r}")
        require(all(0.0 <= float(v) <= 0.5 for v in xo), sig + "xoprob-range", f"{xo.tolist()}")
    if not ctx.guard(build, case=case0, sig_prefix=sig):
        return
    pg, geno, decode, m = st["pg"], st["geno"], st["decode"], st["m"]
    xop = [float(v) for v in pg.vrnt_xoprob]
    x = [R.F(v) for v in xop]
    fn = _import(*FUNCS[cs["fn"]])
    msig = f"{cs['fn']}[{cs['mapfn']}]:"

    def run(ch):
        h = MeiosisHandler(ch, xop, mode="classes")
        try:
            out = fn(pg.mat, numpy.array([1], dtype="int64"), pg.vrnt_xoprob, ScriptedGenerator(h))
            exc = None
        except Exception as ex:
            out, exc = None, ex
        return out, exc, h

    dist = {}
    complete = True
    for ch, (out, exc, h) in _drive(run, answers):
        ctx.evaluations += 1
        ctx.transitions += 1
        case = dict(cs, answers=_trim(ch.taken))
        res = {}
        cs2 = dict(cs, xop=xop)
        ok = ctx.guard(lambda: gamete_exec_oracle(cs2, msig, geno, geno, geno, decode, decode, [1], m, xop, False, False,
                                                  out, exc, h, False, res), case=case, sig_prefix=msig)
        if ok:
            ctx.traces += 1
            key = res["prov"][0]
            dist[key] = dist.get(key, 0) + ch.weight
            ctx.outcome(digest(("map", key)))
            ctx.nontriv(digest(("map", cs["map"], cs["mapfn"], cs["fn"], cs.get("gmap"), cs.get("labels", 0), cs.get("pre"), cs.get("rows"), case["answers"])))
        else:
            complete = False
    ctx.state(digest(("map", cs["map"], cs["mapfn"], cs["fn"], cs.get("gmap"), cs.get("labels", 0), cs.get("pre"), cs.get("rows"))))
    ctx.count("map:configs")
    if cs.get("pre"):
        ctx.count(f"map:pre-existing-positions:{cs['pre']}")
    if cs.get("rows"):
        ctx.count(f"map:unsorted-ungrouped-map-records:{cs.get('gmap', 'Standard')}")
    if len(st["starts"]) > 1 and any(b - a != 1 for a, b in zip(sorted(set(M["mchr"])), sorted(set(M["mchr"]))[1:])):
        ctx.count(f"map:non-consecutive-chromosome-labels:{cs.get('gmap', 'Standard')}")
    if answers is not None or not complete:
        return

    def law():
        what = f"{cs['fn']} on map '{M['name']}' x {cs['mapfn']} (xoprob={xop})"
        check_gamete_law(dist, x, st["starts"], msig, what)
        gpos = st["gpos"]
        f = R.haldane if cs["mapfn"] == "HaldaneMapFunction" else R.kosambi
        for i, j in itertools.combinations(range(m), 2):
            got = sum(w for g, w in dist.items() if g[i] != g[j])
            if M["mchr"][i] != M["mchr"][j]:
                require(got == Fraction(1, 2), msig + "chromosomes-not-independent",
                        f"{what}: markers {i},{j} lie on different chromosomes and recombine with probability {got}, not 1/2")
            elif cs["mapfn"] == "HaldaneMapFunction":
                e = f(abs(gpos[j] - gpos[i]))
                require(abs(float(got) - e) <= 1e-12, msig + "haldane-composition",
                        f"{what}: markers {i},{j} recombine with probability {float(got)!r}; Haldane map function of their "
                        f"distance {abs(gpos[j]-gpos[i])!r} M is {e!r}")
                ctx.count("map:haldane-pairs-verified")
    if ctx.guard(law, case=case0, sig_prefix=msig):
        ctx.count("exact-laws-verified")
        ctx.count("exact-probabilities-compared", len(dist))
        ctx.sample(dict(case0, map_name=M["name"], genpos=st["gpos"], xoprob_assigned=xop,
                        exact_law={"".join(map(str, g)): str(w) for g, w in sorted(dist.items())[:4]}))


def map_cases(tier, seed):
    T = tier == "thorough"
    out = []
    for mi in range(len(MAPS)):
        nchrom = len(set(MAPS[mi]["chr"]))
        for mf in ("HaldaneMapFunction", "KosambiMapFunction"):
            for fn in (("mat_meiosis", "dense_meiosis") if (T or mi < 2) else ("mat_meiosis",)):
                out.append(dict(part="map", map=mi, mapfn=mf, fn=fn, labels=0, seed=seed, _cost=2 ** len(MAPS[mi]["mchr"])))
            # every chromosome labelling x both map classes (all seeds): boundaries must not depend on label values
            for gk in ("Standard", "Extended"):
                for li in range(len(LABELLINGS)):
                    if (li == 0 and gk == "Standard") or (nchrom == 1 and li not in (1, 4)):
                        continue
                    out.append(dict(part="map", map=mi, mapfn=mf, fn="mat_meiosis", gmap=gk, labels=li, seed=seed,
                                    _cost=2 ** len(MAPS[mi]["mchr"])))
            # the map given as unsorted records, auto_group=False + explicit build_spline(), both map classes (all seeds)
            for gi, gk in enumerate(("Standard", "Extended")):
                out.append(dict(part="map", map=mi, mapfn=mf, fn="mat_meiosis", gmap=gk, labels=(1, 0)[gi], rows="unsorted",
                                seed=seed, _cost=2 ** len(MAPS[mi]["mchr"])))
            # matrices that already carry genetic positions / crossover probabilities (from construction, from an earlier
            # interp_genpos or interp_xoprob on another map A, with the same or the other map function): the map passed
            # LAST decides (all seeds)
            for pi, pre in enumerate(("construct", "genposA", "mapA", "mapA-otherfn")):
                out.append(dict(part="map", map=mi, mapfn=mf, fn="mat_meiosis", gmap=("Standard", "Extended")[(mi + pi) % 2],
                                labels=(0, 1)[pi % 2], pre=pre, seed=seed, _cost=2 ** len(MAPS[mi]["mchr"])))
    return out


# ============================================================================
# layer D: end-to-end progeny law of the mating protocols
def cross_case(ctx, cs, answers=None):
    proto = cs["proto"]
    cls = _import(f"pybrops.breed.prot.mate.{proto}", proto)
    lay = tuple(cs["layout"])
    xop = [float(v) for v in cs["xop"]]
    m = len(xop)
    x = [R.F(v) for v in xop]
    n = 4
    pg, decode = prov_pgmat(n, lay, xop, cs["seed"])
    xc = numpy.array([cs["xconfig"]], dtype="int64")
    nm, npg, nself = cs["nmating"], cs["nprogeny"], cs["nself"]
    nprog = nm * npg
    sig = f"{proto}:"
    mat0 = pg.mat.copy()

    def run(ch):
        h = MeiosisHandler(ch, xop, mode="classes")
        try:
            prot = cls(rng=ScriptedGenerator(h))
            if cs.get("miscout"):
                out = prot.mate(pg, xc, nm, npg, miscout={}, nself=nself)
            else:
                out = prot.mate(pg, xc, nm, npg, nself=nself)
            exc = None
        except Exception as ex:
            out, exc = None, ex
        return out, exc, h

    def one(out, exc, res):
        if exc is not None:
            raise exc
        require(numpy.array_equal(pg.mat, mat0), sig + "input-mutated", "parents modified")
        mat = out.mat
        require(mat.shape == (2, nprog, m), sig + "shape", f"{mat.shape}")
        res["key"] = tuple((tuple(decode[int(v)] for v in mat[0, i]), tuple(decode[int(v)] for v in mat[1, i]))
                           for i in range(nprog))

    dist = {}
    complete = True
    for ch, (out, exc, h) in _drive(run, answers):
        ctx.evaluations += 1
        ctx.transitions += 1
        case = dict(cs, answers=_trim(ch.taken))
        res = {}
        ok = ctx.guard(lambda: one(out, exc, res), case=case, sig_prefix=sig)
        if ok:
            ctx.traces += 1
            dist[res["key"]] = dist.get(res["key"], 0) + ch.weight
            ctx.outcome(digest((proto, res["key"])))
            ctx.nontriv(digest((proto, cs["xconfig"], cs["xop"], nm, npg, nself, case["answers"])))
        else:
            complete = False
        if ctx.evaluations in (40, 3000) and ok:
            ctx.sample(dict(case, weight=str(ch.weight), progeny=[[["%d.%d.%d" % c for c in cp] for cp in p] for p in res["key"]]))
    ctx.state(digest((proto, cs["xconfig"], cs["xop"], nm, npg, nself)))
    ctx.count(f"cross:{proto}:configs")
    if cs.get("miscout"):
        ctx.count("cross:configs-with-miscout-dict")
    if answers is not None or not complete:
        return

    def law():
        what = f"{proto}.mate(xconfig={cs['xconfig']}, nmating={nm}, nprogeny={npg}, nself={nself}, xoprob={xop})"
        tot = sum(dist.values())
        require(tot == 1, "harness:weights", f"{what}: class weights sum to {tot}")
        lawx = R.pattern_law(x)
        parents = [(tuple((0, t, j) for j in range(m)), tuple((1, t, j) for j in range(m))) for t in cs["xconfig"]]
        if nprog == 1:
            exp = {(k,): w for k, w in R.progeny_dist(proto, parents, lawx, nself).items()}
        else:
            assert nself == 0
            fam = R.family_joint(proto, parents, lawx, npg)
            exp = {}
            for combo in itertools.product(fam.items(), repeat=nm):       # matings are independent
                key = tuple(p for c in combo for p in c[0])
                pr = Fraction(1)
                for c in combo:
                    pr *= c[1]
                exp[key] = exp.get(key, 0) + pr
        if dist != exp:
            keys = sorted(set(dist) | set(exp))
            bad = next(k for k in keys if dist.get(k, 0) != exp.get(k, 0))
            fmt = lambda k: [["".join("%d%d" % (c[0], c[1]) + "." for c in cp) for cp in p] for p in k]
            require(False, sig + "progeny-distribution",
                    f"{what}: exact law of the progeny differs from the law composed from the declared xoprob: "
                    f"P(progeny (copy.taxon per marker) {fmt(bad)}) = {dist.get(bad, 0)} (= {float(dist.get(bad, 0))!r}), "
                    f"declared {exp.get(bad, 0)} (= {float(exp.get(bad, 0))!r}); {len(dist)} vs {len(exp)} outcomes with positive probability")
        # corollary: with 1/2 at chromosome starts every progeny chromosome copy carries, at each locus, each of the
        # two copies of its parent individual with probability 1/2 — for the founders' alleles of a 2-parent cross:
        ctx.count("exact-probabilities-compared", len(dist))
    if ctx.guard(law, case=dict(cs, answers=None), sig_prefix=sig):
        ctx.count("exact-laws-verified")


def cross_cases(tier, seed):
    T = tier == "thorough"
    q = q_value(seed)
    out = []

    def add(proto, layout, xop, xconfig, nm=1, npg=1, nself=0):
        k = {"SelfCross": 2, "TwoWayCross": 2, "TwoWayDHCross": 2, "ThreeWayCross": 4, "ThreeWayDHCross": 4,
             "FourWayCross": 6, "FourWayDHCross": 6}[proto]
        dhk = 1 if proto.endswith("DHCross") else 0
        free = sum(1 for v in xop if 0.0 < v < 1.0)
        if proto.endswith("DHCross"):
            rows = nm * (k + 2 * nself) + nm * npg * dhk
        elif proto in ("ThreeWayCross",):
            rows = nm * 2 + nm * npg * 2 + nm * npg * 2 * nself
        elif proto in ("FourWayCross",):
            rows = nm * 4 + nm * npg * 2 + nm * npg * 2 * nself
        else:
            rows = nm * npg * (k + 2 * nself)
        cost = 2 ** (rows * free)
        assert cost <= 2 ** 18, (proto, xop, cost)
        out.append(dict(part="cross", proto=proto, layout=list(layout), xop=list(xop), xconfig=list(xconfig), nmating=nm,
                        nprogeny=npg, nself=nself, miscout=(len(out) % 2 == 1), seed=seed, _cost=cost * 8))

    x3 = [0.5, q, 0.5]
    x3b = [0.5, q, 1.0]
    x2 = [0.5, q]
    # two-parent protocols, three markers
    for lay, xop in (((3,), [0.5, q, 0.1]), ((2, 1), x3)):
        add("SelfCross", lay, xop, [2])
        add("TwoWayCross", lay, xop, [1, 3])
        add("TwoWayDHCross", lay, xop, [1, 3])
    add("TwoWayCross", (3,), x3b, [2, 2])
    add("SelfCross", (2,), x2, [1], nself=1)
    add("TwoWayCross", (2,), x2, [0, 3], nself=1)
    add("TwoWayDHCross", (2,), x2, [0, 3], nself=1)
    add("TwoWayDHCross", (2,), [q, 0.0], [3, 0])
    # families: siblings share exactly what the pedigree says they share
    add("TwoWayCross", (2,), x2, [0, 1], npg=2)
    add("TwoWayCross", (2,), x2, [0, 1], nm=2)
    add("SelfCross", (2,), x2, [3], npg=2)
    add("TwoWayDHCross", (2,), x2, [2, 1], npg=2)
    add("TwoWayDHCross", (2,), x2, [2, 1], nm=2)
    # three- and four-way, two markers
    add("ThreeWayCross", (2,), x2, [0, 1, 2])
    add("ThreeWayCross", (2,), x2, [1, 1, 3])
    add("ThreeWayDHCross", (2,), x2, [0, 1, 2])
    add("FourWayCross", (2,), x2, [0, 1, 2, 3])
    add("FourWayDHCross", (2,), x2, [0, 1, 2, 3])
    add("ThreeWayCross", (3,), x3, [3, 0, 1])
    add("ThreeWayDHCross", (3,), x3b, [3, 0, 1])
    add("FourWayCross", (3,), [0.5, q, 0.0], [0, 1, 2, 3])
    add("FourWayDHCross", (2,), [0.5, 1.0], [0, 1, 2, 3], nself=1)
    # crossover probabilities as a Haldane map assigns them (arbitrary doubles)
    xh = [0.5, R.haldane(0.05), R.haldane(0.4)]
    add("TwoWayDHCross", (3,), xh, [2, 0])
    add("TwoWayCross", (3,), xh, [2, 0])
    if T:
        add("TwoWayDHCross", (3,), x3, [1, 3], npg=2)
        add("FourWayCross", (3,), x3, [1, 0, 3, 2])
        add("ThreeWayDHCross", (3,), xh, [1, 2, 0])
        add("TwoWayDHCross", (3,), x3, [0, 2], nself=1)
        add("TwoWayCross", (3,), x3, [0, 2], nself=1)
        add("SelfCross", (3,), x3, [1], nself=1)
        add("ThreeWayCross", (2,), x2, [0, 1, 2], npg=2)
        add("ThreeWayCross", (2,), x2, [0, 1, 2], nself=1)
        add("ThreeWayDHCross", (3,), x3, [3, 0, 1])
        add("ThreeWayDHCross", (2,), x2, [2, 0, 0], nself=1)
        add("ThreeWayDHCross", (2,), [0.5, 1.0], [0, 1, 2], npg=2)
        add("FourWayCross", (1, 1), [0.5, 0.5], [3, 2, 1, 0])
        add("FourWayCross", (2,), x2, [0, 0, 1, 1], nself=1)
        add("FourWayDHCross", (2,), [0.5, q], [1, 0, 3, 2])
        add("FourWayDHCross", (3,), [0.5, 1.0, q], [0, 1, 2, 3])
        add("FourWayDHCross", (2,), [0.5, 1.0], [3, 2, 1, 0], nself=1)
    return out


# ============================================================================
# layer E: the DH simulation inside DenseExpectedMaximumBreedingValueMatrix.from_gmod (anchor; draws from global_prng)
EMBV = "DenseExpectedMaximumBreedingValueMatrix.from_gmod:"
LOCUS = [(0, 1), (1, 0), (0, 0), (1, 1)]        # (copy 0 allele, copy 1 allele): two heterozygous phases, two homozygotes


def embv_case(ctx, cs, answers=None):
    import pybrops.model.embvmat.DenseExpectedMaximumBreedingValueMatrix as EM
    from pybrops.model.gmod.DenseAdditiveLinearGenomicModel import DenseAdditiveLinearGenomicModel
    from pybrops.popgen.gmat.DensePhasedGenotypeMatrix import DensePhasedGenotypeMatrix
    xop = [float(v) for v in cs["xop"]]
    m = len(xop)
    x = [R.F(v) for v in xop]
    pats = cs["patterns"]                                   # per taxon: list of LOCUS indices
    n = len(pats)
    mat = numpy.array([[[LOCUS[k][c] for k in p] for p in pats] for c in range(2)], dtype="int8")
    nprog = cs["nprogeny"]
    fac = [1.0, 0.5, 3.0][cs["seed"] % 3]
    u = numpy.array([[fac * 2.0 ** j] for j in range(m)])   # each haplotype has its own value: linkage phase is observable
    beta0 = [0.0, -2.0, 10.0][cs["seed"] % 3]

    class Recording(DenseAdditiveLinearGenomicModel):       # public-interface subclass: sees the simulated progeny
        def gebv(self, gtobj, **kw):
            self.seen.append(gtobj.mat.copy())
            return super().gebv(gtobj, **kw)

    chrgrp = numpy.repeat(numpy.arange(1, len(cs["layout"]) + 1), cs["layout"]).astype("int64")
    pg = DensePhasedGenotypeMatrix(mat, vrnt_chrgrp=chrgrp, vrnt_phypos=numpy.arange(1, m + 1, dtype="int64"),
                                   vrnt_xoprob=numpy.array(xop, dtype="float64"))
    pg.group_vrnt()
    mat0 = mat.copy()
    lawx = R.pattern_law(x)

    def run(ch):
        h = MeiosisHandler(ch, xop, mode=cs.get("mode", "classes"))
        gm = Recording(beta=numpy.array([[beta0]]), u_misc=None, u_a=u.copy(), trait=None)
        gm.seen = []
        old = EM.global_prng
        EM.global_prng = ScriptedRandomState(h)             # the function draws from the library-wide generator
        try:
            out = EM.DenseExpectedMaximumBreedingValueMatrix.from_gmod(gm, pg, numpy.array(nprog, dtype="int64"), 1)
            exc = None
        except Exception as ex:
            out, exc = None, ex
        finally:
            EM.global_prng = old
        return out, exc, h, gm

    def one(out, exc, h, gm, res):
        if exc is not None:
            raise exc
        require(numpy.array_equal(pg.mat, mat0), EMBV + "input-mutated", "genotypes modified")
        shapes = [d[0] for d in h.draws]
        require(shapes == [(nprog[i], m) for i in range(n)], EMBV + "draws",
                f"uniform() shapes {shapes}; one draw per DH gamete per marker means {[(nprog[i], m) for i in range(n)]}")
        require(len(gm.seen) == n, EMBV + "progeny-sets", f"{len(gm.seen)} progeny sets evaluated for {n} taxa x 1 replicate")
        gam, best = [], []
        for i in range(n):
            pm = gm.seen[i]
            require(pm.shape == (2, nprog[i], m) and numpy.array_equal(pm[0], pm[1]), EMBV + "dh-progeny",
                    f"progeny set of taxon {i}: shape {pm.shape}, doubled haploids must be homozygous")
            vals = []
            for r in range(nprog[i]):
                g = tuple(int(v) for v in pm[0, r])
                for j in range(m):
                    require(g[j] in (int(mat[0, i, j]), int(mat[1, i, j])), EMBV + "alien-allele",
                            f"taxon {i} progeny {r} marker {j} carries {g[j]}")
                gam.append(g)
                vals.append(beta0 + 2.0 * sum(float(u[j, 0]) * g[j] for j in range(m)))
            best.append(max(vals))
        res["key"] = tuple(gam)
        if cs.get("mode") == "full":
            flags = numpy.concatenate([d[2] for d in h.draws], axis=0)
            vals_ = numpy.concatenate([d[1] for d in h.draws], axis=0)
            row = 0
            for i in range(n):
                for r in range(nprog[i]):
                    ph, exp = 0, []
                    for j in range(m):
                        ph ^= int(flags[row, j])
                        exp.append(int(mat[ph, i, j]))
                    require(tuple(exp) == gam[row], EMBV + "strict-comparison",
                            f"taxon {i} progeny {r}: draws {vals_[row].tolist()} against the declared xoprob {xop} give gamete {exp}, "
                            f"simulated {list(gam[row])} (taxon copies {mat[0, i].tolist()} / {mat[1, i].tolist()})")
                    row += 1
        un = numpy.asarray(out.unscale() if hasattr(out, "unscale") else out.mat * out.scale + out.location, dtype=float)
        if un.shape == (n, 1) and numpy.all(numpy.isfinite(un)) and len(set(best)) > 1:
            from ..core import close
            require(close(un[:, 0], best), EMBV + "value", f"EMBV {un[:, 0].tolist()} but the best simulated progeny are worth {best}")
            res["value-checked"] = True

    dist = {}
    complete = True
    for ch, (out, exc, h, gm) in _drive(run, answers, cs.get("bound")):
        ctx.evaluations += 1
        ctx.transitions += 1
        case = dict(cs, answers=_trim(ch.taken))
        res = {}
        ok = ctx.guard(lambda: one(out, exc, h, gm, res), case=case, sig_prefix=EMBV)
        if ok:
            ctx.traces += 1
            dist[res["key"]] = dist.get(res["key"], 0) + ch.weight
            ctx.outcome(digest(("embv", cs["patterns"], res["key"])))
            ctx.nontriv(digest(("embv", cs["patterns"], cs["xop"], nprog, cs.get("mode"), case["answers"])))
            if res.get("value-checked"):
                ctx.count("embv:value-checked")
        else:
            complete = False
        if ctx.evaluations in (40, 900) and ok:
            ctx.sample(dict(case, weight=str(ch.weight), taxa_copies=[[mat[c, i].tolist() for c in range(2)] for i in range(n)],
                            dh_gametes=[list(g) for g in res["key"]]))
    ctx.state(digest(("embv", cs["patterns"], cs["xop"], nprog, cs.get("mode"))))
    ctx.count("embv:configs")
    for p in pats:
        het = [k < 2 for k in p]
        if not het[0] and any(het):
            ctx.flag("embv:homozygous-first-marker")
        if any(het[a] and het[b] and not all(het[a:b + 1]) for a in range(m) for b in range(a + 2, m)):
            ctx.flag("embv:homozygous-between-heterozygous")
        if all(het):
            ctx.flag("embv:all-heterozygous")
    if cs.get("mode") == "full" or answers is not None or not complete:
        return

    def law():
        what = f"from_gmod(taxa {[[mat[c, i].tolist() for c in range(2)] for i in range(n)]}, nprogeny={nprog}, xoprob={xop})"
        tot = sum(dist.values())
        require(tot == 1, "harness:weights", f"{what}: class weights sum to {tot}")
        owner = [i for i in range(n) for _ in range(nprog[i])]
        margs = check_product(dist, len(owner), EMBV + "gametes-not-independent", what)
        for gi, mk in enumerate(margs):
            i = owner[gi]
            exp = R.gametes((tuple(int(v) for v in mat[0, i]), tuple(int(v) for v in mat[1, i])), lawx)
            if mk != exp:
                bad = next(k for k in sorted(set(mk) | set(exp)) if mk.get(k, 0) != exp.get(k, 0))
                require(False, EMBV + "gamete-law",
                        f"{what}: DH gamete {gi} (taxon {i}, copies {mat[0, i].tolist()} / {mat[1, i].tolist()}): P(gamete {list(bad)}) = "
                        f"{mk.get(bad, 0)} (= {float(mk.get(bad, 0))!r}); the declared vrnt_xoprob gives {exp.get(bad, 0)} "
                        f"(= {float(exp.get(bad, 0))!r})")
    if ctx.guard(law, case=dict(cs, answers=None), sig_prefix=EMBV):
        ctx.count("exact-laws-verified")
        ctx.count("exact-probabilities-compared", len(dist))


def embv_cases(tier, seed):
    T = tier == "thorough"
    A = xo_alphabet(seed)
    q = q_value(seed)
    X = [((3,), [0.5, q, A[1]]), ((2, 1), [0.5, A[2], 0.5]), ((3,), [A[1], 1.0, 0.5])]
    out = []
    pats = list(itertools.product(range(4), repeat=3))          # every het/hom pattern of 3 loci (both phases, both alleles)
    for pi, p in enumerate(pats):
        partner = pats[(pi * 7 + 3) % len(pats)]
        for xi, (lay, xop) in enumerate(X):
            if not T and xi != pi % 3 and not (xi == 0 and p[0] >= 2):
                continue
            out.append(dict(part="embv", patterns=[list(p), list(partner)], layout=list(lay), xop=xop, nprogeny=[1, 1], seed=seed,
                            _cost=64))
    # two DH per taxon (independent gametes), homozygous-first / homozygous-between / all heterozygous / all homozygous
    for p in ([2, 0, 1], [0, 3, 1], [0, 2, 0], [1, 0, 1], [3, 2, 3], [0, 1, 2]):
        for lay, xop in (X if T else X[:2]):
            out.append(dict(part="embv", patterns=[p, [0, 0, 0]], layout=list(lay), xop=xop, nprogeny=[2, 1], seed=seed, _cost=512))
    # weight-0 boundary answers in lock-step with the DECLARED xoprob (strict comparison, per marker, per gamete)
    for p in ([2, 0, 1], [0, 3, 1], [0, 2, 0], [1, 1, 0]):
        for lay, xop in X:
            out.append(dict(part="embv", patterns=[p, [3, 3, 2]], layout=list(lay), xop=xop, nprogeny=[1, 1], mode="full", bound=2,
                            seed=seed, _cost=200))
    return out


# ============================================================================
PARTS = {"gamete": (gamete_cases, gamete_case), "map": (map_cases, map_case), "cross": (cross_cases, cross_case),
         "embv": (embv_cases, embv_case)}


def _chunks(cases, nshards):
    tot = sum(c.get("_cost", 1) for c in cases)
    target = max(1, tot / nshards)
    out, cur, acc = [], [], 0
    for c in cases:
        cur.append(c)
        acc += c.get("_cost", 1)
        if acc >= target:
            out.append(cur)
            cur, acc = [], 0
    if cur:
        out.append(cur)
    return out


def shards(tier, seed):
    T = tier == "thorough"
    out = []
    for ch in _chunks(gamete_cases(tier, seed), 64 if T else 32):
        out.append(("gamete", ch))
    for ch in _chunks(map_cases(tier, seed), 12 if T else 8):
        out.append(("map", ch))
    for ch in _chunks(embv_cases(tier, seed), 16 if T else 8):
        out.append(("embv", ch))
    big = sorted(cross_cases(tier, seed), key=lambda c: -c["_cost"])
    for ch in _chunks(big, 48 if T else 24):
        out.append(("cross", ch))
    # the longest shards first (better packing), but one shard of every layer at the very front so that the few
    # recorded samples span all layers
    firsts, rest, seen = [], [], set()
    for sp in out:
        (rest if sp[0] in seen else firsts).append(sp)
        seen.add(sp[0])
    return firsts + [sp for sp in rest if sp[0] == "cross"] + [sp for sp in rest if sp[0] != "cross"]


def run_shard(spec, ctx):
    part, cases = spec
    T = ctx.tier == "thorough"
    ctx.bounds.update({"gamete_markers_max": 6 if T else 5, "gametes_per_call_max": 3 if T else 2,
                       "xoprob_alphabet": xo_alphabet(ctx.seed), "map_markers_max": 6,
                       "cross_markers_max": 3, "cross_answer_classes_max_per_config": 2 ** 18,
                       "boundary_layer_deviation_bound_m3": 2})
    fn = PARTS[part][1]
    for cs in cases:
        fn(ctx, cs)
        if explore.capped:
            ctx.capped.append(f"{part} cap")
        if part == "gamete":
            xs = cs["xop"]
            for v, nme in ((0.0, "xoprob-0"), (0.5, "xoprob-half"), (1.0, "xoprob-1")):
                if v in xs:
                    ctx.flag(nme)
            if cs.get("mode") == "full":
                ctx.flag("boundary-layer")
            if len(cs["sel"]) > 1:
                ctx.flag("two-gametes")
            if cs.get("starts") and len(cs["starts"]) > 1:
                ctx.flag("two-chromosomes")


def finalize(ctx, tier, seed):
    c = ctx.counters
    for fn in FUNCS:
        assert c.get(f"gamete:{fn}:configs", 0) > 0, fn
    for proto in RM.PROTOS:
        assert c.get(f"cross:{proto}:configs", 0) > 0, proto
    assert c.get("map:configs", 0) > 0
    for gk in ("Standard", "Extended"):
        assert c.get(f"map:non-consecutive-chromosome-labels:{gk}", 0) > 0, gk
    for pre in ("construct", "genposA", "mapA", "mapA-otherfn"):
        assert c.get(f"map:pre-existing-positions:{pre}", 0) > 0, pre
    for gk in ("Standard", "Extended"):
        assert c.get(f"map:unsorted-ungrouped-map-records:{gk}", 0) > 0, gk
    assert c.get("embv:configs", 0) > 0
    for f in ("embv:homozygous-first-marker", "embv:homozygous-between-heterozygous", "embv:all-heterozygous"):
        assert f in ctx.flags, f
    for f in ("xoprob-0", "xoprob-half", "xoprob-1", "boundary-layer", "two-gametes", "two-chromosomes"):
        assert f in ctx.flags, f
    assert c.get("boundary:weight-0-answers-exercised", 0) > 0
    if ctx.violations:
        return      # the guards below say "a clean verdict is not vacuous"; a run with violations is not a clean verdict
    assert c.get("map:haldane-pairs-verified", 0) > 0
    assert c.get("embv:value-checked", 0) > 0
    assert c.get("exact-laws-verified", 0) > 100
    assert ctx.traces == ctx.evaluations
    assert len(ctx.outcomes) > 100, len(ctx.outcomes)


def replay(case, ctx):
    fn = PARTS[case["part"]][1]
    cs = {k: v for k, v in case.items() if k != "answers"}
    fn(ctx, cs, answers=case.get("answers"))
